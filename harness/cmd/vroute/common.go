package main

import (
	"bytes"
	"encoding/json"
	"fmt"
	"net"
	"net/url"
	"os"
	"path/filepath"
	"strconv"
	"strings"
	"sync"

	"github.com/bfenetworks/bfe/bfe_basic"
	"github.com/bfenetworks/bfe/bfe_http"

	"verifharness/vkit"
)

// ------------------------------------------------------------ ordered JSON tree
//
// Configuration files are rendered from a small ordered JSON tree so that key
// order, duplicate keys and wrong types are under the generator's control
// (needed by the C13 mutator).

type jobj struct {
	K []string
	V []interface{}
}

type jraw string // emitted verbatim

func obj(kv ...interface{}) *jobj {
	o := &jobj{}
	for i := 0; i+1 < len(kv); i += 2 {
		o.set(kv[i].(string), kv[i+1])
	}
	return o
}

func (o *jobj) set(k string, v interface{}) *jobj {
	o.K = append(o.K, k)
	o.V = append(o.V, v)
	return o
}

func (o *jobj) get(k string) interface{} {
	for i := range o.K {
		if o.K[i] == k {
			return o.V[i]
		}
	}
	return nil
}

func strs(xs []string) []interface{} {
	out := make([]interface{}, len(xs))
	for i, x := range xs {
		out[i] = x
	}
	return out
}

func render(v interface{}) string {
	var b bytes.Buffer
	renderTo(&b, v)
	return b.String()
}

func renderTo(b *bytes.Buffer, v interface{}) {
	switch x := v.(type) {
	case nil:
		b.WriteString("null")
	case jraw:
		b.WriteString(string(x))
	case bool:
		b.WriteString(strconv.FormatBool(x))
	case int:
		b.WriteString(strconv.Itoa(x))
	case int64:
		b.WriteString(strconv.FormatInt(x, 10))
	case float64:
		b.WriteString(strconv.FormatFloat(x, 'g', -1, 64))
	case string:
		q, _ := json.Marshal(x)
		b.Write(q)
	case []interface{}:
		b.WriteByte('[')
		for i, e := range x {
			if i > 0 {
				b.WriteByte(',')
			}
			renderTo(b, e)
		}
		b.WriteByte(']')
	case *jobj:
		b.WriteByte('{')
		for i := range x.K {
			if i > 0 {
				b.WriteByte(',')
			}
			q, _ := json.Marshal(x.K[i])
			b.Write(q)
			b.WriteByte(':')
			renderTo(b, x.V[i])
		}
		b.WriteByte('}')
	default:
		panic(fmt.Sprintf("render: unsupported %T", v))
	}
}

// clone deep-copies a tree.
func clone(v interface{}) interface{} {
	switch x := v.(type) {
	case []interface{}:
		out := make([]interface{}, len(x))
		for i := range x {
			out[i] = clone(x[i])
		}
		return out
	case *jobj:
		o := &jobj{K: append([]string{}, x.K...), V: make([]interface{}, len(x.V))}
		for i := range x.V {
			o.V[i] = clone(x.V[i])
		}
		return o
	default:
		return v
	}
}

// ------------------------------------------------------------ scratch files

var (
	scratchOnce sync.Once
	scratchRoot string
	scratchOwn  bool
)

func scratchBase() string {
	scratchOnce.Do(func() {
		scratchRoot = os.Getenv("VERIF_SCRATCH")
		if scratchRoot == "" {
			// direct invocation without bin/check: private dir below the harness, removed at exit
			d, err := os.MkdirTemp(".", "tmp-vroute-")
			if err != nil {
				panic(err)
			}
			scratchRoot, _ = filepath.Abs(d)
			scratchOwn = true
		}
	})
	return scratchRoot
}

func scratchCleanup() {
	if scratchOwn {
		os.RemoveAll(scratchRoot)
	}
}

// fileSet is a directory with the configuration files of one case.
type fileSet struct {
	Dir       string
	c10Static bool // route_rule.data / cluster_conf.data hold C10's constant empty tables
}

var (
	fsMu   sync.Mutex
	fsFree []*fileSet
	fsSeq  int
)

// newFileSet hands out a private directory. Directories are recycled (one per
// concurrently running case) to keep file-system metadata traffic low; files
// are overwritten by the next case. parts only name the first user.
func newFileSet(parts ...interface{}) *fileSet {
	fsMu.Lock()
	if n := len(fsFree); n > 0 {
		f := fsFree[n-1]
		fsFree = fsFree[:n-1]
		fsMu.Unlock()
		return f
	}
	fsSeq++
	seq := fsSeq
	fsMu.Unlock()
	d := filepath.Join(scratchBase(), fmt.Sprintf("fs%03d-%v", seq, parts[0]))
	if err := os.MkdirAll(d, 0o755); err != nil {
		panic(err)
	}
	return &fileSet{Dir: d}
}

func (f *fileSet) write(name, content string) string {
	if name == fRoute || name == fCluster {
		f.c10Static = false
	}
	p := filepath.Join(f.Dir, name)
	if err := os.WriteFile(p, []byte(content), 0o644); err != nil {
		panic(err)
	}
	return p
}

func (f *fileSet) path(name string) string { return filepath.Join(f.Dir, name) }

// remove gives the directory back for reuse (bin/check deletes the scratch root).
func (f *fileSet) remove() {
	fsMu.Lock()
	fsFree = append(fsFree, f)
	fsMu.Unlock()
}

const (
	fHost    = "host_rule.data"
	fVip     = "vip_rule.data"
	fRoute   = "route_rule.data"
	fCluster = "cluster_conf.data"
	fGslb    = "gslb.data"
	fCTable  = "cluster_table.data"
)

// ------------------------------------------------------------ requests

// probeReq is a request as far as routing is concerned.
type probeReq struct {
	Host    string   `json:"host"`
	Path    string   `json:"path"`
	Vip     string   `json:"vip,omitempty"`
	Method  string   `json:"method,omitempty"`
	Headers []string `json:"headers,omitempty"` // header names present (value "1")
	Client  string   `json:"client,omitempty"`
}

func (p *probeReq) build() *bfe_basic.Request {
	hr := &bfe_http.Request{
		Method: "GET",
		Host:   p.Host,
		URL:    &url.URL{Path: p.Path},
		Header: make(bfe_http.Header),
	}
	if p.Method != "" {
		hr.Method = p.Method
	}
	for _, h := range p.Headers {
		hr.Header.Set(h, "1")
	}
	hr.RequestURI = p.Path
	ses := &bfe_basic.Session{}
	if p.Vip != "" {
		ses.Vip = net.ParseIP(p.Vip)
	}
	req := bfe_basic.NewRequest(hr, nil, nil, ses, nil)
	if p.Client != "" {
		req.ClientAddr = &net.TCPAddr{IP: net.ParseIP(p.Client), Port: 40000}
		req.RemoteAddr = req.ClientAddr
	}
	return req
}

// ------------------------------------------------------------ small helpers

func flipCase(g *vkit.Rand, s string) string {
	b := []byte(s)
	for i, c := range b {
		if c >= 'a' && c <= 'z' && g.Bool() {
			b[i] = c - 32
		} else if c >= 'A' && c <= 'Z' && g.Bool() {
			b[i] = c + 32
		}
	}
	return string(b)
}

func upper(s string) string { return strings.ToUpper(s) }

func errStr(err error) string {
	if err == nil {
		return ""
	}
	return err.Error()
}

func uniq(xs []string) []string {
	seen := map[string]bool{}
	var out []string
	for _, x := range xs {
		if !seen[x] {
			seen[x] = true
			out = append(out, x)
		}
	}
	return out
}

// loadReplayCase reads a replay witness; witnesses written by r.Try wrap the
// case as {"case": ..., "panic": ..., "stack": ...}.
func loadReplayCase(r *vkit.Run, v interface{}) error {
	var wrap struct {
		Case json.RawMessage `json:"case"`
	}
	if err := r.LoadReplay(&wrap); err == nil && len(wrap.Case) > 0 && string(wrap.Case) != "null" {
		return json.Unmarshal(wrap.Case, v)
	}
	return r.LoadReplay(v)
}
