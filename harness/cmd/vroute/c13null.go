package main

import (
	"fmt"
	"sort"
	"strings"
	"time"

	"github.com/bfenetworks/bfe/bfe_balance"
	"github.com/bfenetworks/bfe/bfe_config/bfe_cluster_conf/cluster_conf"
	"github.com/bfenetworks/bfe/bfe_config/bfe_route_conf/host_rule_conf"
	"github.com/bfenetworks/bfe/bfe_config/bfe_route_conf/route_rule_conf"
	"github.com/bfenetworks/bfe/bfe_config/bfe_route_conf/vip_rule_conf"
	"github.com/bfenetworks/bfe/bfe_route"

	"verifharness/vkit"
)

// C13, replacement family: ENUMERATED (not drawn) malformed files. For every file kind -
// the six core files and every module rule file - the whole document is replaced by each
// of a list of degenerate JSON documents, and every member of the first and second level
// is individually replaced by null, [], {}, a string and a number; every member of any
// depth is individually replaced by null. Each file goes through every public loader
// entry point under recover. A panic is the refuting event; in addition a document that
// is not a JSON object at all cannot be a file of any documented format, so a loader
// that returns no error for it is a violation as well ("rejected with an error").

const c13NullRule = " REPLACEMENT FAMILY (enumerated, c13null.go): for each of W generated worlds (q 4 / t 40) and each core file (host_rule, vip_rule, route_rule, cluster_conf, gslb, cluster_table), and for each module rule file loader and each of its seeds (sample, doc examples, rich seeds): (1) the whole document replaced by null, ' null\\n', [], {}, \"\", 0, true, \"x\", [null], {\"Version\":null}, {\"Config\":null}, {\"Version\":\"v\",\"Config\":null} and {\"<K>\":null} for every top-level member K of the file; (2) every member of level 1 and 2 (object member or array element) individually replaced by null, [], {}, \"x\", 0; (3) every member of any deeper level individually replaced by null. Core files run through the single loader (XxxLoad), the exported LoadAndCheck method on a zero value (host, vip, route, cluster_conf), bfe_route.LoadServerDataConf, ClusterTable.Init, BalTable.Init, BalTable.BalTableConfLoad + BalTableReload on an empty table and - when accepted - lookups / Balance / SetGslbBasic / SetSlowStart; module files through the module's loader (see MODULE RULE FILES). Refuting events: a panic (panic:<innermost bfe frame>), or a JSON document that is not an object (null, array, string, number, boolean) loading without error (accept-malformed:<file kind>:<document>; the ip list of mod_block is a text format and is exempt). Non-trivial = every case; distinct = (file kind, content)."

var c13WholeDocs = []string{
	`null`, " null\n", `[]`, `{}`, `""`, `0`, `true`, `"x"`, `[null]`,
	`{"Version":null}`, `{"Config":null}`, `{"Version":"v","Config":null}`,
}

// c13NotObject: the document is well-formed JSON but not an object.
func c13NotObject(doc string) bool {
	d := strings.TrimSpace(doc)
	return d != "" && d[0] != '{'
}

func c13DocName(doc string) string {
	d := strings.TrimSpace(doc)
	if d != doc {
		return "ws+" + d
	}
	return d
}

type c13Repl struct {
	Op   string // whole-doc:<doc> | member:<path>=<value>
	Text string
	// NotObj: the whole document is not a JSON object
	NotObj bool
}

type c13DepthSlot struct {
	s     c13Slot
	depth int
	path  string
}

func c13SlotsDepth(v interface{}, depth int, path string, out *[]c13DepthSlot) {
	switch x := v.(type) {
	case *jobj:
		for i := range x.V {
			p := path + "/" + x.K[i]
			*out = append(*out, c13DepthSlot{c13Slot{obj: x, i: i}, depth, p})
			c13SlotsDepth(x.V[i], depth+1, p, out)
		}
	case []interface{}:
		for i := range x {
			p := fmt.Sprintf("%s/%d", path, i)
			*out = append(*out, c13DepthSlot{c13Slot{arr: x, i: i}, depth, p})
			c13SlotsDepth(x[i], depth+1, p, out)
		}
	}
}

var c13MemberValues = []struct {
	name string
	v    func() interface{}
}{
	{"null", func() interface{} { return nil }},
	{"[]", func() interface{} { return []interface{}{} }},
	{"{}", func() interface{} { return obj() }},
	{`"x"`, func() interface{} { return "x" }},
	{"0", func() interface{} { return 0 }},
}

// c13Replacements enumerates the family for one well-formed file (tree may be nil for
// a file that is not JSON: whole documents only).
func c13Replacements(tree interface{}) []c13Repl {
	var out []c13Repl
	seen := map[string]bool{}
	add := func(op, text string) {
		if !seen[text] {
			seen[text] = true
			out = append(out, c13Repl{Op: op, Text: text, NotObj: strings.HasPrefix(op, "whole-doc:") && c13NotObject(text)})
		}
	}
	for _, d := range c13WholeDocs {
		add("whole-doc:"+c13DocName(d), d)
	}
	if tree == nil {
		return out
	}
	orig := render(tree)
	seen[orig] = true
	if o, ok := tree.(*jobj); ok {
		for _, k := range o.K {
			d := render(obj(k, nil))
			add("whole-doc:"+d, d)
		}
	}
	root := clone(tree)
	var slots []c13DepthSlot
	c13SlotsDepth(root, 1, "", &slots)
	for _, ds := range slots {
		old := ds.s.get()
		for _, mv := range c13MemberValues {
			if ds.depth > 2 && mv.name != "null" {
				continue
			}
			ds.s.put(mv.v())
			add(fmt.Sprintf("member-L%d:%s=%s", ds.depth, ds.path, mv.name), render(root))
		}
		ds.s.put(old)
	}
	return out
}

// c13DirectLoad calls the exported LoadAndCheck method of the file's conf type on a
// zero value (an entry point of its own: callers outside XxxLoad exist in bfe_route).
func c13DirectLoad(name, path string) (bool, error) {
	var err error
	switch name {
	case fHost:
		var c host_rule_conf.HostTableConf
		_, err = c.LoadAndCheck(path)
	case fVip:
		var c vip_rule_conf.VipTableConf
		_, err = c.LoadAndCheck(path)
	case fRoute:
		var c route_rule_conf.RouteTableConf
		_, err = c.LoadAndCheck(path)
	case fCluster:
		var c cluster_conf.BfeClusterConf
		_, err = c.LoadAndCheck(path)
	default:
		return false, nil
	}
	return true, err
}

// c13ExerciseMore: the entry points c13Exercise does not reach. Files are on disk.
func c13ExerciseMore(r *vkit.Run, wit *c13Witness, fs *fileSet) (directErr error, direct bool) {
	desc := func() interface{} { return wit }
	file := wit.Mut.File
	r.Try(desc, func() { direct, directErr = c13DirectLoad(file, fs.path(file)) })
	if file == fCluster {
		r.Try(desc, func() {
			t := new(bfe_route.ClusterTable)
			if err := t.Init(fs.path(fCluster)); err == nil {
				for name := range t.ClusterMap() {
					if c, err := t.Lookup(name); err == nil {
						// the getters bfe_server uses per request dereference the parsed conf
						c.BackendCheckConf()
						c.BackendConf()
						c.TimeoutConnSrv()
						c.RetryLevel()
						c.OutlierDetectionHttpCode()
						c.TimeoutReadClient()
						c.TimeoutReadClientAgain()
						c.TimeoutWriteClient()
						c.ReqWriteBufferSize()
						c.ReqFlushInterval()
						c.ResFlushInterval()
						c.CancelOnClientClose()
					}
				}
			}
		})
	}
	if file == fGslb || file == fCTable {
		r.Try(desc, func() {
			t := bfe_balance.NewBalTable(nil)
			gc, bc, err := t.BalTableConfLoad(fs.path(fGslb), fs.path(fCTable))
			if err == nil {
				t.BalTableReload(gc, bc)
				t.BalTableReload(gc, bc) // and onto the table it has just built
				st := t.GetState()
				for c := range st.Balancers {
					if b, err := t.Lookup(c); err == nil {
						pr := probeReq{Host: "a.example.org", Path: "/", Client: "10.2.3.4"}
						b.Balance(pr.build())
					}
				}
			}
		})
	}
	return directErr, direct
}

func c13NullCore(r *vkit.Run, wi int, w *c13World, file string) {
	fs := newFileSet("c13null", wi)
	defer fs.remove()
	base := w.texts()
	kind := strings.TrimSuffix(file, ".data")
	c13WriteAll(fs, base)
	for _, rp := range c13Replacements(w.Files[file]) {
		texts := map[string]string{}
		for k, v := range base {
			texts[k] = v
		}
		texts[file] = rp.Text
		wit := &c13Witness{Mode: "totality", Mut: c13Mut{File: file, Ops: []string{rp.Op}, Tree: true}, Files: texts, othersOnDisk: true}
		singleErr, l := c13Exercise(r, wit, fs, w.Hosts)
		directErr, direct := c13ExerciseMore(r, wit, fs)
		r.CaseS("n|"+file+"|"+rp.Text, true)
		cls := strings.SplitN(rp.Op, ":", 2)[0]
		r.Count("n_core_"+cls, 1)
		r.Count("n_core_"+kind, 1)
		if rp.Op == "whole-doc:null" {
			r.Count("n_whole_null_"+kind, 1)
		}
		if l == nil { // panicked (reported by r.Try)
			r.Count("c_panicked", 1)
			continue
		}
		if singleErr != nil {
			r.Count("n_core_rejected", 1)
		} else {
			r.Count("n_core_accepted", 1)
		}
		if rp.NotObj {
			how := ""
			switch {
			case singleErr == nil:
				how = "the file's loader"
			case direct && directErr == nil:
				how = "LoadAndCheck"
			case (file == fHost || file == fVip || file == fRoute || file == fCluster) && l.sdcErr == nil:
				how = "LoadServerDataConf"
			case (file == fGslb || file == fCTable) && l.balErr == nil:
				how = "BalTable.Init"
			}
			if how != "" {
				r.Violation("accept-malformed:"+kind+":"+c13DocName(rp.Text), fmt.Sprintf("%s whose whole content is the JSON document %q (not an object) was loaded without error by %s", file, rp.Text, how), wit)
			} else {
				r.Count("n_not_object_rejected", 1)
			}
		}
	}
}

// c13NullCoreFamily runs the family over the core files.
func c13NullCoreFamily(r *vkit.Run) {
	t0 := time.Now() // reporting only (null_core_wall_s); no oracle depends on it
	defer func() { r.Extra("null_core_wall_s", time.Since(t0).Seconds()) }()
	nw := r.N(4, 40)
	type job struct {
		wi   int
		w    *c13World
		file string
	}
	var jobs []job
	for i := 0; i < nw; i++ {
		w := c13GenWorld(r.Rng("null-world", i), i%2 == 0)
		for _, f := range c13FileNames {
			jobs = append(jobs, job{i, w, f})
		}
	}
	vkit.Parallel(len(jobs), 0, func(k int) { c13NullCore(r, jobs[k].wi, jobs[k].w, jobs[k].file) })
	for _, f := range c13FileNames {
		if r.Counter("n_whole_null_"+strings.TrimSuffix(f, ".data")) == 0 {
			r.Inconclusive("replacement family: whole-document null never evaluated for " + f)
		}
	}
	for _, c := range []string{"whole-doc", "member-L1", "member-L2", "member-L3"} {
		if r.Counter("n_core_"+c) == 0 {
			r.Inconclusive("replacement family: class never evaluated on a core file: " + c)
		}
	}
	if r.Counter("n_not_object_rejected") == 0 {
		r.Inconclusive("replacement family: no non-object document was observed rejected")
	}
}

// c13NullModules runs the family over the module rule files (called by c13Modules with
// its context and the distinct seeds per loader).
func c13NullModules(r *vkit.Run, x *c13ModCtx, all map[string][]*c13ModSeed) {
	t0 := time.Now() // reporting only (null_mod_wall_s)
	defer func() { r.Extra("null_mod_wall_s", time.Since(t0).Seconds()) }()
	type job struct {
		l  *c13ModLoader
		sd *c13ModSeed
		rp c13Repl
	}
	var jobs []job
	for _, l := range c13ModLoaders {
		seeds := all[l.Name]
		if len(seeds) == 0 {
			continue
		}
		seen := map[string]bool{}
		for _, sd := range seeds {
			var tree interface{}
			if !l.Text {
				tree = sd.Tree
			}
			for _, rp := range c13Replacements(tree) {
				if !seen[rp.Text] {
					seen[rp.Text] = true
					jobs = append(jobs, job{l: l, sd: sd, rp: rp})
				}
			}
		}
	}
	// deterministic order, independent of map iteration
	sort.SliceStable(jobs, func(a, b int) bool { return jobs[a].l.Name < jobs[b].l.Name })
	vkit.Parallel(len(jobs), 0, func(k int) {
		j := jobs[k]
		fs := newFileSet("c13nullmod", k)
		defer fs.remove()
		wit := &c13ModWitness{Mode: "module", Loader: j.l.Name, Which: j.sd.Which, Ops: []string{j.rp.Op}, Content: j.rp.Text}
		err, panicked := c13ModRun(r, x, j.l, wit, fs)
		r.CaseS("nm|"+j.l.Name+"|"+j.rp.Text, true)
		cls := strings.SplitN(j.rp.Op, ":", 2)[0]
		r.Count("n_mod_"+cls, 1)
		if j.rp.Op == "whole-doc:null" {
			r.Count("n_mod_whole_null_loaders", 1)
		}
		switch {
		case panicked:
			r.Count(j.l.Name+"_panicked", 1)
		case err != nil && strings.HasPrefix(err.Error(), "c13-init:"):
			r.Inconclusive(j.l.Name + ": " + err.Error())
		case err != nil:
			r.Count("n_mod_rejected", 1)
			if j.rp.NotObj && !j.l.Text {
				r.Count("n_mod_not_object_rejected", 1)
			}
		default:
			r.Count("n_mod_accepted", 1)
			if j.rp.NotObj && !j.l.Text {
				r.Violation("accept-malformed:"+j.l.Name+":"+c13DocName(j.rp.Text), fmt.Sprintf("%s: a rule file whose whole content is the JSON document %q (not an object) was loaded without error", j.l.Name, j.rp.Text), wit)
			}
		}
	})
	if n := r.Counter("n_mod_whole_null_loaders"); n < int64(len(c13ModLoaders)) {
		r.Inconclusive(fmt.Sprintf("replacement family: whole-document null evaluated for %d of %d module rule file loaders", n, len(c13ModLoaders)))
	}
	for _, c := range []string{"whole-doc", "member-L1", "member-L2", "member-L3"} {
		if r.Counter("n_mod_"+c) == 0 {
			r.Inconclusive("replacement family: class never evaluated on a module rule file: " + c)
		}
	}
}
