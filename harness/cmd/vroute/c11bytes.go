package main

import (
	"fmt"
	"strings"
	"sync/atomic"
	"unicode"
	"unicode/utf8"

	"github.com/bfenetworks/bfe/bfe_route"

	"verifharness/ref/route"
	"verifharness/vkit"
)

// C11, host-byte-space family: "exact host match" means the request host IS the configured
// host - whatever bytes the name is made of. Two host names that differ in one character
// (that is not a letter-case variant) are two different hosts: both can be configured in
// one table, each is found by exactly its own name, and a name that is not configured is
// never served by an exact-host rule (it goes to the wildcard / any-host rule per the
// documented order, or to no rule at all).
//
// Names are built from ASCII letters/digits and from 2-, 3- and 4-byte UTF-8 characters.
// Soundness: the statement says "case-insensitive" without defining case outside ASCII, so
// the family never depends on it: non-ASCII characters are taken from caseless scripts
// (Hebrew, CJK, kana, full-width / mathematical digits, symbols, emoji) and from plain
// lower-case Latin-1 / Cyrillic / Greek letters whose upper-case form has the same byte
// length and no second lower-case form (no sharp s, dotless/dotted i, sigma, micro sign,
// Greek symbol variants, title case); a few plain upper-case letters occur only in rule
// hosts that are requested with the identical spelling. Only ASCII letters are case-flipped
// in requests. Two names of one table always differ under full Unicode simple case folding
// (checked per generated table, c11bFoldKey), so no oracle verdict depends on how bfe folds.

const c11BytesRule = " HOST-BYTE-SPACE FAMILY: tables over 3-4 label host names built from ASCII letters/digits and 2-/3-/4-byte UTF-8 characters (kinds: ascii-only, 2-byte, 3-byte, 4-byte, mixed, mixed with a plain upper-case non-ASCII letter in the rule host), a base name H and its neighbours H', H'' that differ from H in exactly ONE character (in the first / middle / last label; replacement of the same or of a different encoded length; never a case variant - all names of a table differ under Unicode simple case folding; only caseless scripts and plain lower-case Latin-1/Cyrillic/Greek letters, no sharp s / dotless i / sigma / micro / length-changing case pairs). Table shapes: exact H + any-host; exact H and exact H' (same paths) + any-host; exact H + wildcard *.parent(H) + any-host; wildcards *.S and *.S' (+ any-host) probed with one-label (non-ASCII label too), two-label and bare-suffix hosts; exact H and exact H' without any-host. Probes: every configured name spelled identically, with ASCII letters case-flipped and with :port, every neighbour likewise, x paths /a /a/b /b and empty. Demanded via ref/route.BasicLookup, hosts compared exactly after ASCII case folding: (a) an identical request host is decided by its own rule, (b) a neighbour that is not configured is not decided by an exact-host rule but by the wildcard / any-host rule of the documented order (or no rule), (c) a table with two distinct neighbour names loads. The run is inconclusive unless every kind x mutated label x same/different length x table shape occurred and (a), (b), (c) were each exercised with non-ASCII names."

var (
	c11bASCII = strings.Split("a b c d e k m n s t x z 0 1 7 9", " ")
	// 2-byte: Latin-1 lower (no ß ÿ µ), Cyrillic lower, Greek lower without symbol variants, Hebrew
	c11b2 = strings.Split("à á â å æ ç è é ê ë î ò ó ô ø ù ú ý þ г з л п ф ц ш я α γ δ ζ η ν ξ τ χ ω א ב ג ד ה ל מ ש", " ")
	// 3-byte: CJK, hiragana/katakana, full-width digits, symbols
	c11b3 = strings.Split("中 文 網 站 北 京 東 例 子 山 あ い う か さ ア カ １ ２ ９ € ™ ☃ ♥", " ")
	// 4-byte: CJK extension B, emoji, mathematical digits
	c11b4 = strings.Split("𠀀 𠀁 𠀂 𠮷 𡈽 😀 😁 🚀 🌍 🎉 𝟘 𝟙 𝟚 𝟡", " ")
	// plain upper-case letters (lower form has the same byte length, single case pair; the lower forms are NOT in c11b2)
	c11bUpper = strings.Split("Ä Ö Ü Ñ Б Д Ж Λ Ψ", " ")
)

var c11bKinds = []string{"ascii", "2byte", "3byte", "4byte", "mixed", "mixed-upper"}
var c11bPos = []string{"first", "middle", "last"}
var c11bLen = []string{"same", "diff"}
var c11bShapes = []string{"exact+any", "two-exact+any", "exact+wildcard+any", "two-wildcards+any", "two-exact-no-any"}

func c11bClass(n int) []string {
	switch n {
	case 1:
		return c11bASCII
	case 2:
		return c11b2
	case 3:
		return c11b3
	}
	return c11b4
}

// c11bFoldKey maps every rune to the smallest member of its simple-case-folding orbit:
// two names with different keys are different under every notion of letter case.
func c11bFoldKey(s string) string {
	var b strings.Builder
	for _, c := range s {
		m := c
		for f := unicode.SimpleFold(c); f != c; f = unicode.SimpleFold(f) {
			if f < m {
				m = f
			}
		}
		b.WriteRune(m)
	}
	return b.String()
}

func c11bNonASCII(s string) bool {
	for i := 0; i < len(s); i++ {
		if s[i] >= 0x80 {
			return true
		}
	}
	return false
}

type c11bProbe struct {
	c11Probe
	role string // "identical" (a configured name, spelled as configured), "variant" (configured, ASCII case / port), "neighbour" (not configured), "other"
}

type c11bCase struct {
	Kind, Pos, Len, Shape string
	H, H1, H2             string // base name and two one-character neighbours
	Set                   *c11RuleSet
	Probes                []c11bProbe
}

// c11bGen builds case idx: the four dimensions are enumerated from idx, the characters
// are drawn from g.
func c11bGen(g *vkit.Rand, idx int) *c11bCase {
	kind := idx % len(c11bKinds)
	pos := (idx / 6) % 3
	ln := (idx / 18) % 2
	shape := (idx / 36) % len(c11bShapes)
	c := &c11bCase{Kind: c11bKinds[kind], Pos: c11bPos[pos], Len: c11bLen[ln], Shape: c11bShapes[shape]}

	pickChar := func() string {
		switch kind {
		case 0:
			return g.PickS(c11bASCII)
		case 1, 2, 3:
			if g.Bool() {
				return g.PickS(c11bASCII)
			}
			return g.PickS(c11bClass(kind + 1))
		}
		return g.PickS(c11bClass(g.Range(1, 4)))
	}
	nl := 3
	if g.Chance(1, 4) {
		nl = 4
	}
	labels := make([][]string, nl)
	for i := range labels {
		for n := g.Range(1, 3); n > 0; n-- {
			labels[i] = append(labels[i], pickChar())
		}
	}
	// the mutated character: label by pos, index drawn; for the non-ASCII kinds it is non-ASCII
	ml := []int{0, 1 + g.Intn(nl-2), nl - 1}[pos]
	if shape == 3 && ml == 0 {
		ml = 1 // the wildcard suffix S starts at label 1: "first" = first label of S
	}
	mi := g.Intn(len(labels[ml]))
	switch kind {
	case 1, 2, 3:
		labels[ml][mi] = g.PickS(c11bClass(kind + 1))
	case 4, 5:
		labels[ml][mi] = g.PickS(c11bClass(g.Range(2, 4)))
	}
	orig := labels[ml][mi]
	if kind == 5 {
		// a plain upper-case non-ASCII letter somewhere else in the name
		for try := 0; try < 20; try++ {
			l := g.Intn(nl)
			k := g.Intn(len(labels[l]))
			if l == ml && k == mi {
				continue
			}
			labels[l][k] = g.PickS(c11bUpper)
			break
		}
	}
	join := func() string {
		var ls []string
		for _, l := range labels {
			ls = append(ls, strings.Join(l, ""))
		}
		return strings.Join(ls, ".")
	}
	c.H = join()
	// two replacements, different from the original and from each other under case folding
	var repl []string
	for try := 0; len(repl) < 2 && try < 200; try++ {
		n := len(orig)
		if ln == 1 && len(repl) == 0 { // H' has the other length; H'' always the same length as H
			for n == len(orig) {
				n = g.Range(1, 4)
			}
		}
		ch := g.PickS(c11bClass(n))
		if c11bFoldKey(ch) == c11bFoldKey(orig) || (len(repl) == 1 && c11bFoldKey(ch) == c11bFoldKey(repl[0])) {
			continue
		}
		repl = append(repl, ch)
	}
	if len(repl) < 2 {
		return nil
	}
	labels[ml][mi] = repl[0]
	c.H1 = join()
	labels[ml][mi] = repl[1]
	c.H2 = join()
	labels[ml][mi] = orig
	if k0, k1, k2 := c11bFoldKey(c.H), c11bFoldKey(c.H1), c11bFoldKey(c.H2); k0 == k1 || k0 == k2 || k1 == k2 {
		return nil
	}
	cut := func(h string) (string, string) { // first label, rest
		i := strings.IndexByte(h, '.')
		return h[:i], h[i+1:]
	}
	anyHosts := []string{"*"}
	if g.Bool() {
		anyHosts = nil // any-host written by omitting the field
	}
	rule := func(cluster string, hosts []string, paths ...string) route.BasicRule {
		return route.BasicRule{Hosts: hosts, Paths: paths, Cluster: cluster}
	}
	var configured, neighbours, others []string
	switch shape {
	case 0:
		c.Set = &c11RuleSet{Rules: []route.BasicRule{rule("c1", []string{c.H}, "/a", "/a/*"), rule("c2", anyHosts, "/a", "*")}}
		configured, neighbours = []string{c.H}, []string{c.H1, c.H2}
	case 1:
		c.Set = &c11RuleSet{Rules: []route.BasicRule{rule("c1", []string{c.H}, "/a"), rule("c2", []string{c.H1}, "/a", "/b/*"), rule("c3", anyHosts, "*")}}
		configured, neighbours = []string{c.H, c.H1}, []string{c.H2}
	case 2:
		_, parent := cut(c.H)
		c.Set = &c11RuleSet{Rules: []route.BasicRule{rule("c1", []string{c.H}, "/a"), rule("c2", []string{"*." + parent}, "/a", "/b"), rule("c3", anyHosts, "*")}}
		configured, neighbours = []string{c.H}, []string{c.H1, c.H2}
	case 3:
		l0, s := cut(c.H)
		_, s1 := cut(c.H1)
		_, s2 := cut(c.H2)
		c.Set = &c11RuleSet{Rules: []route.BasicRule{rule("c1", []string{"*." + s}, "/a"), rule("c2", []string{"*." + s1}, "/a", "/b/*"), rule("c3", anyHosts, "*")}}
		// one label under a configured suffix is decided by that wildcard rule; under the third suffix, two labels deep, or the bare suffix: any-host
		configured = []string{l0 + "." + s, l0 + "." + s1, "q." + s, "q." + s1}
		neighbours = []string{l0 + "." + s2, "q." + s2}
		others = []string{"q." + l0 + "." + s, "q." + l0 + "." + s1, s, s1}
	case 4:
		c.Set = &c11RuleSet{Rules: []route.BasicRule{rule("c1", []string{c.H}, "/a", "*"), rule("c2", []string{c.H1}, "/a")}}
		configured, neighbours = []string{c.H, c.H1}, []string{c.H2}
	}
	paths := []string{"/a", "/a/b", "/b", ""}
	add := func(role, h string) {
		for _, p := range paths {
			c.Probes = append(c.Probes, c11bProbe{c11Probe{h, p}, role})
		}
	}
	for _, h := range configured {
		add("identical", h)
		add("variant", flipCase(g, h))
		add("variant", h+":8080")
	}
	for _, h := range neighbours {
		add("neighbour", h)
		add("neighbour", flipCase(g, h)+":81")
	}
	for _, h := range others {
		add("other", h)
	}
	return c
}

var c11bSamples int32

func c11bRun(r *vkit.Run, c *c11bCase, fs *fileSet) {
	s := c.Set
	var ht *bfe_route.HostTable
	var err error
	path := fs.write(fRoute, s.routeJSON())
	witness := func() interface{} {
		return map[string]interface{}{"rules": s, "probe": c.Probes[0].c11Probe, "family": "host-bytes", "kind": c.Kind, "mutated_label": c.Pos, "length": c.Len, "shape": c.Shape, "names": []string{c.H, c.H1, c.H2}}
	}
	if r.Try(witness, func() { ht, err = loadRouteOnly(path) }) {
		return
	}
	if err != nil {
		r.Violation("host-bytes:load-rejected-distinct-hosts",
			fmt.Sprintf("table with the distinct host names %q and %q (they differ in one character that is no case variant; %s, %s label, %s length; shape %s) was rejected: %v", c.H, c.H1, c.Kind, c.Pos, c.Len, c.Shape, err), witness())
		return
	}
	nonASCII := c.Kind != "ascii" || c.Len == "diff"
	if c.Shape == "two-exact+any" || c.Shape == "two-wildcards+any" || c.Shape == "two-exact-no-any" {
		r.Count("hostbytes_two_distinct_names_loaded", 1)
		if nonASCII {
			r.Count("hostbytes_two_distinct_names_loaded_nonascii", 1)
		}
	}
	for _, p := range c.Probes {
		w := c11Eval(r, s, ht, p.c11Probe)
		na := c11bNonASCII(p.Host)
		switch {
		case p.role == "identical" && (w.HostClass == route.HostExact || w.HostClass == route.HostWildcard):
			r.Count("hostbytes_identical_decided_by_own_rule", 1)
			if na {
				r.Count("hostbytes_identical_decided_by_own_rule_nonascii", 1)
			}
		case p.role == "neighbour" && w.HostClass != route.HostExact:
			r.Count("hostbytes_neighbour_not_exact_"+w.HostClass, 1)
			if na {
				r.Count("hostbytes_neighbour_not_exact_nonascii", 1)
			}
		}
	}
	r.Evals(int64(len(c.Probes)) - 1)
	r.CaseS("hostbytes "+s.routeJSON(), true)
	for _, k := range []string{"kind_" + c.Kind, "label_" + c.Pos, "length_" + c.Len, "shape_" + c.Shape} {
		r.Count("hostbytes_"+k, 1)
	}
	r.Count("hostbytes_tables", 1)
	r.Count("hostbytes_probes", int64(len(c.Probes)))
	if c.Kind != "ascii" && atomic.AddInt32(&c11bSamples, 1) <= 2 {
		r.Sample(map[string]interface{}{"family": "host-bytes", "shape": c.Shape, "kind": c.Kind, "names": []string{c.H, c.H1, c.H2}, "route_file": s.routeJSON(), "probes": []c11Probe{c.Probes[0].c11Probe, c.Probes[len(c.Probes)-1].c11Probe}})
	}
}

func c11Bytes(r *vkit.Run) {
	// self-check of the alphabets (pure): valid UTF-8 of the declared length, pairwise different under case folding
	seen := map[string]string{}
	for n := 1; n <= 4; n++ {
		for _, ch := range append(append([]string{}, c11bClass(n)...), map[bool][]string{true: c11bUpper}[n == 2]...) {
			k := c11bFoldKey(ch)
			if !utf8.ValidString(ch) || utf8.RuneCountInString(ch) != 1 || len(ch) != n || seen[k] != "" ||
				len(strings.ToUpper(ch)) != n || len(strings.ToLower(ch)) != n {
				r.Inconclusive(fmt.Sprintf("host-bytes alphabet: character %q does not fit its class (len %d, fold twin %q)", ch, len(ch), seen[k]))
				return
			}
			seen[k] = ch
		}
	}
	combos := len(c11bKinds) * 3 * 2 * len(c11bShapes) // 180
	n := r.N(2*combos, 20*combos)
	vkit.Parallel(n, 0, func(i int) {
		g := r.Rng("hostbytes", i)
		c := c11bGen(g, i)
		if c == nil {
			r.Count("hostbytes_skipped", 1)
			return
		}
		fs := newFileSet("c11", "hb", i)
		defer fs.remove()
		c11bRun(r, c, fs)
	})
	var need []string
	for _, k := range c11bKinds {
		need = append(need, "kind_"+k)
	}
	for _, k := range c11bPos {
		need = append(need, "label_"+k)
	}
	for _, k := range c11bLen {
		need = append(need, "length_"+k)
	}
	for _, k := range c11bShapes {
		need = append(need, "shape_"+k)
	}
	need = append(need, "identical_decided_by_own_rule_nonascii", "neighbour_not_exact_nonascii", "two_distinct_names_loaded_nonascii",
		"neighbour_not_exact_"+route.HostWildcard, "neighbour_not_exact_"+route.HostAny, "neighbour_not_exact_"+route.HostMiss)
	for _, k := range need {
		if r.Counter("hostbytes_"+k) == 0 {
			r.Inconclusive("host-byte-space family: shape never occurred: " + k)
		}
	}
}
