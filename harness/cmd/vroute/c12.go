package main

import (
	"fmt"
	"strings"

	"github.com/bfenetworks/bfe/bfe_route"

	"verifharness/ref/route"
	"verifharness/vkit"
)

// C12: destination cluster = basic result when it names a real cluster; on a
// basic miss or ADVANCED_MODE the first advanced rule (configured order) whose
// condition holds; otherwise a no-rule error and no cluster.
// Oracle: ref/route.Combine over ref/route.BasicLookup and a truth table the
// harness controls (conditions only test header presence / method).

type c12Cond struct {
	Op      string   `json:"op"` // hdr | nothdr | and | or | method | default
	A       int      `json:"a"`
	B       int      `json:"b"`
	Methods []string `json:"methods,omitempty"`
}

func c12Hdr(k int) string { return fmt.Sprintf("X-C%d", k) }

func (c c12Cond) text() string {
	h := func(k int) string { return fmt.Sprintf(`req_header_key_in("%s")`, c12Hdr(k)) }
	switch c.Op {
	case "hdr":
		return h(c.A)
	case "nothdr":
		return "!" + h(c.A)
	case "and":
		return h(c.A) + " && " + h(c.B)
	case "or":
		return h(c.A) + " || " + h(c.B)
	case "method":
		return fmt.Sprintf(`req_method_in("%s")`, strings.Join(c.Methods, "|"))
	default:
		return "default_t()"
	}
}

// truth is the harness-side truth table (no condition evaluator involved).
func (c c12Cond) truth(bits []bool, method string) bool {
	switch c.Op {
	case "hdr":
		return bits[c.A]
	case "nothdr":
		return !bits[c.A]
	case "and":
		return bits[c.A] && bits[c.B]
	case "or":
		return bits[c.A] || bits[c.B]
	case "method":
		for _, m := range c.Methods {
			if m == method {
				return true
			}
		}
		return false
	default:
		return true
	}
}

type c12Adv struct {
	Cond    c12Cond `json:"cond"`
	Cluster string  `json:"cluster"`
}

type c12Product struct {
	Name     string            `json:"name"`
	HasBasic bool              `json:"has_basic"`
	Basic    []route.BasicRule `json:"basic"`
	HasAdv   bool              `json:"has_adv"`
	Adv      []c12Adv          `json:"adv"`
}

type c12Conf struct {
	Products []c12Product `json:"products"`
}

type c12Probe struct {
	Product string `json:"product"`
	Host    string `json:"host"`
	Path    string `json:"path"`
	Bits    []bool `json:"bits"`
	Method  string `json:"method"`
}

const c12NBits = 4

func (c *c12Conf) routeJSON() string {
	basic, adv := obj(), obj()
	nb, na := 0, 0
	for _, p := range c.Products {
		if p.HasBasic {
			basic.set(p.Name, basicRulesJSON(p.Basic))
			nb++
		}
		if p.HasAdv {
			var rs []interface{}
			for _, a := range p.Adv {
				rs = append(rs, obj("Cond", a.Cond.text(), "ClusterName", a.Cluster))
			}
			if rs == nil {
				rs = []interface{}{}
			}
			adv.set(p.Name, rs)
			na++
		}
	}
	o := obj("Version", "c12")
	if nb > 0 {
		o.set("BasicRule", basic)
	}
	if na > 0 || nb == 0 {
		o.set("ProductRule", adv)
	}
	return render(o)
}

var c12Methods = []string{"GET", "POST", "PUT"}

func c12GenCond(g *vkit.Rand) c12Cond {
	switch g.Intn(8) {
	case 0, 1:
		return c12Cond{Op: "hdr", A: g.Intn(c12NBits)}
	case 2:
		return c12Cond{Op: "nothdr", A: g.Intn(c12NBits)}
	case 3:
		return c12Cond{Op: "and", A: g.Intn(c12NBits), B: g.Intn(c12NBits)}
	case 4:
		return c12Cond{Op: "or", A: g.Intn(c12NBits), B: g.Intn(c12NBits)}
	case 5, 6:
		ms := []string{g.PickS(c12Methods)}
		if g.Bool() {
			ms = uniq(append(ms, g.PickS(c12Methods)))
		}
		return c12Cond{Op: "method", Methods: ms}
	default:
		return c12Cond{Op: "default"}
	}
}

func c12GenConf(g *vkit.Rand) *c12Conf {
	c := &c12Conf{}
	np := g.Range(1, 3)
	for i := 0; i < np; i++ {
		p := c12Product{Name: fmt.Sprintf("prod%d", i)}
		shape := g.Intn(10)
		p.HasBasic = shape != 0 // 1/10 advanced only
		p.HasAdv = shape != 1   // 1/10 basic only
		if p.HasBasic {
			s := c11GenSet(g, false)
			for k := range s.Rules {
				switch g.Intn(4) {
				case 0:
					s.Rules[k].Cluster = route.AdvancedMode
				case 1:
					s.Rules[k].Cluster = fmt.Sprintf("b%d", g.Intn(3))
				default:
					s.Rules[k].Cluster = fmt.Sprintf("b%d", k)
				}
			}
			p.Basic = s.Rules
		}
		if p.HasAdv {
			for n := g.Range(0, 5); n > 0; n-- {
				p.Adv = append(p.Adv, c12Adv{Cond: c12GenCond(g), Cluster: fmt.Sprintf("a%d", g.Intn(4))})
			}
			if g.Chance(1, 3) { // the documented habit: a final default rule
				p.Adv = append(p.Adv, c12Adv{Cond: c12Cond{Op: "default"}, Cluster: "adefault"})
			}
		}
		c.Products = append(c.Products, p)
	}
	return c
}

func c12Eval(r *vkit.Run, c *c12Conf, ht *bfe_route.HostTable, p c12Probe) {
	var prod *c12Product
	for i := range c.Products {
		if c.Products[i].Name == p.Product {
			prod = &c.Products[i]
		}
	}
	basic := route.BasicResult{HostClass: route.HostMiss, PathClass: route.PathMiss}
	state := "no-basic-table"
	var advClusters []string
	var truth []bool
	if prod != nil {
		if prod.HasBasic {
			basic = route.BasicLookup(prod.Basic, p.Host, p.Path)
			switch {
			case !basic.Found:
				state = "basic-miss"
			case basic.Cluster == route.AdvancedMode:
				state = "basic-advanced-mode"
			default:
				state = "basic-hit"
			}
		}
		for _, a := range prod.Adv {
			advClusters = append(advClusters, a.Cluster)
			truth = append(truth, a.Cond.truth(p.Bits, p.Method))
		}
	} else {
		state = "unknown-product"
	}
	want, ok, via := route.Combine(basic, advClusters, truth)

	pr := probeReq{Host: p.Host, Path: p.Path, Method: p.Method}
	for k, b := range p.Bits {
		if b {
			pr.Headers = append(pr.Headers, c12Hdr(k))
		}
	}
	req := pr.build()
	req.Route.Product = p.Product
	var err error
	if r.Try(func() interface{} { return map[string]interface{}{"conf": c, "probe": p} },
		func() { err = ht.LookupCluster(req) }) {
		return
	}
	got := req.Route.ClusterName
	bad := ""
	switch {
	case ok && err != nil:
		bad = fmt.Sprintf("reference: cluster %q via %s table; bfe: error %v", want, via, err)
	case ok && got != want:
		bad = fmt.Sprintf("reference: cluster %q via %s table; bfe: cluster %q", want, via, got)
	case !ok && err == nil:
		bad = fmt.Sprintf("reference: nothing matches (error, not forwarded); bfe: cluster %q", got)
	case !ok && got != "":
		bad = fmt.Sprintf("error %v returned but ClusterName is %q", err, got)
	case !ok && req.Route.Error == nil:
		bad = fmt.Sprintf("error %v returned but req.Route.Error is nil", err)
	}
	if bad != "" {
		r.Violation(fmt.Sprintf("combine:%s:want-%s", state, via),
			fmt.Sprintf("product %q host %q path %q bits %v method %s: %s", p.Product, p.Host, p.Path, p.Bits, p.Method, bad),
			map[string]interface{}{"conf": c, "probe": p, "want_cluster": want, "want_via": via, "basic": basic, "truth": truth,
				"got_cluster": got, "got_err": errStr(err)})
	}
	r.Count("state_"+state+"_via_"+via, 1)
	// ordering observable: the first true rule is not the only true rule and a later true rule names another cluster
	if via == "advanced" {
		first := -1
		for i, t := range truth {
			if !t {
				continue
			}
			if first < 0 {
				first = i
			} else if advClusters[i] != advClusters[first] {
				r.Count("order_matters", 1)
				break
			}
		}
		if first > 0 {
			r.Count("first_true_not_first_rule", 1)
		}
	}
}

func c12RunConf(r *vkit.Run, c *c12Conf, probes []c12Probe, fs *fileSet) {
	var ht *bfe_route.HostTable
	var err error
	path := fs.write(fRoute, c.routeJSON())
	if r.Try(func() interface{} { return c }, func() { ht, err = loadRouteOnly(path) }) {
		return
	}
	if err != nil {
		r.Violation("load-rejected-valid", "generated route file (basic rules incl. ADVANCED_MODE + advanced rules) was rejected by RouteConfLoad: "+err.Error(), c)
		return
	}
	for _, p := range probes {
		c12Eval(r, c, ht, p)
	}
	r.Evals(int64(len(probes)) - 1)
	nb, na := 0, 0
	for _, p := range c.Products {
		nb += len(p.Basic)
		na += len(p.Adv)
	}
	r.CaseS(c.routeJSON(), nb > 0 && na >= 2)
}

func c12GenProbes(g *vkit.Rand, c *c12Conf, n int) []c12Probe {
	var out []c12Probe
	for _, p := range c.Products {
		hp := c11GenProbes(g, &c11RuleSet{Rules: p.Basic}, n)
		for _, x := range hp {
			pb := c12Probe{Product: p.Name, Host: x.Host, Path: x.Path, Method: g.PickS(c12Methods)}
			for k := 0; k < c12NBits; k++ {
				pb.Bits = append(pb.Bits, g.Chance(2, 5))
			}
			out = append(out, pb)
		}
	}
	// a product that has no table at all
	out = append(out, c12Probe{Product: "ghost", Host: "a.x.com", Path: "/", Method: "GET", Bits: make([]bool, c12NBits)})
	return out
}

func c12(r *vkit.Run) {
	r.SetRule("route files with 1-3 products; each has a basic table (C11 generator, 1/4 of the rules target ADVANCED_MODE; 1/10 products have none) and an ordered advanced table of 0-6 rules (1/10 none) whose conditions are req_header_key_in(X-Ck), its negation, a single &&/|| of two of them, req_method_in(...), default_t(); 40 requests per product derived from the basic rules by mutation, each with a random 4-bit header vector and method, so the truth of every advanced condition is known to the harness; plus a request for a product without tables. Loaded by RouteConfLoad + HostTable.Update, queried by HostTable.LookupCluster. Any non-nil error with empty ClusterName counts as the no-matching-rule error. Non-trivial = >=1 basic rule and >=2 advanced rules; distinct = route file")
	r.Assume("truth of req_header_key_in / req_method_in / default_t / single-operator combinations is taken from the request the harness built (condition semantics are C16-C18's subject)")
	if r.Replay != "" {
		var w struct {
			Conf  c12Conf  `json:"conf"`
			Probe c12Probe `json:"probe"`
		}
		if err := loadReplayCase(r, &w); err != nil {
			r.Inconclusive(err.Error())
			return
		}
		fs := newFileSet("c12", "replay")
		defer fs.remove()
		c12RunConf(r, &w.Conf, []c12Probe{w.Probe}, fs)
		r.SetMinDistinct(0)
		return
	}
	n := r.N(1000, 20000)
	vkit.Parallel(n, 0, func(i int) {
		g := r.Rng("conf", i)
		c := c12GenConf(g)
		probes := c12GenProbes(g, c, 40)
		fs := newFileSet("c12", i)
		defer fs.remove()
		c12RunConf(r, c, probes, fs)
		if r.WantSample() && len(c.Products) >= 2 {
			r.Sample(map[string]interface{}{"route_file": c.routeJSON(), "probe": probes[0]})
		}
	})
	for _, k := range []string{
		"state_basic-hit_via_basic", "state_basic-miss_via_advanced", "state_basic-miss_via_none",
		"state_basic-advanced-mode_via_advanced", "state_basic-advanced-mode_via_none",
		"state_no-basic-table_via_advanced", "state_unknown-product_via_none", "order_matters", "first_true_not_first_rule",
	} {
		if r.Counter(k) == 0 {
			r.Inconclusive("outcome never reached: " + k)
		}
	}
}
