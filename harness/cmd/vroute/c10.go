package main

import (
	"fmt"
	"net"
	"strings"

	"github.com/bfenetworks/bfe/bfe_route"

	"verifharness/ref/route"
	"verifharness/vkit"
)

// C10: host -> product resolution follows the host table.
// Oracle: ref/route.HostTable.Resolve (written from the statement).
// Tables go through the real loaders (LoadServerDataConf) from generated files.

type c10TagHosts struct {
	Tag   string   `json:"tag"`
	Hosts []string `json:"hosts"`
}

type c10ProdList struct {
	Product string   `json:"product"`
	Items   []string `json:"items"`
}

type c10Table struct {
	Hosts       []c10TagHosts `json:"hosts"`   // host-tag -> host names
	Tags        []c10ProdList `json:"tags"`    // product -> host-tags
	Vips        []c10ProdList `json:"vips"`    // product -> vips
	Default     string        `json:"default"` // "" = no default
	DefaultNull bool          `json:"default_null"`
}

type c10Probe struct {
	Host string `json:"host"`
	Vip  string `json:"vip"`
	Kind string `json:"kind"` // how the host was derived
}

func (t *c10Table) hostJSON() string {
	o := obj("Version", "c10")
	if t.Default != "" {
		o.set("DefaultProduct", t.Default)
	} else if t.DefaultNull {
		o.set("DefaultProduct", nil)
	}
	hs := obj()
	for _, th := range t.Hosts {
		hs.set(th.Tag, strs(th.Hosts))
	}
	o.set("Hosts", hs)
	ts := obj()
	for _, pt := range t.Tags {
		ts.set(pt.Product, strs(pt.Items))
	}
	o.set("HostTags", ts)
	return render(o)
}

func (t *c10Table) vipJSON() string {
	vs := obj()
	for _, pv := range t.Vips {
		vs.set(pv.Product, strs(pv.Items))
	}
	return render(obj("Version", "c10", "Vips", vs))
}

func (t *c10Table) ref() *route.HostTable {
	rt := &route.HostTable{TagProduct: map[string]string{}, Vips: map[string]string{}, Default: t.Default}
	for _, th := range t.Hosts {
		for _, h := range th.Hosts {
			rt.Entries = append(rt.Entries, route.HostEntry{Host: h, Tag: th.Tag})
		}
	}
	for _, pt := range t.Tags {
		for _, tag := range pt.Items {
			rt.TagProduct[tag] = pt.Product
		}
	}
	for _, pv := range t.Vips {
		for _, v := range pv.Items {
			rt.Vips[v] = pv.Product
		}
	}
	return rt
}

const (
	emptyRoute   = `{"Version":"c10","ProductRule":{}}`
	emptyCluster = `{"Version":"c10","Config":{}}`
)

func (t *c10Table) load(fs *fileSet) (*bfe_route.ServerDataConf, error) {
	return bfe_route.LoadServerDataConf(
		fs.write(fHost, t.hostJSON()), fs.write(fVip, t.vipJSON()),
		fs.write(fRoute, emptyRoute), fs.write(fCluster, emptyCluster))
}

var c10Labels = []string{"a", "b", "c", "www", "x", "y", "m-1", "n2"}
var c10Tlds = []string{"com", "org", "co.uk", "cn"}
var c10VipPool = []string{"10.0.0.1", "10.0.0.2", "192.168.1.254", "2001:db8::1", "2001:DB8:0:0:0:0:0:2", "::ffff:10.9.9.9", "fe80::1", "0.0.0.0"}
var c10Ipv6Hosts = []string{"[::1]", "[2001:db8::1]"}

func c10GenTable(g *vkit.Rand) *c10Table {
	t := &c10Table{}
	np := g.Range(1, 4)
	var tags []string
	for p := 0; p < np; p++ {
		pl := c10ProdList{Product: fmt.Sprintf("prod%d", p)}
		for k := g.Range(1, 2); k > 0; k-- {
			tag := fmt.Sprintf("tag%d", len(tags))
			tags = append(tags, tag)
			pl.Items = append(pl.Items, tag)
		}
		t.Tags = append(t.Tags, pl)
	}
	// host families with overlapping suffixes
	seen := map[string]bool{}
	byTag := map[string][]string{}
	add := func(h string) {
		k := strings.ToLower(h)
		if seen[k] {
			return
		}
		seen[k] = true
		if g.Chance(1, 4) {
			h = flipCase(g, h)
		}
		tag := tags[g.Intn(len(tags))]
		byTag[tag] = append(byTag[tag], h)
	}
	nf := g.Range(1, 3)
	for f := 0; f < nf; f++ {
		base := g.PickS(c10Labels) + "." + g.PickS(c10Tlds)
		tld := base[strings.IndexByte(base, '.')+1:]
		l1, l2 := g.PickS(c10Labels), g.PickS(c10Labels)
		cands := []string{
			base, "*." + base, l1 + "." + base, "*." + l1 + "." + base, l2 + "." + l1 + "." + base,
			"*." + tld, g.PickS(c10Labels) + "." + base, "*." + l2 + "." + l1 + "." + base,
		}
		for _, c := range cands {
			if g.Chance(1, 2) {
				add(c)
			}
		}
	}
	if g.Chance(1, 10) {
		add(g.PickS(c10Ipv6Hosts))
	}
	if g.Chance(1, 8) {
		add("localhost")
	}
	for _, tag := range tags {
		if hs, ok := byTag[tag]; ok {
			t.Hosts = append(t.Hosts, c10TagHosts{Tag: tag, Hosts: hs})
		} else if g.Chance(1, 3) {
			t.Hosts = append(t.Hosts, c10TagHosts{Tag: tag, Hosts: []string{}})
		}
	}
	// vips: unique after normalisation
	if g.Chance(2, 3) {
		used := map[string]bool{}
		for p := 0; p < np; p++ {
			if g.Chance(1, 3) {
				continue
			}
			pl := c10ProdList{Product: fmt.Sprintf("prod%d", p)}
			for k := g.Range(1, 2); k > 0; k-- {
				v := g.PickS(c10VipPool)
				n := net.ParseIP(v).String()
				if used[n] {
					continue
				}
				used[n] = true
				pl.Items = append(pl.Items, v)
			}
			t.Vips = append(t.Vips, pl)
		}
	}
	if g.Chance(1, 2) {
		t.Default = fmt.Sprintf("prod%d", g.Intn(np))
	} else {
		t.DefaultNull = g.Bool()
	}
	return t
}

func c10DeriveHosts(g *vkit.Rand, t *c10Table) []c10Probe {
	var ps []c10Probe
	add := func(kind, h string) { ps = append(ps, c10Probe{Host: h, Kind: kind}) }
	for _, th := range t.Hosts {
		for _, e := range th.Hosts {
			if strings.HasPrefix(e, "[") {
				add("ipv6-literal", e)
				add("ipv6-literal", e+":80")
				add("ipv6-literal", strings.ToUpper(e)+":8080")
				continue
			}
			if strings.HasPrefix(e, "*.") {
				s := e[2:]
				l := g.PickS(c10Labels)
				add("wild-one-label", l+"."+s)
				add("wild-two-labels", g.PickS(c10Labels)+"."+l+"."+s)
				add("wild-bare-suffix", s)
				add("wild-no-dot-boundary", l+s)
				add("wild-case", flipCase(g, "Foo."+s))
				add("wild-port", l+"."+s+":443")
				add("wild-trailing-dot", l+"."+s+".")
				add("wild-trailing-dot-port", "q."+s+".:8443")
				continue
			}
			add("exact", e)
			add("case", flipCase(g, e))
			add("case-upper", upper(e))
			add("port", e+":80")
			add("trailing-dot", e+".")
			add("trailing-dot-port", e+".:8080")
			add("case-port", flipCase(g, e)+":65535")
			add("extra-label", "zz."+e)
			add("extra-two-labels", "y.zz."+e)
			if i := strings.IndexByte(e, '.'); i > 0 {
				add("sibling-label", "q"+e[i:])
				add("parent", e[i+1:])
			}
			add("suffix-garbage", e+"x")
			add("prefix-garbage", "x"+e)
		}
	}
	for _, h := range []string{"", "localhost", "[::1]", "[::1]:80", "1.2.3.4", "1.2.3.4:80", "unrelated.example", "com", "a"} {
		add("generic", h)
	}
	return ps
}

func c10VipChoices(t *c10Table) []string {
	vs := []string{"", "203.0.113.77"}
	for _, pv := range t.Vips {
		for _, v := range pv.Items {
			vs = append(vs, net.ParseIP(v).String())
		}
	}
	return vs
}

// c10Eval evaluates one probe; returns the link that decided (reference).
func c10Eval(r *vkit.Run, t *c10Table, rt *route.HostTable, sdc *bfe_route.ServerDataConf, p c10Probe) string {
	var vip net.IP
	if p.Vip != "" {
		vip = net.ParseIP(p.Vip)
	}
	want := rt.Resolve(p.Host, vip)
	pr := probeReq{Host: p.Host, Path: "/", Vip: p.Vip}
	req := pr.build()
	var err error
	wit := func() interface{} { return map[string]interface{}{"table": t, "probe": p} }
	if r.Try(wit, func() { err = sdc.HostTable.LookupHostTagAndProduct(req) }) {
		return want.Link
	}
	gotProduct, gotTag := req.Route.Product, req.Route.HostTag
	bad := ""
	switch {
	case want.Link == route.LinkNone:
		if err == nil {
			bad = fmt.Sprintf("reference: no product (rejected); bfe: product %q", gotProduct)
		}
	case err != nil:
		bad = fmt.Sprintf("reference: product %q via %s; bfe: error %v", want.Product, want.Link, err)
	case gotProduct != want.Product:
		bad = fmt.Sprintf("reference: product %q via %s; bfe: product %q", want.Product, want.Link, gotProduct)
	case (want.Link == route.LinkExact || want.Link == route.LinkWildcard) && gotTag != want.Tag:
		bad = fmt.Sprintf("product %q agrees but host-tag differs: reference %q (tag of the matched entry), bfe %q", want.Product, want.Tag, gotTag)
	}
	if (err != nil) != (req.Route.Error != nil) {
		bad = fmt.Sprintf("returned error %v but req.Route.Error=%v", err, req.Route.Error)
	}
	if bad != "" {
		kind := p.Kind
		if strings.HasPrefix(p.Host, "[") {
			kind = "ipv6-literal" // shape of the request host, however it was derived
		}
		sig := fmt.Sprintf("host-product:%s:want-%s", kind, want.Link)
		if kind == "ipv6-literal" {
			sig = "host-product:ipv6-literal-host"
		}
		r.Violation(sig, fmt.Sprintf("host %q vip %q: %s", p.Host, p.Vip, bad),
			map[string]interface{}{"table": t, "probe": p, "want": want, "got_product": gotProduct, "got_tag": gotTag, "got_err": errStr(err)})
	}
	return want.Link
}

func c10(r *vkit.Run) {
	r.SetRule("host tables generated as 1-3 families of overlapping names (base, *.base, l.base, *.l.base, l2.l.base, *.tld, ...; mixed case 1/4; IPv6-literal entry 1/10) spread over 1-4 products x 1-2 tags, VIP table (v4/v6, alternative spellings) and default product present/absent; written to files and loaded by LoadServerDataConf. Configured names are unique case-insensitively, have no trailing dot/port (statement is silent there). Request hosts are derived from every entry by mutation (case, :port, trailing dot, both, extra labels, sibling label, parent, garbage affixes; for wildcards one/two labels, bare suffix, no-dot boundary) plus generic hosts, each with no VIP / a listed VIP / an unlisted VIP. Hosts with empty labels, non-ASCII or '*' are excluded. Oracle: ref/route.Resolve. Non-trivial = table has >=1 exact and >=1 wildcard entry and the probe is derived from an entry; distinct = (table files, host, vip)." + c10ReloadRule + c10CaseRule)
	r.Assume("reference chain written from the property statement; host-tag is compared only when a host entry decided")
	r.Assume("reload family: 'the product of the virtual IP the connection arrived on' is read against the tables in force for the request (the snapshot bfe_server hands to findProduct in req.SvrDataConf), not against the tables in force when the connection was accepted")
	if r.Replay != "" {
		var w struct {
			Table c10Table `json:"table"`
			Probe c10Probe `json:"probe"`
			// reload family (c10reload.go)
			Reload *c10ReloadPair `json:"reload"`
		}
		if err := loadReplayCase(r, &w); err != nil {
			r.Inconclusive(err.Error())
			return
		}
		fs := newFileSet("c10", "replay")
		defer fs.remove()
		if w.Reload != nil {
			var rp struct {
				Probe *c10ReloadProbe `json:"probe"`
			}
			loadReplayCase(r, &rp)
			c10ReloadRun(r, r.Rng("replay"), w.Reload, fs, rp.Probe)
			r.SetMinDistinct(0)
			return
		}
		sdc, err := w.Table.load(fs)
		if err != nil {
			r.Violation("load-rejected-valid", err.Error(), w)
			return
		}
		c10Eval(r, &w.Table, w.Table.ref(), sdc, w.Probe)
		r.Evals(1)
		r.SetMinDistinct(0)
		return
	}
	nt := r.N(200, 4000)
	perTable := r.N(200, 500)
	vkit.Parallel(nt, 0, func(i int) {
		g := r.Rng("table", i)
		t := c10GenTable(g)
		fs := newFileSet("c10", i)
		defer fs.remove()
		var sdc *bfe_route.ServerDataConf
		var err error
		if r.Try(func() interface{} { return t }, func() { sdc, err = t.load(fs) }) {
			return
		}
		if err != nil {
			r.Violation("load-rejected-valid", "generated host/vip tables follow the documented format but were rejected: "+err.Error(), t)
			return
		}
		rt := t.ref()
		nExact, nWild := 0, 0
		for _, e := range rt.Entries {
			if strings.HasPrefix(e.Host, "*.") {
				nWild++
			} else {
				nExact++
			}
		}
		hosts := c10DeriveHosts(g, t)
		vips := c10VipChoices(t)
		tkey := t.hostJSON() + t.vipJSON()
		links := map[string]int64{}
		n := perTable
		all := len(hosts) * len(vips)
		if all < n {
			n = all
		}
		// walk the (host x vip) grid from a random offset with a stride co-prime to its size
		off := g.Intn(all)
		for k := 0; k < n; k++ {
			idx := (off + k) % all
			if all > n {
				idx = (off + k*7919) % all
			}
			p := hosts[idx%len(hosts)]
			p.Vip = vips[idx/len(hosts)]
			link := c10Eval(r, t, rt, sdc, p)
			links[link]++
			r.CaseS(tkey+"|"+p.Host+"|"+p.Vip, nExact > 0 && nWild > 0 && p.Kind != "generic")
			if r.WantSample() && link == route.LinkWildcard {
				r.Sample(map[string]interface{}{"host_file": t.hostJSON(), "vip_file": t.vipJSON(), "probe": p, "decided_by": link})
			}
		}
		for l, c := range links {
			r.Count("link_"+l, c)
		}
		r.Count("tables", 1)
	})
	for _, l := range []string{route.LinkExact, route.LinkWildcard, route.LinkVip, route.LinkDefault, route.LinkNone} {
		if r.Counter("link_"+l) == 0 {
			r.Inconclusive("chain link never decided a probe: " + l)
		}
	}
	c10Reload(r) // tables at accept time != tables at request time (c10reload.go)
	c10Case(r)   // every letter at every position, request side and table side (c10case.go)
}
