package main

import (
	"fmt"
	"strings"

	"github.com/bfenetworks/bfe/bfe_config/bfe_route_conf/host_rule_conf"
	"github.com/bfenetworks/bfe/bfe_config/bfe_route_conf/route_rule_conf"
	"github.com/bfenetworks/bfe/bfe_config/bfe_route_conf/vip_rule_conf"
	"github.com/bfenetworks/bfe/bfe_route"

	"verifharness/ref/route"
	"verifharness/vkit"
)

// C11: the basic route table follows the documented precedence.
// Oracle: ref/route.BasicLookup (written from docs/zh_cn/introduction/route.md).
// Rule sets go through the real loader (RouteConfLoad) from generated files and
// are queried through HostTable.LookupCluster (which strips the port).

const c11Product = "prod"

type c11RuleSet struct {
	Rules []route.BasicRule `json:"rules"`
}

type c11Probe struct {
	Host string `json:"host"`
	Path string `json:"path"`
}

// basicRulesJSON renders rules as the BasicRule list of one product.
// omitAny: an "any" host/path is written by omitting the field instead of "*".
func basicRulesJSON(rules []route.BasicRule) []interface{} {
	var out []interface{}
	for _, ru := range rules {
		o := obj()
		if len(ru.Hosts) > 0 {
			o.set("Hostname", strs(ru.Hosts))
		}
		if len(ru.Paths) > 0 {
			o.set("Path", strs(ru.Paths))
		}
		o.set("ClusterName", ru.Cluster)
		out = append(out, o)
	}
	return out
}

func (s *c11RuleSet) routeJSON() string {
	return render(obj("Version", "c11", "BasicRule", obj(c11Product, basicRulesJSON(s.Rules))))
}

// loadRouteOnly loads a route file through the real loader and installs it in
// a HostTable (exported type; zero value is what newHostTable returns).
func loadRouteOnly(path string) (*bfe_route.HostTable, error) {
	conf, err := route_rule_conf.RouteConfLoad(path)
	if err != nil {
		return nil, err
	}
	ht := new(bfe_route.HostTable)
	ht.Update(host_rule_conf.HostConf{}, vip_rule_conf.VipConf{}, conf)
	return ht, nil
}

// canonical (host,path) keys of a rule set, to avoid generating duplicates
// (two rules for the same host+path have no documented meaning).
func c11Keys(ru route.BasicRule) []string {
	hs, ps := ru.Hosts, ru.Paths
	if len(hs) == 0 {
		hs = []string{"*"}
	}
	if len(ps) == 0 {
		ps = []string{"*"}
	}
	var ks []string
	for _, h := range hs {
		for _, p := range ps {
			ks = append(ks, strings.ToLower(h)+" "+p)
		}
	}
	return ks
}

func c11HostShape(h string) string {
	switch {
	case strings.HasPrefix(h, "["):
		return "ipv6-literal"
	case c11bNonASCII(h):
		return "non-ascii" // host-byte-space family (c11bytes.go)
	case strings.Contains(h, ":"):
		return "port"
	case h != strings.ToLower(h):
		return "case"
	default:
		return "plain"
	}
}

// c11Eval runs one lookup and compares with the reference.
func c11Eval(r *vkit.Run, s *c11RuleSet, ht *bfe_route.HostTable, p c11Probe) route.BasicResult {
	want := route.BasicLookup(s.Rules, p.Host, p.Path)
	pr := probeReq{Host: p.Host, Path: p.Path}
	req := pr.build()
	req.Route.Product = c11Product
	var err error
	if r.Try(func() interface{} { return map[string]interface{}{"rules": s, "probe": p} },
		func() { err = ht.LookupCluster(req) }) {
		return want
	}
	got := req.Route.ClusterName
	bad := ""
	switch {
	case want.Found && err != nil:
		bad = fmt.Sprintf("reference: cluster %q (%s, %s); bfe: error %v", want.Cluster, want.HostClass, want.PathClass, err)
	case want.Found && got != want.Cluster:
		bad = fmt.Sprintf("reference: cluster %q (%s, %s); bfe: cluster %q", want.Cluster, want.HostClass, want.PathClass, got)
	case !want.Found && err == nil:
		bad = fmt.Sprintf("reference: no basic rule matches (%s, %s); bfe: cluster %q", want.HostClass, want.PathClass, got)
	}
	if bad != "" {
		sig := fmt.Sprintf("basic-precedence:%s:want-%s+%s", c11HostShape(p.Host), want.HostClass, want.PathClass)
		if c11HostShape(p.Host) == "ipv6-literal" {
			sig = "basic-precedence:ipv6-literal-host" // one defect shape whatever the path class
		}
		r.Violation(sig, fmt.Sprintf("host %q path %q: %s", p.Host, p.Path, bad),
			map[string]interface{}{"rules": s, "probe": p, "want": want, "got_cluster": got, "got_err": errStr(err)})
	}
	return want
}

func c11RunSet(r *vkit.Run, s *c11RuleSet, probes []c11Probe, fs *fileSet, counts map[string]int64) {
	var ht *bfe_route.HostTable
	var err error
	path := fs.write(fRoute, s.routeJSON())
	if r.Try(func() interface{} { return s }, func() { ht, err = loadRouteOnly(path) }) {
		return
	}
	if err != nil {
		r.Violation("load-rejected-valid", "generated rule set follows the documented syntax (no duplicate host+path) but was rejected: "+err.Error(), s)
		return
	}
	key := s.routeJSON()
	classes := map[string]bool{}
	for _, p := range probes {
		w := c11Eval(r, s, ht, p)
		counts[w.HostClass+"+"+w.PathClass]++
		classes[w.HostClass+"+"+w.PathClass] = true
	}
	r.Evals(int64(len(probes)) - 1)
	// one case = one rule set with its probe list; non-trivial when the probes reached >= 3 different (host class, path class) outcomes
	r.CaseS(key, len(classes) >= 3)
}

// ---- exhaustive part: every rule set of <= 3 rules over a 3-host x 4-path alphabet

type c11Alphabet struct {
	name   string
	hosts  []string
	paths  []string
	probes []c11Probe
}

func c11Alphabets() []c11Alphabet {
	cross := func(hs, ps []string) []c11Probe {
		var out []c11Probe
		for _, h := range hs {
			for _, p := range ps {
				out = append(out, c11Probe{h, p})
			}
		}
		return out
	}
	return []c11Alphabet{
		{
			name:  "A",
			hosts: []string{"a.x.com", "*.x.com", "*"},
			paths: []string{"/a", "/a/*", "/*", "*"},
			probes: cross(
				[]string{"a.x.com", "A.X.Com", "a.x.com:8080", "b.x.com", "c.b.x.com", "x.com", "y.com", "ax.com", "a.x.com.cn", "xa.x.com", ""},
				[]string{"", "/", "/a", "/a/", "/a/b", "/ab", "/b", "/A", "/a/b/", "/a//b"}),
		},
		{
			name:  "B",
			hosts: []string{"b.a.x.com", "*.a.x.com", "*.x.com"},
			paths: []string{"/a/b", "/a/b/*", "/a/*", "/a/"},
			probes: cross(
				[]string{"b.a.x.com", "B.a.X.com:80", "c.a.x.com", "a.x.com", "d.c.a.x.com", "x.com", "q.x.com", "b.a.x.com.", "other.org"},
				[]string{"", "/", "/a", "/a/", "/a/b", "/a/b/", "/a/b/c", "/a/bc", "/a/c", "/a/b/c/d", "/b/a"}),
		},
	}
}

func c11Exhaustive(r *vkit.Run) {
	for _, al := range c11Alphabets() {
		// trailing-dot hosts are outside the statement of C11: drop them from the probe list
		var probes []c11Probe
		for _, p := range al.probes {
			if strings.HasSuffix(route.StripPort(p.Host), ".") {
				continue
			}
			probes = append(probes, p)
		}
		type cond struct{ h, p string }
		var conds []cond
		for _, h := range al.hosts {
			for _, p := range al.paths {
				conds = append(conds, cond{h, p})
			}
		}
		n := len(conds) // 12
		var sets []c11RuleSet
		mk := func(idx ...int) c11RuleSet {
			s := c11RuleSet{}
			for k, i := range idx {
				s.Rules = append(s.Rules, route.BasicRule{Hosts: []string{conds[i].h}, Paths: []string{conds[i].p}, Cluster: fmt.Sprintf("c%d", k+1)})
			}
			return s
		}
		for a := 0; a < n; a++ {
			sets = append(sets, mk(a))
			for b := a + 1; b < n; b++ {
				sets = append(sets, mk(a, b), mk(b, a))
				for c := b + 1; c < n; c++ {
					sets = append(sets, mk(a, b, c), mk(c, b, a), mk(b, c, a))
				}
			}
		}
		r.Count("exhaustive_rule_sets", int64(len(sets)))
		al := al
		vkit.Parallel(len(sets), 0, func(i int) {
			fs := newFileSet("c11", "ex", al.name, i)
			defer fs.remove()
			counts := map[string]int64{}
			c11RunSet(r, &sets[i], probes, fs, counts)
			for k, v := range counts {
				r.Count("want_"+k, v)
			}
		})
	}
}

// ---- random part

var c11Labels = []string{"a", "b", "c", "x"}
var c11Tlds = []string{"com", "org"}
var c11Elems = []string{"a", "b", "ab", "c", "A"}

func c11GenHost(g *vkit.Rand) string {
	n := g.Range(0, 2)
	var ls []string
	for i := 0; i < n; i++ {
		ls = append(ls, g.PickS(c11Labels))
	}
	ls = append(ls, "x", g.PickS(c11Tlds))
	if g.Chance(1, 6) {
		ls = ls[1:]
	}
	return strings.Join(ls, ".")
}

func c11GenPathElems(g *vkit.Rand) string {
	n := g.Range(0, 3)
	p := ""
	for i := 0; i < n; i++ {
		p += "/" + g.PickS(c11Elems)
	}
	return p
}

func c11GenSet(g *vkit.Rand, allowV6 bool) *c11RuleSet {
	s := &c11RuleSet{}
	seen := map[string]bool{}
	nr := g.Range(1, 8)
	for k := 0; k < nr; k++ {
		ru := route.BasicRule{Cluster: fmt.Sprintf("c%d", k+1)}
		for n := g.Range(0, 3); n > 0; n-- {
			h := c11GenHost(g)
			switch g.Intn(6) {
			case 0, 1:
				h = "*." + h
			case 2:
				h = flipCase(g, h)
			case 3:
				if g.Chance(1, 4) {
					h = "*"
				}
			}
			if g.Chance(1, 40) && allowV6 {
				h = "[::1]"
			}
			ru.Hosts = append(ru.Hosts, h)
		}
		for n := g.Range(0, 3); n > 0; n-- {
			p := c11GenPathElems(g)
			switch g.Intn(6) {
			case 0, 1:
				p += "/*"
			case 2:
				p += "/"
			case 3:
				if g.Chance(1, 3) {
					p = "*"
				}
			}
			if p == "" {
				p = "/"
			}
			ru.Paths = append(ru.Paths, p)
		}
		ru.Hosts, ru.Paths = uniq(ru.Hosts), uniq(ru.Paths)
		if len(ru.Hosts) == 0 && len(ru.Paths) == 0 {
			// a rule needs a host or a path condition; write the any-host explicitly
			ru.Hosts = []string{"*"}
		}
		dup := false
		ks := c11Keys(ru)
		for _, key := range ks {
			if seen[key] {
				dup = true
			}
		}
		// "*" and an omitted list are the same condition inside one rule too
		kk := map[string]bool{}
		for _, key := range ks {
			if kk[key] {
				dup = true
			}
			kk[key] = true
		}
		if dup {
			continue
		}
		for _, key := range ks {
			seen[key] = true
		}
		s.Rules = append(s.Rules, ru)
	}
	if len(s.Rules) == 0 {
		s.Rules = []route.BasicRule{{Hosts: []string{"*"}, Cluster: "c1"}}
	}
	return s
}

func c11GenProbes(g *vkit.Rand, s *c11RuleSet, n int) []c11Probe {
	var hosts, paths []string
	for _, ru := range s.Rules {
		for _, h := range ru.Hosts {
			switch {
			case h == "*":
			case strings.HasPrefix(h, "["):
				hosts = append(hosts, h, h+":8080")
			case strings.HasPrefix(h, "*."):
				suf := h[2:]
				l := g.PickS(c11Labels)
				hosts = append(hosts, l+"."+suf, "q."+l+"."+suf, suf, l+suf, flipCase(g, l+"."+suf)+":81")
			default:
				hosts = append(hosts, h, flipCase(g, h), h+":8080", "q."+h, h+"x")
				if i := strings.IndexByte(h, '.'); i > 0 {
					hosts = append(hosts, h[i+1:], "zz"+h[i:])
				}
			}
		}
		for _, p := range ru.Paths {
			switch {
			case p == "*":
			case strings.HasSuffix(p, "/*"):
				b := p[:len(p)-2]
				paths = append(paths, b, b+"/", b+"/"+g.PickS(c11Elems), b+"/a/b", b+"/a/")
				if b != "" {
					paths = append(paths, b+"x")
				}
				if i := strings.LastIndexByte(b, '/'); i >= 0 {
					paths = append(paths, b[:i], b[:i]+"/")
				}
			default:
				paths = append(paths, p, p+"/", p+"/a", p+"x", strings.TrimSuffix(p, "/"))
			}
		}
	}
	hosts = append(hosts, c11GenHost(g), c11GenHost(g), "other.net", "")
	paths = append(paths, "", "/", c11GenPathElems(g), c11GenPathElems(g)+"/", "/zz")
	hosts, paths = uniq(hosts), uniq(paths)
	var out []c11Probe
	for i := 0; i < n; i++ {
		out = append(out, c11Probe{g.PickS(hosts), g.PickS(paths)})
	}
	return out
}

func c11(r *vkit.Run) {
	r.SetRule("(1) exhaustive: every ordered selection of <=3 distinct (host,path) conditions from two 3-host x 4-path alphabets (A: a.x.com,*.x.com,* x /a,/a/*,/*,* ; B: b.a.x.com,*.a.x.com,*.x.com x /a/b,/a/b/*,/a/*,/a/), each looked up with ~100 host x path probes (case, :port, wildcard depth 1/2, bare suffix, /a vs /a/ vs /ab vs /a/b, empty path); (2) random: 1-8 rules with 0-3 hosts x 0-3 paths (exact, *.wildcard, *, omitted; exact, /p/*, trailing slash, *, omitted; IPv6-literal host 1/40), 60 probes derived from the rules by mutation. Rule sets with two rules for the same host+path, non-documented patterns (/fo*, *x.com), hosts with trailing dot or empty labels, and request paths not starting with '/' (other than empty) are excluded: the document is silent there. Loaded by RouteConfLoad, queried by HostTable.LookupCluster. Non-trivial = the probes of a rule set reached >=3 different (host class, path class) outcomes; distinct = route file." + c11BytesRule)
	r.Assume("reference written from docs/zh_cn/introduction/route.md and the statement (host compare case-insensitive, port ignored)")
	if r.Replay != "" {
		var w struct {
			Rules c11RuleSet `json:"rules"`
			Probe c11Probe   `json:"probe"`
		}
		if err := loadReplayCase(r, &w); err != nil {
			r.Inconclusive(err.Error())
			return
		}
		fs := newFileSet("c11", "replay")
		defer fs.remove()
		c11RunSet(r, &w.Rules, []c11Probe{w.Probe}, fs, map[string]int64{})
		r.SetMinDistinct(0)
		return
	}
	c11Exhaustive(r)
	c11Bytes(r) // host-byte-space family: non-ASCII names, one-character neighbours (c11bytes.go)
	n := r.N(2000, 50000)
	vkit.Parallel(n, 0, func(i int) {
		g := r.Rng("ruleset", i)
		s := c11GenSet(g, true)
		probes := c11GenProbes(g, s, 60)
		fs := newFileSet("c11", "rnd", i)
		defer fs.remove()
		counts := map[string]int64{}
		c11RunSet(r, s, probes, fs, counts)
		for k, v := range counts {
			r.Count("want_"+k, v)
		}
		if r.WantSample() && len(s.Rules) >= 4 {
			r.Sample(map[string]interface{}{"route_file": s.routeJSON(), "probes": probes[:4]})
		}
	})
	for _, hc := range []string{route.HostExact, route.HostWildcard, route.HostAny} {
		for _, pc := range []string{route.PathExact, route.PathPrefix, route.PathAny, route.PathMiss} {
			if r.Counter("want_"+hc+"+"+pc) == 0 {
				r.Inconclusive("outcome never reached: " + hc + "+" + pc)
			}
		}
	}
	if r.Counter("want_"+route.HostMiss+"+"+route.PathMiss) == 0 {
		r.Inconclusive("outcome never reached: host-miss")
	}
}
