// vroute decides the routing/configuration properties C10 (host -> product),
// C11 (basic route precedence), C12 (basic + advanced combination),
// C13 (loaders: documented accepted, accepted closed, never panic),
// C14 (deterministic interpretation).
package main

import (
	"fmt"
	"os"

	"verifharness/vkit"
)

func main() {
	r := vkit.Start("exploration")
	switch r.Prop {
	case "C10":
		c10(r)
	case "C11":
		c11(r)
	case "C12":
		c12(r)
	case "C13":
		c13(r)
	case "C14":
		c14(r)
	default:
		fmt.Fprintln(os.Stderr, "vroute: unknown property", r.Prop)
		os.Exit(vkit.ExitInconclusive)
	}
	scratchCleanup()
	r.Finish()
}
