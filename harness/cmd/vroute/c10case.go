package main

import (
	"fmt"
	"strings"

	"github.com/bfenetworks/bfe/bfe_route"

	"verifharness/ref/route"
	"verifharness/vkit"
)

// C10, letter-case family: "host name compared case-insensitively" holds for every
// letter, at every position, on both sides of the comparison (configured name and
// request host), for exact entries and for the suffix of wildcard entries.
//
// A table is built from the 26 letters a..z in a seeded order cut into 7 labels (some
// with a digit, '-' or '_' inside), so every letter of the alphabet occurs in the names
// of every table. The case variants of a name are enumerated, not drawn:
//   single-upper(i)  only the letter at position i is upper case     (every position)
//   upper-from(i)    the letter at i and everything after it         (every position)
//   upper-upto(i)    everything up to and including the letter at i  (every position)
//   all-upper, alt-even, alt-odd
// REQUEST SIDE: the all-lower table is probed with every variant of every matching host.
// TABLE SIDE: each entry in turn is written in each of its variants (the other entries
// lower case), the table is loaded again and probed with the lower / all-upper /
// single-upper(every position) spellings of the hosts that entry decides.
// Bytes next to the letter ranges in ASCII ('@' '[' '`' '{') are no letters: a name
// that differs from a configured one only by '@'<->'`' or '['<->'{' is a different name.

const c10CaseRule = " LETTER-CASE FAMILY: tables whose names are built from all 26 letters in a seeded order (7 labels; 4 exact entries, 4 wildcard entries nested *.L0 > *.L1.L0 > *.L3.L1.L0 and *.L5.L6, every entry under its own host-tag, VIP product and (odd tables) default product without host names) plus one exact and one wildcard entry with a label containing one of the bytes @ [ ` { (the bytes next to A-Z / a-z). Case variants are enumerated per letter position: single-upper(i), upper-from(i), upper-upto(i) for every i, all-upper, alt-even, alt-odd. Request side: every variant of every host an entry decides (the name itself; for *.s the hosts v.s and w.v.s), bare and - single-upper variants - with :port / trailing dot / both, each without VIP and with a listed VIP, against the all-lower-case table. Table side: each entry in turn written in each of its variants (others lower case) and all entries all-upper / alternating, each table loaded by LoadServerDataConf and probed with the lower, all-upper and every single-upper spelling of the hosts of that entry. Non-letter bytes: the configured name with @<->` / [<->{ swapped is requested and must NOT be decided by that entry. Oracle: ref/route.Resolve (ASCII A-Z folded, nothing else). The run is inconclusive unless each of the 26 letters was the ONLY capital of a request host and of a configured name, decided by an exact and by a wildcard entry (capital inside the wildcard's suffix)."

type c10CaseVariant struct {
	Kind string
	Text string
	Pos  int // position of the (first) capital; -1 for the global variants
}

func isLower(c byte) bool { return c >= 'a' && c <= 'z' }

// c10CaseVariants enumerates the case variants of the lower-case name s.
func c10CaseVariants(s string) []c10CaseVariant {
	var out []c10CaseVariant
	seen := map[string]bool{s: true}
	add := func(kind, t string, pos int) {
		if !seen[t] {
			seen[t] = true
			out = append(out, c10CaseVariant{kind, t, pos})
		}
	}
	up := func(b []byte, i int) {
		if isLower(b[i]) {
			b[i] -= 32
		}
	}
	for i := 0; i < len(s); i++ {
		if !isLower(s[i]) {
			continue
		}
		b := []byte(s)
		up(b, i)
		add("single-upper", string(b), i)
	}
	for i := 0; i < len(s); i++ {
		if !isLower(s[i]) {
			continue
		}
		b := []byte(s)
		for k := i; k < len(b); k++ {
			up(b, k)
		}
		add("upper-from", string(b), i)
		b = []byte(s)
		for k := 0; k <= i; k++ {
			up(b, k)
		}
		add("upper-upto", string(b), i)
	}
	add("all-upper", strings.ToUpper(s), -1)
	for par := 0; par < 2; par++ {
		b := []byte(s)
		n := 0
		for i := range b {
			if isLower(b[i]) {
				if n%2 == par {
					up(b, i)
				}
				n++
			}
		}
		add([]string{"alt-even", "alt-odd"}[par], string(b), -1)
	}
	return out
}

type c10CaseEntry struct {
	Name string // lower case, "*.suffix" for wildcards
	Tag  string
	// hosts this entry decides (lower case), with the index where the wildcard's suffix starts
	Hosts    []string
	SufStart []int
}

type c10CaseTable struct {
	Entries []c10CaseEntry
	Prods   []c10ProdList
	Vips    []c10ProdList
	Default string
	Odd     byte // the non-letter byte used
	Swapped []c10Probe
}

var c10CaseOddBytes = []byte{'@', '[', '`', '{'}

func c10CaseGen(g *vkit.Rand, idx int) *c10CaseTable {
	perm := g.Perm(26)
	var letters []byte
	for _, p := range perm {
		letters = append(letters, byte('a'+p))
	}
	sizes := []int{4, 4, 4, 4, 4, 3, 3}
	var L []string
	pos := 0
	for k, n := range sizes {
		l := string(letters[pos : pos+n])
		pos += n
		// a non-letter inside some labels (never first: a leading '[' is an IPv6 literal, a leading '-' is odd)
		if (idx+k)%3 == 0 {
			cut := g.Range(1, len(l)-1)
			l = l[:cut] + g.PickS([]string{"0", "9", "-", "_", "5"}) + l[cut:]
		}
		L = append(L, l)
	}
	odd := c10CaseOddBytes[idx%len(c10CaseOddBytes)]
	oddLabel := "p" + string(odd) + "q"
	swap := func(s string) string { return strings.ReplaceAll(s, string(odd), string(odd^0x20)) }

	base := L[1] + "." + L[0]
	names := []string{
		L[2] + "." + base,              // exact below *.L1.L0
		"*." + base,                    // wildcard
		"*." + L[3] + "." + base,       // longer wildcard
		L[4] + "." + L[3] + "." + base, // exact below the longer wildcard
		"*." + L[0],                    // shortest wildcard
		L[5] + "." + L[6],              // exact, second family (bare suffix of the next)
		"*." + L[5] + "." + L[6],       // wildcard, second family
		L[2] + "." + L[4] + "." + L[6], // exact without any wildcard above it
		oddLabel + "." + L[6],          // exact with a byte next to the letter ranges
		"*." + oddLabel + "." + L[0],   // wildcard with such a byte in its suffix
	}
	v1, v2 := L[4][:2]+L[2][:1], L[5][:1]+L[3][:2] // variable labels of wildcard probes
	t := &c10CaseTable{Odd: odd}
	nprod := 4
	t.Prods = make([]c10ProdList, nprod)
	for p := range t.Prods {
		t.Prods[p].Product = fmt.Sprintf("prod%d", p)
	}
	for k, n := range names {
		e := c10CaseEntry{Name: n, Tag: fmt.Sprintf("tag%d", k)}
		if strings.HasPrefix(n, "*.") {
			s := n[2:]
			e.Hosts = []string{v1 + "." + s, v2 + "." + v1 + "." + s}
			e.SufStart = []int{len(v1) + 1, len(v2) + len(v1) + 2}
		} else {
			e.Hosts = []string{n}
			e.SufStart = []int{0}
		}
		t.Entries = append(t.Entries, e)
		p := k % nprod
		t.Prods[p].Items = append(t.Prods[p].Items, e.Tag)
	}
	// products that own no host name: reached only through the VIP / default links
	t.Prods = append(t.Prods, c10ProdList{Product: "prodvip", Items: []string{"tagvip"}})
	t.Vips = []c10ProdList{{Product: "prodvip", Items: []string{"10.0.0.1"}}}
	if idx%2 == 1 {
		t.Prods = append(t.Prods, c10ProdList{Product: "proddef", Items: []string{"tagdef"}})
		t.Default = "proddef"
	}
	// the odd byte swapped for its partner 0x20 away: a different name
	t.Swapped = []c10Probe{
		{Host: swap(names[8]), Kind: "case:non-letter-swapped-exact"},
		{Host: strings.ToUpper(swap(names[8])), Kind: "case:non-letter-swapped-exact"},
		{Host: v1 + "." + swap(names[9][2:]), Kind: "case:non-letter-swapped-wildcard"},
		{Host: strings.ToUpper(v1 + "." + swap(names[9][2:])), Kind: "case:non-letter-swapped-wildcard"},
	}
	return t
}

// table renders the c10Table with entry focus written as spelled (focus < 0: all as
// given by spell, which maps a lower-case name to its spelling).
func (ct *c10CaseTable) table(spell func(k int, name string) string) *c10Table {
	t := &c10Table{Tags: ct.Prods, Vips: ct.Vips, Default: ct.Default}
	for k, e := range ct.Entries {
		t.Hosts = append(t.Hosts, c10TagHosts{Tag: e.Tag, Hosts: []string{spell(k, e.Name)}})
	}
	return t
}

// c10CaseCover records which letters were the only capital, per side x link.
type c10CaseCover struct {
	seen map[string]*[26]int64
}

func (c *c10CaseCover) hit(side, link string, letter byte) {
	k := side + "_" + link
	if c.seen[k] == nil {
		c.seen[k] = &[26]int64{}
	}
	c.seen[k][letter-'a']++
}

func c10CaseRun(r *vkit.Run, idx int, cov *c10CaseCover) {
	g := r.Rng("case-table", idx)
	ct := c10CaseGen(g, idx)
	fs := newFileSet("c10case", idx)
	defer fs.remove()
	load := func(t *c10Table) *bfe_route.ServerDataConf {
		var sdc *bfe_route.ServerDataConf
		var err error
		if r.Try(func() interface{} { return map[string]interface{}{"table": t} }, func() { sdc, err = t.loadHostVip(fs) }) {
			return nil
		}
		if err != nil {
			r.Violation("load-rejected-valid", "letter-case family: host/vip tables follow the documented format but were rejected: "+err.Error(), map[string]interface{}{"table": t})
			return nil
		}
		r.Count("case_table_loads", 1)
		return sdc
	}
	vips := []string{"", "10.0.0.1"}
	wantLinkOf := func(e c10CaseEntry) string {
		if strings.HasPrefix(e.Name, "*.") {
			return route.LinkWildcard
		}
		return route.LinkExact
	}
	probes := int64(0)
	eval := func(t *c10Table, rt *route.HostTable, sdc *bfe_route.ServerDataConf, tkey string, p c10Probe) string {
		link := c10Eval(r, t, rt, sdc, p)
		r.CaseS("case|"+tkey+"|"+p.Host+"|"+p.Vip, true)
		probes++
		return link
	}
	decor := []string{":8080", ".", ".:443"}

	// ---- request side: all-lower table, every variant of every decided host
	lower := ct.table(func(k int, n string) string { return n })
	sdc := load(lower)
	if sdc == nil {
		return
	}
	rt := lower.ref()
	tkey := lower.hostJSON()
	for _, e := range ct.Entries {
		for hi, h := range e.Hosts {
			for _, v := range vips {
				if link := eval(lower, rt, sdc, tkey, c10Probe{Host: h, Vip: v, Kind: "case:request-lower"}); link != wantLinkOf(e) {
					r.Inconclusive(fmt.Sprintf("letter-case family: generator error, host %q of entry %q is decided by link %s", h, e.Name, link))
				}
			}
			for vi, cv := range c10CaseVariants(h) {
				for _, v := range vips {
					link := eval(lower, rt, sdc, tkey, c10Probe{Host: cv.Text, Vip: v, Kind: "case:request-" + cv.Kind})
					if cv.Kind == "single-upper" && v == "" && (link == route.LinkExact || cv.Pos >= e.SufStart[hi]) {
						cov.hit("request", link, h[cv.Pos])
					}
				}
				r.Count("case_request_"+cv.Kind, 1)
				if cv.Kind == "single-upper" {
					d := decor[vi%len(decor)]
					eval(lower, rt, sdc, tkey, c10Probe{Host: cv.Text + d, Vip: vips[vi%2], Kind: "case:request-single-upper-decorated"})
				}
			}
		}
	}
	for i, p := range ct.Swapped {
		p.Vip = vips[i%2]
		link := eval(lower, rt, sdc, tkey, p)
		if strings.HasSuffix(p.Kind, "exact") && link == route.LinkExact {
			r.Inconclusive("letter-case family: generator error, swapped non-letter name is configured")
		}
		r.Count("case_non_letter_swapped_"+[]string{"at", "lbracket", "backtick", "lbrace"}[idx%4], 1)
	}
	if r.WantSample() && idx == 0 {
		r.Sample(map[string]interface{}{"family": "letter-case", "host_file": tkey, "vip_file": lower.vipJSON(),
			"request_variants_of": ct.Entries[0].Hosts[0], "first_variants": c10CaseVariants(ct.Entries[0].Hosts[0])[:6]})
	}

	// ---- table side: one entry at a time in each of its variants
	probeEntry := func(t *c10Table, e c10CaseEntry, side string, tv *c10CaseVariant, n int) {
		sdc := load(t)
		if sdc == nil {
			return
		}
		rt := t.ref()
		tkey := t.hostJSON()
		for hi, h := range e.Hosts {
			v := vips[(n+hi)%2]
			link := eval(t, rt, sdc, tkey, c10Probe{Host: h, Vip: v, Kind: "case:table-" + side + ":request-lower"})
			if tv != nil && tv.Kind == "single-upper" {
				// the capital of a wildcard entry "*.s" sits at tv.Pos-2 of s: always inside the suffix
				cov.hit("table", link, e.Name[tv.Pos])
			}
			eval(t, rt, sdc, tkey, c10Probe{Host: strings.ToUpper(h), Vip: v, Kind: "case:table-" + side + ":request-all-upper"})
			for _, cv := range c10CaseVariants(h) {
				if cv.Kind == "single-upper" {
					eval(t, rt, sdc, tkey, c10Probe{Host: cv.Text, Vip: v, Kind: "case:table-" + side + ":request-single-upper"})
				}
			}
		}
		r.Count("case_table_"+side, 1)
	}
	n := 0
	for k, e := range ct.Entries {
		for _, tv := range c10CaseVariants(e.Name) {
			tv := tv
			t := ct.table(func(j int, name string) string {
				if j == k {
					return tv.Text
				}
				return name
			})
			probeEntry(t, e, tv.Kind, &tv, n)
			n++
		}
	}
	for _, kind := range []string{"all-upper", "alt-even", "alt-odd"} {
		t := ct.table(func(j int, name string) string {
			for _, cv := range c10CaseVariants(name) {
				if cv.Kind == kind {
					return cv.Text
				}
			}
			return name
		})
		for _, e := range ct.Entries {
			probeEntry(t, e, "every-entry-"+kind, nil, n)
			n++
		}
	}
	r.Count("case_tables", 1)
	r.Count("case_probes", probes)
}

// c10Case is the letter-case family of C10.
func c10Case(r *vkit.Run) {
	nt := r.N(24, 240)
	covs := make([]*c10CaseCover, nt)
	vkit.Parallel(nt, 0, func(i int) {
		covs[i] = &c10CaseCover{seen: map[string]*[26]int64{}}
		c10CaseRun(r, i, covs[i])
	})
	for _, side := range []string{"request", "table"} {
		for _, link := range []string{route.LinkExact, route.LinkWildcard} {
			k := side + "_" + link
			var tot [26]int64
			for _, c := range covs {
				if c != nil && c.seen[k] != nil {
					for l := range tot {
						tot[l] += c.seen[k][l]
					}
				}
			}
			covered, min := int64(0), int64(-1)
			var missing []string
			for l, n := range tot {
				if n > 0 {
					covered++
				} else {
					missing = append(missing, string(rune('a'+l)))
				}
				if min < 0 || n < min {
					min = n
				}
			}
			r.Count("case_letters_only_capital_"+k, covered)
			r.Count("case_letters_only_capital_"+k+"_min_per_letter", min)
			if covered < 26 {
				r.Inconclusive(fmt.Sprintf("letter-case family: letters never the only capital of a %s name decided by an %s entry: %s", side, link, strings.Join(missing, "")))
			}
		}
	}
	for _, n := range []string{"at", "lbracket", "backtick", "lbrace"} {
		if r.Counter("case_non_letter_swapped_"+n) == 0 {
			r.Inconclusive("letter-case family: non-letter byte never probed: " + n)
		}
	}
}
