package main

import (
	"encoding/json"
	"fmt"
	"net/url"
	"os"
	"path/filepath"
	"regexp"
	"runtime/debug"
	"sort"
	"strings"
	"sync"
	"time"

	"github.com/baidu/go-lib/web-monitor/web_monitor"

	"github.com/bfenetworks/bfe/bfe_module"
	"github.com/bfenetworks/bfe/bfe_modules/mod_auth_basic"
	"github.com/bfenetworks/bfe/bfe_modules/mod_auth_jwt"
	"github.com/bfenetworks/bfe/bfe_modules/mod_auth_request"
	"github.com/bfenetworks/bfe/bfe_modules/mod_block"
	"github.com/bfenetworks/bfe/bfe_modules/mod_compress"
	"github.com/bfenetworks/bfe/bfe_modules/mod_cors"
	"github.com/bfenetworks/bfe/bfe_modules/mod_errors"
	"github.com/bfenetworks/bfe/bfe_modules/mod_header"
	"github.com/bfenetworks/bfe/bfe_modules/mod_key_log"
	"github.com/bfenetworks/bfe/bfe_modules/mod_markdown"
	"github.com/bfenetworks/bfe/bfe_modules/mod_prison"
	"github.com/bfenetworks/bfe/bfe_modules/mod_redirect"
	"github.com/bfenetworks/bfe/bfe_modules/mod_rewrite"
	"github.com/bfenetworks/bfe/bfe_modules/mod_secure_link"
	"github.com/bfenetworks/bfe/bfe_modules/mod_static"
	"github.com/bfenetworks/bfe/bfe_modules/mod_tag"
	"github.com/bfenetworks/bfe/bfe_modules/mod_trace"
	"github.com/bfenetworks/bfe/bfe_modules/mod_trust_clientip"
	"github.com/bfenetworks/bfe/bfe_modules/mod_userid"
	"github.com/bfenetworks/bfe/bfe_modules/mod_waf"

	"verifharness/vkit"
)

// C13, module rule files: (a) totality - no module rule loader panics on a
// mutated rule file, (b) acceptance - the shipped sample rule file and every
// rule example of the module's English doc page load without error.
//
// mod_redirect, mod_prison and mod_key_log keep their rule loaders unexported;
// they are reached through the exported module API: Module.Init on a private
// conf root, then the reload handler the module registered with web_monitor
// (the same function the production reload endpoint calls) with ?path=<file>.

// c13AuxTok stands for the scratch directory with the auxiliary files (copy of
// <repo>/conf/mod_*) inside seeds, mutated files, witnesses and case hashes, so
// that none of them depends on the scratch path of one run.
const c13AuxTok = "@@C13AUX@@"

type c13ModLoader struct {
	Name   string // counter / signature name (mod_<module>[_<file kind>])
	Mod    string // module directory under conf/ and docs/en_us/modules/
	Sample string // shipped sample under conf/<Mod>/ ("" = none shipped)
	Text   bool   // line oriented text file (ip list) instead of JSON
	// Doc tells which fenced block of the doc page is an example of this file.
	Doc func(lang, text string) bool
	// Subst are environment substitutions (auxiliary file locations) applied to
	// the sample and the doc examples: {old, new} on the quoted JSON string.
	Subst [][2]string
	// Rich are further well-formed seeds for the mutator (documented and
	// implemented commands); used by (a) only, never acceptance-checked.
	Rich []string
	Load func(x *c13ModCtx, path string) error
}

type c13ModSeed struct {
	Which      string
	Text       string      // with c13AuxTok
	Tree       interface{} // parsed (JSON loaders)
	Documented bool
}

type c13ModCtx struct {
	Repo string
	Aux  string

	mu       sync.Mutex
	redirect func(url.Values) (string, error)
	keyLog   func(url.Values) (string, error)
	initData string // minimal rule file used for Module.Init
	initErr  map[string]error
}

type c13ModWitness struct {
	Mode    string   `json:"mode"` // "module"
	Loader  string   `json:"loader"`
	Which   string   `json:"seed"`
	Accept  bool     `json:"acceptance"` // unmodified documented file: must load
	Ops     []string `json:"ops,omitempty"`
	Absent  bool     `json:"absent,omitempty"`
	Content string   `json:"content"` // c13AuxTok = directory with a copy of <repo>/conf/mod_*
}

func c13RuleDoc(lang, text string) bool {
	return lang == "json" && strings.Contains(text, `"Config"`)
}

var c13IPLine = regexp.MustCompile(`^[0-9a-fA-F:. \t]+$`)

func c13IPListDoc(lang, text string) bool {
	if lang != "" {
		return false
	}
	n := 0
	for _, l := range strings.Split(text, "\n") {
		l = strings.TrimSpace(l)
		if l == "" {
			continue
		}
		if !c13IPLine.MatchString(l) || !strings.ContainsAny(l, ".:") {
			return false
		}
		n++
	}
	return n > 0
}

// reload through the module's registered reload handler
func c13Reload(h func(url.Values) (string, error), path string) error {
	_, err := h(url.Values{"path": []string{path}})
	return err
}

func c13ReloadHandler(whs *web_monitor.WebHandlers, name string) (func(url.Values) (string, error), error) {
	h, err := whs.GetHandler(web_monitor.WebHandleReload, name)
	if err != nil {
		return nil, err
	}
	f, ok := h.(func(url.Values) (string, error))
	if !ok {
		return nil, fmt.Errorf("reload handler of %s has type %T", name, h)
	}
	return f, nil
}

var c13AuxConf = [][2]string{{`"../conf/`, `"` + c13AuxTok + `/`}}

var c13ModLoaders = []*c13ModLoader{
	{Name: "mod_auth_basic", Mod: "mod_auth_basic", Sample: "auth_basic_rule.data", Doc: c13RuleDoc, Subst: c13AuxConf,
		Load: func(x *c13ModCtx, p string) error { _, err := mod_auth_basic.AuthBasicConfLoad(p); return err }},
	{Name: "mod_auth_jwt", Mod: "mod_auth_jwt", Sample: "auth_jwt_rule.data", Doc: c13RuleDoc,
		Subst: [][2]string{c13AuxConf[0], {`"mod_auth_jwt/key_file"`, `"` + c13AuxTok + `/mod_auth_jwt/doc_key_file"`}},
		Load:  func(x *c13ModCtx, p string) error { _, err := mod_auth_jwt.AuthJWTConfLoad(p); return err }},
	{Name: "mod_auth_request", Mod: "mod_auth_request", Sample: "auth_request_rule.data", Doc: c13RuleDoc,
		Load: func(x *c13ModCtx, p string) error { _, err := mod_auth_request.AuthRequestRuleFileLoad(p); return err }},
	{Name: "mod_block", Mod: "mod_block", Sample: "block_rules.data", Doc: c13RuleDoc,
		Rich: []string{`{"Version":"v1","Config":{"global":[{"action":{"cmd":"ALLOW","params":[]},"cond":"req_host_in(\"n.example.org\") && req_query_key_in(\"space\")","name":"allow rule"}],"p1":[{"action":{"cmd":"CLOSE","params":[]},"name":"r1","cond":"req_path_in(\"/limit\", false)"},{"action":{"cmd":"CLOSE","params":[]},"name":"r2","cond":"req_method_in(\"POST\")"}]}}`},
		Load: func(x *c13ModCtx, p string) error { _, err := mod_block.ProductRuleConfLoad(p); return err }},
	{Name: "mod_block_ip", Mod: "mod_block", Sample: "ip_blocklist.data", Text: true, Doc: c13IPListDoc,
		Rich: []string{"#{\"version\":\"v1\",\"singleIPNum\":3,\"pairIPNum\":3}\n10.0.0.1\n10.0.1.0 10.0.1.255\n2001:db8::1\n2001:db8::100\t2001:db8::1ff\n# comment\n\n192.168.1.250\n"},
		Load: func(x *c13ModCtx, p string) error { _, err := mod_block.GlobalIPTableLoad(p); return err }},
	{Name: "mod_compress", Mod: "mod_compress", Sample: "compress_rule.data", Doc: c13RuleDoc,
		Rich: []string{`{"Version":"v1","Config":{"p1":[{"Cond":"req_host_in(\"a.example.org\")","Action":{"Cmd":"BROTLI","Quality":6,"FlushSize":4096}},{"Cond":"default_t()","Action":{"Cmd":"GZIP","Quality":1,"FlushSize":64}}]}}`},
		Load: func(x *c13ModCtx, p string) error { _, err := mod_compress.ProductRuleConfLoad(p); return err }},
	{Name: "mod_cors", Mod: "mod_cors", Sample: "cors_rule.data", Doc: c13RuleDoc,
		Rich: []string{`{"Version":"v1","Config":{"p1":[{"Cond":"default_t()","AccessControlAllowOrigins":["*"],"AccessControlAllowCredentials":false,"AccessControlExposeHeaders":["X-A","X-B"],"AccessControlAllowMethods":["GET"],"AccessControlAllowHeaders":["X-A"],"AccessControlMaxAge":600},{"Cond":"req_host_in(\"b.example.org\")","AccessControlAllowOrigins":["http://a.example.org","https://b.example.org"]}]}}`},
		Load: func(x *c13ModCtx, p string) error { _, err := mod_cors.CorsRuleFileLoad(p); return err }},
	{Name: "mod_errors", Mod: "mod_errors", Sample: "errors_rule.data", Doc: c13RuleDoc, Subst: c13AuxConf,
		Load: func(x *c13ModCtx, p string) error { _, err := mod_errors.ErrorsConfLoad(p); return err }},
	{Name: "mod_header", Mod: "mod_header", Sample: "header_rule.data", Doc: c13RuleDoc,
		Rich: []string{`{"Version":"v1","Config":{"p1":[{"cond":"req_path_prefix_in(\"/header\", false)","actions":[{"cmd":"REQ_HEADER_SET","params":["X-Bfe-Log-Id","%bfe_log_id"]},{"cmd":"REQ_HEADER_ADD","params":["X-Bfe-Vip","%bfe_vip"]},{"cmd":"REQ_HEADER_DEL","params":["X-Remove"]},{"cmd":"RSP_HEADER_SET","params":["X-Proxied-By","bfe"]},{"cmd":"RSP_HEADER_ADD","params":["X-A","%bfe_cluster"]},{"cmd":"RSP_HEADER_DEL","params":["Server"]}],"last":false},{"cond":"default_t()","actions":[{"cmd":"REQ_HEADER_MOD","params":["scheme_set","referer","http"]},{"cmd":"REQ_HEADER_RENAME","params":["X-Old","X-New"]},{"cmd":"REQ_COOKIE_SET","params":["k","v"]},{"cmd":"REQ_COOKIE_DEL","params":["k"]},{"cmd":"RSP_COOKIE_DEL","params":["k","example.org","/"]},{"cmd":"RSP_COOKIE_SET","params":["k","v","example.org","/","Mon, 02 Jan 2006 15:04:05 MST","3600","true","false"]}],"last":true}]}}`},
		Load: func(x *c13ModCtx, p string) error { _, err := mod_header.HeaderConfLoad(p); return err }},
	{Name: "mod_key_log", Mod: "mod_key_log", Sample: "key_log.data", Doc: c13RuleDoc,
		Load: func(x *c13ModCtx, p string) error {
			if x.keyLog == nil {
				return x.initErr["mod_key_log"]
			}
			x.mu.Lock()
			defer x.mu.Unlock()
			return c13Reload(x.keyLog, p)
		}},
	{Name: "mod_markdown", Mod: "mod_markdown", Sample: "mod_markdown.data", Doc: c13RuleDoc,
		Load: func(x *c13ModCtx, p string) error { _, err := mod_markdown.ProductRuleConfLoad(p); return err }},
	{Name: "mod_prison", Mod: "mod_prison", Sample: "prison.data", Doc: c13RuleDoc,
		Rich: []string{`{"Version":"v1","Config":{"p1":[{"Name":"r1","Cond":"req_path_prefix_in(\"/prison\", false)","accessSignConf":{"UseSocketIP":true,"UseClientIP":true,"UseConnectID":false,"UseUrl":false,"UseHost":true,"UsePath":true,"UseHeaders":false,"UrlRegexp":"/(a+)/(b+)","Query":["q"],"Header":["User-Agent"],"Cookie":["UID"]},"action":{"cmd":"FINISH","params":[]},"checkPeriod":10,"stayPeriod":0,"threshold":0,"accessDictSize":10,"prisonDictSize":10},{"Name":"r2","Cond":"default_t()","accessSignConf":{"UseClientIP":true},"action":{"cmd":"REQ_HEADER_SET","params":["X-Bfe-Prison","1"]},"checkPeriod":1,"stayPeriod":1,"threshold":1,"accessDictSize":1,"prisonDictSize":1},{"Name":"example_prison","Cond":"default_t()","accessSignConf":{"UseClientIP":true},"action":{"cmd":"PASS","params":[]},"checkPeriod":60,"stayPeriod":60,"threshold":100,"accessDictSize":2000,"prisonDictSize":2000}]}}`},
		Load: c13PrisonLoad},
	{Name: "mod_redirect", Mod: "mod_redirect", Sample: "redirect.data", Doc: c13RuleDoc,
		Rich: []string{`{"Version":"v1","Config":{"p1":[{"Cond":"req_path_prefix_in(\"/a\", false)","Actions":[{"Cmd":"URL_FROM_QUERY","Params":["url"]}],"Status":302},{"Cond":"req_path_prefix_in(\"/b\", false)","Actions":[{"Cmd":"URL_PREFIX_ADD","Params":["https://b.example.org"]}],"Status":307},{"Cond":"req_path_prefix_in(\"/c\", false)","Actions":[{"Cmd":"SCHEME_SET","Params":["https"]}],"Status":308},{"Cond":"default_t()","Actions":[{"Cmd":"URL_SET","Params":["https://example.org"]}],"Status":301}]}}`},
		Load: func(x *c13ModCtx, p string) error {
			if x.redirect == nil {
				return x.initErr["mod_redirect"]
			}
			x.mu.Lock()
			defer x.mu.Unlock()
			return c13Reload(x.redirect, p)
		}},
	{Name: "mod_rewrite", Mod: "mod_rewrite", Sample: "rewrite.data", Doc: c13RuleDoc,
		Rich: []string{`{"Version":"v1","Config":{"p1":[{"Cond":"req_path_prefix_in(\"/rewrite\", false)","Actions":[{"Cmd":"HOST_SET","Params":["a.example.org"]},{"Cmd":"HOST_SET_FROM_PATH_PREFIX","Params":[]},{"Cmd":"HOST_SUFFIX_REPLACE","Params":["example.org","example.com"]},{"Cmd":"PATH_SET","Params":["/x"]},{"Cmd":"PATH_PREFIX_ADD","Params":["/bfe/"]},{"Cmd":"PATH_PREFIX_TRIM","Params":["/bfe/"]},{"Cmd":"QUERY_ADD","Params":["k","v"]},{"Cmd":"QUERY_DEL","Params":["k"]},{"Cmd":"QUERY_DEL_ALL_EXCEPT","Params":["k","j"]},{"Cmd":"QUERY_RENAME","Params":["k","j"]}],"Last":false},{"Cond":"default_t()","Actions":[{"Cmd":"PATH_SET","Params":["/"]}],"Last":true}]}}`},
		Load: func(x *c13ModCtx, p string) error { _, err := mod_rewrite.ReWriteConfLoad(p); return err }},
	{Name: "mod_secure_link", Mod: "mod_secure_link", Sample: "", Doc: c13RuleDoc,
		Rich: []string{`{"Version":"v1","Config":{"p1":[{"Cond":"req_path_prefix_in(\"/s\", false)","ChecksumKey":"md5","ExpiresKey":"expires","ExpressionNodes":[{"Type":"label","Param":"secret"},{"Type":"query","Param":"expires"},{"Type":"header","Param":"X-Key"},{"Type":"host"},{"Type":"uri"},{"Type":"remote_addr"}]},{"Cond":"default_t()","ExpressionNodes":[{"Type":"uri"}]}]}}`},
		Load: func(x *c13ModCtx, p string) error { _, err := mod_secure_link.DataLoad(p); return err }},
	{Name: "mod_static", Mod: "mod_static", Sample: "static_rule.data", Doc: func(l, t string) bool { return c13RuleDoc(l, t) && strings.Contains(t, `"Action"`) },
		Subst: [][2]string{c13AuxConf[0], {`"./"`, `"` + c13AuxTok + `/mod_static"`}},
		Load:  func(x *c13ModCtx, p string) error { _, err := mod_static.StaticConfLoad(p); return err }},
	{Name: "mod_static_mime", Mod: "mod_static", Sample: "mime_type.data", Doc: func(l, t string) bool { return c13RuleDoc(l, t) && !strings.Contains(t, `"Action"`) },
		Load: func(x *c13ModCtx, p string) error { _, err := mod_static.MimeTypeConfLoad(p); return err }},
	{Name: "mod_tag", Mod: "mod_tag", Sample: "tag_rule.data", Doc: c13RuleDoc,
		Load: func(x *c13ModCtx, p string) error { _, err := mod_tag.TagRuleFileLoad(p); return err }},
	{Name: "mod_trace", Mod: "mod_trace", Sample: "trace_rule.data", Doc: c13RuleDoc,
		Load: func(x *c13ModCtx, p string) error { _, err := mod_trace.TraceRuleFileLoad(p); return err }},
	{Name: "mod_trust_clientip", Mod: "mod_trust_clientip", Sample: "trust_client_ip.data", Doc: c13RuleDoc,
		Rich: []string{`{"Version":"v1","Config":{"inner-idc":[{"Begin":"10.0.0.0","End":"10.255.255.255"},{"Begin":"2001:db8::","End":"2001:db8::ffff"}],"cdn":[{"Begin":"192.168.1.1","End":"192.168.1.1"}]}}`},
		Load: func(x *c13ModCtx, p string) error { _, err := mod_trust_clientip.TrustIPConfLoad(p); return err }},
	{Name: "mod_userid", Mod: "mod_userid", Sample: "userid_rule.data", Doc: c13RuleDoc,
		Load: func(x *c13ModCtx, p string) error { _, err := mod_userid.NewConfigFromFile(p); return err }},
	{Name: "mod_waf", Mod: "mod_waf", Sample: "waf_rule.data", Doc: c13RuleDoc,
		Load: func(x *c13ModCtx, p string) error { _, err := mod_waf.ProductWafRuleConfLoad(p); return err }},
}

// c13PrisonLoad: a fresh module per evaluation (the prison table carries the
// dictionaries of the previous table over to same-named rules, so a shared
// instance would make the outcome depend on the order of the cases). The
// instance first loads the shipped sample (rule "example_prison"), then the
// file under test, so that the carry-over path runs deterministically.
func c13PrisonLoad(x *c13ModCtx, p string) error {
	m := mod_prison.NewModulePrison()
	whs := web_monitor.NewWebHandlers()
	if err := m.Init(bfe_module.NewBfeCallbacks(), whs, filepath.Join(x.Aux, "cr")); err != nil {
		return fmt.Errorf("c13-init: %v", err)
	}
	h, err := c13ReloadHandler(whs, "mod_prison")
	if err != nil {
		return fmt.Errorf("c13-init: %v", err)
	}
	c13Reload(h, filepath.Join(x.Aux, "mod_prison", "prison.data")) // result irrelevant here: judged as the "sample" case
	return c13Reload(h, p)
}

// ------------------------------------------------------------ setup

func c13CopyFiles(src, dst string) error {
	return filepath.Walk(src, func(p string, info os.FileInfo, err error) error {
		if err != nil {
			return err
		}
		rel, _ := filepath.Rel(src, p)
		if info.IsDir() {
			return os.MkdirAll(filepath.Join(dst, rel), 0o755)
		}
		if !info.Mode().IsRegular() || info.Size() > 1<<20 {
			return nil
		}
		b, err := os.ReadFile(p)
		if err != nil {
			return err
		}
		return os.WriteFile(filepath.Join(dst, rel), b, 0o644)
	})
}

type c13MdBlock struct{ Lang, Text string }

func c13MdBlocks(md string) []c13MdBlock {
	var out []c13MdBlock
	var cur []string
	in, lang := false, ""
	for _, l := range strings.Split(md, "\n") {
		t := strings.TrimSpace(l)
		if strings.HasPrefix(t, "```") {
			if in {
				out = append(out, c13MdBlock{lang, strings.Join(cur, "\n") + "\n"})
				in, cur = false, nil
			} else {
				in, lang = true, strings.ToLower(strings.TrimSpace(strings.TrimPrefix(t, "```")))
			}
			continue
		}
		if in {
			cur = append(cur, strings.TrimRight(l, "\r"))
		}
	}
	return out
}

func c13ModSetup(r *vkit.Run) (*c13ModCtx, error) {
	x := &c13ModCtx{Repo: os.Getenv("VERIF_REPO"), initErr: map[string]error{}}
	if x.Repo == "" {
		x.Repo = "/repo"
	}
	x.Aux = filepath.Join(scratchBase(), "c13mod-aux")
	os.RemoveAll(x.Aux)
	if err := os.MkdirAll(x.Aux, 0o755); err != nil {
		return nil, err
	}
	dirs, _ := filepath.Glob(filepath.Join(x.Repo, "conf", "mod_*"))
	for _, d := range dirs {
		if err := c13CopyFiles(d, filepath.Join(x.Aux, filepath.Base(d))); err != nil {
			return nil, err
		}
	}
	// the JSON Web Key example of the mod_auth_jwt page is the key file of its rule example
	key, _ := os.ReadFile(filepath.Join(x.Aux, "mod_auth_jwt", "key_file"))
	for _, b := range c13ModDocBlocks(x, "mod_auth_jwt") {
		if b.Lang == "json" && strings.HasPrefix(strings.TrimSpace(b.Text), "[") && json.Valid([]byte(b.Text)) {
			key = []byte(b.Text)
			break
		}
	}
	os.MkdirAll(filepath.Join(x.Aux, "mod_auth_jwt"), 0o755)
	if err := os.WriteFile(filepath.Join(x.Aux, "mod_auth_jwt", "doc_key_file"), key, 0o644); err != nil {
		return nil, err
	}
	// private conf root for the modules whose rule loader is only reachable through Init + reload
	cr := filepath.Join(x.Aux, "cr")
	x.initData = filepath.Join(cr, "init.data")
	confs := map[string]string{
		"mod_redirect": "[Basic]\nDataPath = " + x.initData + "\n",
		"mod_prison":   "[Basic]\nProductRulePath = " + x.initData + "\n",
		"mod_key_log":  "[Basic]\nDataPath = " + x.initData + "\n[Log]\nLogPrefix = key\nLogDir = " + filepath.Join(cr, "log") + "\nRotateWhen = MIDNIGHT\nBackupCount = 1\n",
	}
	for m, c := range confs {
		os.MkdirAll(filepath.Join(cr, m), 0o755)
		if err := os.WriteFile(filepath.Join(cr, m, m+".conf"), []byte(c), 0o644); err != nil {
			return nil, err
		}
	}
	if err := os.WriteFile(x.initData, []byte(`{"Version":"c13-init","Config":{}}`), 0o644); err != nil {
		return nil, err
	}
	desc := func() interface{} { return "Module.Init with an empty rule table" }
	r.Try(desc, func() {
		whs := web_monitor.NewWebHandlers()
		err := mod_redirect.NewModuleRedirect().Init(bfe_module.NewBfeCallbacks(), whs, cr)
		if err == nil {
			x.redirect, err = c13ReloadHandler(whs, "mod_redirect")
		}
		x.initErr["mod_redirect"] = err
	})
	r.Try(desc, func() {
		whs := web_monitor.NewWebHandlers()
		err := mod_key_log.NewModuleKeyLog().Init(bfe_module.NewBfeCallbacks(), whs, cr)
		if err == nil {
			x.keyLog, err = c13ReloadHandler(whs, "mod_key_log")
		}
		x.initErr["mod_key_log"] = err
	})
	for m, err := range x.initErr {
		if err != nil {
			r.Inconclusive(fmt.Sprintf("%s: Init with an empty rule table failed, its rule loader cannot be reached: %v", m, err))
		}
	}
	return x, nil
}

func c13ModDocBlocks(x *c13ModCtx, mod string) []c13MdBlock {
	var out []c13MdBlock
	pages, _ := filepath.Glob(filepath.Join(x.Repo, "docs", "en_us", "modules", mod, "*.md"))
	sort.Strings(pages)
	for _, p := range pages {
		if b, err := os.ReadFile(p); err == nil {
			out = append(out, c13MdBlocks(string(b))...)
		}
	}
	return out
}

func c13ModParse(text string) (tree interface{}, ok bool) {
	if !json.Valid([]byte(text)) {
		return nil, false
	}
	defer func() {
		if recover() != nil {
			tree, ok = nil, false
		}
	}()
	return mustTree(text), true
}

// c13ModSeeds collects sample, doc examples and rich seeds of one loader.
func c13ModSeeds(r *vkit.Run, x *c13ModCtx, l *c13ModLoader, notes *[]string) []*c13ModSeed {
	var seeds []*c13ModSeed
	add := func(which, text string, documented bool) {
		for _, s := range l.Subst {
			if documented {
				text = strings.ReplaceAll(text, s[0], s[1])
			}
		}
		sd := &c13ModSeed{Which: which, Text: text, Documented: documented}
		if !l.Text {
			t, ok := c13ModParse(text)
			if !ok {
				// an example that is not JSON does not follow the documented format (JSON): not judged
				r.Count("mod_doc_example_not_json_skipped", 1)
				*notes = append(*notes, fmt.Sprintf("%s:%s is not well-formed JSON (typo in the document), skipped", l.Name, which))
				return
			}
			sd.Tree = t
		}
		seeds = append(seeds, sd)
	}
	if l.Sample != "" {
		b, err := os.ReadFile(filepath.Join(x.Repo, "conf", l.Mod, l.Sample))
		if err != nil {
			r.Inconclusive(fmt.Sprintf("%s: sample rule file unreadable: %v", l.Name, err))
		} else {
			add("sample", string(b), true)
		}
	}
	k := 0
	for _, b := range c13ModDocBlocks(x, l.Mod) {
		if l.Doc != nil && l.Doc(b.Lang, b.Text) {
			k++
			add(fmt.Sprintf("doc-%d", k), b.Text, true)
		}
	}
	for i, t := range l.Rich {
		add(fmt.Sprintf("rich-%d", i+1), t, false)
	}
	return seeds
}

// ------------------------------------------------------------ evaluation

func c13ModSig(l *c13ModLoader, st []byte) string {
	sig := vkit.PanicSig(st)
	fr := strings.TrimPrefix(sig, "panic:")
	if !strings.HasPrefix(fr, "bfe_modules/"+l.Mod+".") && !strings.HasPrefix(fr, "bfe_modules/"+l.Mod+"/") {
		// frame in shared code (condition, action, ipdict, json...): say which loader was hit
		return "panic:" + l.Name + ":" + fr
	}
	return sig
}

// c13ModRun writes the file of one witness and calls the loader under recover.
func c13ModRun(r *vkit.Run, x *c13ModCtx, l *c13ModLoader, wit *c13ModWitness, fs *fileSet) (err error, panicked bool) {
	p := fs.path("modrule.data")
	if wit.Absent {
		os.Remove(p)
	} else {
		fs.write("modrule.data", strings.ReplaceAll(wit.Content, c13AuxTok, x.Aux))
	}
	r.WriteAhead(wit)
	defer func() {
		if e := recover(); e != nil {
			panicked = true
			st := debug.Stack()
			r.Violation(c13ModSig(l, st), fmt.Sprintf("%s panicked on a rule file: %v", l.Name, e),
				map[string]interface{}{"case": wit, "panic": fmt.Sprint(e), "stack": truncStr(string(st), 3000)})
		}
	}()
	err = l.Load(x, p)
	return err, false
}

func c13ModAccept(r *vkit.Run, x *c13ModCtx, l *c13ModLoader, sd *c13ModSeed, fs *fileSet) {
	wit := &c13ModWitness{Mode: "module", Loader: l.Name, Which: sd.Which, Accept: sd.Documented, Content: sd.Text}
	err, panicked := c13ModRun(r, x, l, wit, fs)
	r.CaseS("modacc|"+l.Name+"|"+sd.Which+"|"+sd.Text, true)
	switch {
	case panicked:
		r.Count(l.Name+"_panicked", 1)
	case err == nil && sd.Documented:
		r.Count(l.Name+"_documented_accepted", 1)
	case err == nil:
		r.Count("mod_rich_seed_accepted", 1)
	case sd.Documented:
		r.Violation("reject-documented:"+l.Name+":"+sd.Which,
			fmt.Sprintf("%s rejected %s (%s): %v", l.Name, c13ModWhich(l, sd.Which), "only auxiliary file locations substituted", err), wit)
	default:
		r.Count("mod_rich_seed_rejected", 1)
	}
}

func c13ModWhich(l *c13ModLoader, which string) string {
	if which == "sample" {
		return "the shipped conf/" + l.Mod + "/" + l.Sample
	}
	return "rule example " + which + " of docs/en_us/modules/" + l.Mod
}

// ------------------------------------------------------------ mutation

// documented (and implemented) command names of all modules: a command of
// another module is an unknown command here
var c13ModCmds = []string{
	"CLOSE", "ALLOW", "PASS", "FINISH", "GZIP", "BROTLI", "RETURN", "REDIRECT", "BROWSE",
	"REQ_HEADER_SET", "REQ_HEADER_ADD", "REQ_HEADER_DEL", "RSP_HEADER_SET", "RSP_HEADER_ADD", "RSP_HEADER_DEL",
	"REQ_HEADER_MOD", "RSP_HEADER_MOD", "REQ_HEADER_RENAME", "RSP_HEADER_RENAME", "REQ_COOKIE_SET", "REQ_COOKIE_DEL", "RSP_COOKIE_SET", "RSP_COOKIE_DEL",
	"URL_SET", "URL_FROM_QUERY", "URL_PREFIX_ADD", "SCHEME_SET",
	"HOST_SET", "HOST_SET_FROM_PATH_PREFIX", "HOST_SUFFIX_REPLACE", "PATH_SET", "PATH_PREFIX_ADD", "PATH_PREFIX_TRIM",
	"QUERY_ADD", "QUERY_DEL", "QUERY_DEL_ALL_EXCEPT", "QUERY_RENAME",
	"close", "Gzip", "UNKNOWN_CMD", "", "RuleBashCmd", "default",
}

var c13ModParams = []string{
	"", "x", "X-Bfe-A", "X-A", "%bfe_vip", "%bfe_unknown", "%", "http", "https", "ftp", "scheme_set", "query_add", "referer", "location",
	"200", "404", "302", "099", "-1", "abc", "text/html", "https://example.org", "://", "%zz", "/", "/bfe/", "k", "v", "true", "false",
	"Mon, 02 Jan 2006 15:04:05 MST", "yesterday", c13AuxTok + "/mod_errors/404.html", c13AuxTok + "/mod_static", c13AuxTok + "/missing", "index.html",
	"label", "query", "header", "host", "uri", "remote_addr", "10.0.0.1", "10.0.0.0", "9.255.255.255", "2001:db8::1", "::ffff:10.0.0.1", "1.2.3", "GET", "get", "*", "%origin", "null",
}

var c13ModConds = []string{
	`res_code_in("404")`, `res_code_in("500|502")`, `ses_sip_range("10.0.0.1", "10.0.0.10")`, `ses_tls_sni_in("example.com|example.org")`,
	`req_path_in("/x", false)`, `req_path_prefix_in("/x", true)`, `ses_vip_in("10.0.0.1")`, `req_header_value_in("Referer", "a|b", true)`,
	// not conditions
	`req_path_in("/x")`, `res_code_in(404)`, `unknown_fn("a")`, `req_host_in("a"`, ``, ` `, `default_t() &&`, `req_url_regmatch("(")`,
	`req_host_in("a") req_host_in("b")`, `default_t`, `()`, `"a"`, `req_host_in(req_host_in("a"))`, `ses_sip_range("10.0.0.10", "10.0.0.1")`, `ses_sip_range("x", "y")`,
	strings.Repeat("!", 3000) + "default_t()", strings.Repeat("(", 3000) + "default_t()" + strings.Repeat(")", 3000), strings.Repeat("default_t()&&", 2000) + "default_t()",
}

// c13ModSpecific applies one mutation aimed at the shared shape of module rule
// files (Cond / Cmd / Params / products); "" = not applicable.
func c13ModSpecific(g *vkit.Rand, root interface{}) string {
	var slots []c13Slot
	c13Slots(root, &slots)
	var cmd, params, cond, prods []c13Slot
	for _, s := range slots {
		if s.obj == nil {
			continue
		}
		switch strings.ToLower(s.obj.K[s.i]) {
		case "cmd":
			cmd = append(cmd, s)
		case "params":
			params = append(params, s)
		case "cond":
			cond = append(cond, s)
		case "config":
			prods = append(prods, s)
		}
	}
	switch g.Intn(4) {
	case 0:
		if len(cmd) > 0 {
			cmd[g.Intn(len(cmd))].put(g.PickS(c13ModCmds))
			return "cmd-swap"
		}
	case 1:
		if len(params) > 0 {
			s := params[g.Intn(len(params))]
			old, _ := s.get().([]interface{})
			a := []interface{}{}
			for n := g.Intn(6); n > 0; n-- {
				if len(old) > 0 && g.Bool() {
					a = append(a, clone(old[g.Intn(len(old))]))
				} else {
					a = append(a, g.PickS(c13ModParams))
				}
			}
			s.put(a)
			// usually together with another command, so that the parameter checks of every command are reached
			if len(cmd) > 0 && g.Chance(2, 3) {
				for _, c := range cmd {
					if c.obj == s.obj {
						c.put(g.PickS(c13ModCmds))
					}
				}
			}
			return "params-resize"
		}
	case 2:
		if len(cond) > 0 {
			s := cond[g.Intn(len(cond))]
			if g.Bool() {
				s.put(g.PickS(c13ModConds))
			} else {
				s.put(g.PickS(c13Conds))
			}
			return "cond-replace"
		}
	default:
		if len(prods) > 0 {
			if o, ok := prods[0].get().(*jobj); ok {
				var v interface{}
				if len(o.V) > 0 && g.Chance(2, 3) {
					v = clone(o.V[g.Intn(len(o.V))])
				} else {
					v = c13WrongValue(g)
				}
				o.set(g.PickS([]string{"global", "", "p2", "example_product", "p1"}), v)
				return "product-add"
			}
		}
	}
	return ""
}

func c13ModMutateJSON(g *vkit.Rand, sd *c13ModSeed, wit *c13ModWitness) (tree bool) {
	root := clone(sd.Tree)
	var pool []string
	c13Strings(root, &pool)
	pool = append(pool, c13ModCmds...)
	pool = append(pool, c13ModParams...)
	for n := g.Range(1, 3); n > 0; n-- {
		op := ""
		if g.Chance(1, 3) {
			op = c13ModSpecific(g, root)
		}
		if op == "" {
			op = c13MutateTree(g, &root, pool)
		}
		if op != "" {
			wit.Ops = append(wit.Ops, op)
		}
	}
	wit.Content = render(root)
	if g.Chance(1, 5) {
		var op string
		wit.Content, op = c13MutateBytes(g, wit.Content)
		wit.Ops = append(wit.Ops, op)
		return false
	}
	if g.Chance(1, 40) {
		wit.Absent = true
		wit.Ops = append(wit.Ops, "absent-file")
		return false
	}
	return true
}

var c13OddIPs = []string{"", "256.1.1.1", "1.2.3", "1.2.3.4/8", "::", "::1", "2001:db8::1", "::ffff:10.0.0.1", "[::1]", "0.0.0.0", "255.255.255.255", "10.0.0.1", "10.0.0.0", "010.0.0.1", "a", "1.2.3.4.5", "-1.0.0.0", "10.0.0.1:80", "\x00", "1.2.3.4\r"}

// element counts for the meta line of an ip list: small values and values at the
// int boundaries, plus 1e15 and 1e17 (beyond any possible allocation: a loader that
// trusts them panics in makeslice). Counts between 1e6 and 2^48 are left out on
// purpose: a loader that honours them allocates that many entries, which would put
// the machine at risk when the check runs against a tree without the size guard.
var c13MetaNums = []string{"-1", "0", "1", "2", "3", "1000", "100000", "1000000000000000", "100000000000000000", "9223372036854775807", "4611686018427387904", "9223372036854775808", "-9223372036854775808", "1.5", "1e3", "\"3\"", "null"}

func c13ModMutateText(g *vkit.Rand, sd *c13ModSeed, wit *c13ModWitness) {
	lines := strings.Split(strings.TrimRight(sd.Text, "\n"), "\n")
	rndIP := func() string {
		if g.Chance(1, 3) {
			return g.PickS(c13OddIPs)
		}
		if g.Chance(1, 4) {
			return fmt.Sprintf("2001:db8::%x", g.Intn(65536))
		}
		return fmt.Sprintf("10.%d.%d.%d", g.Intn(3), g.Intn(256), g.Intn(256))
	}
	for n := g.Range(1, 3); n > 0; n-- {
		i := g.Intn(len(lines))
		op := ""
		switch g.Intn(14) {
		case 0:
			f := strings.Fields(lines[i])
			if len(f) > 0 {
				f[g.Intn(len(f))] = rndIP()
				lines[i] = strings.Join(f, " ")
			}
			op = "replace-token"
		case 1, 2:
			lines = append(lines, rndIP()+g.PickS([]string{" ", "\t", "  ", " \t ", ","})+rndIP())
			op = "add-pair"
		case 3:
			lines = append(lines, rndIP())
			op = "add-single"
		case 4, 5:
			meta := fmt.Sprintf(`#{"version":%s,"singleIPNum":%s,"pairIPNum":%s}`, g.PickS([]string{`"v1"`, `""`, `1`, `null`}), g.PickS(c13MetaNums), g.PickS(c13MetaNums))
			if g.Chance(1, 4) {
				meta = g.PickS([]string{"#", "#{", "#{}", "# comment", "#null", "#[]", "#{\"version\":\"v\"}", "#{\"version\":\"v\",\"singleIPNum\":0,\"pairIPNum\":0}"})
			}
			lines = append([]string{meta}, lines...)
			op = "meta-line"
		case 6:
			lines[i] = lines[i] + " " + rndIP()
			op = "third-token"
		case 7:
			lines[i] = g.PickS([]string{" ", "\t", "#", "# 1.2.3.4", "", "\r"}) + lines[i]
			op = "prefix"
		case 8:
			lines[i] = strings.Repeat("1", 70000)
			op = "long-line"
		case 9:
			k := g.Range(2, 300)
			var out []string
			for ; k > 0; k-- {
				out = append(out, lines...)
			}
			lines = out
			op = "repeat"
		case 10:
			f := strings.Fields(lines[i])
			if len(f) == 2 {
				lines[i] = f[1] + " " + f[0]
			} else {
				lines[i] = "10.0.0.9 10.0.0.1"
			}
			op = "reverse-pair"
		case 11:
			lines[i] = strings.ReplaceAll(lines[i], " ", g.PickS([]string{"\t", "  ", "\t\t", " - ", "-"}))
			op = "separator"
		case 12:
			lines = append(lines[:i], lines[i+1:]...)
			if len(lines) == 0 {
				lines = []string{""}
			}
			op = "delete-line"
		default:
			lines[i] = string(g.Bytes(g.Range(1, 40)))
			op = "binary-line"
		}
		wit.Ops = append(wit.Ops, op)
	}
	wit.Content = strings.Join(lines, g.PickS([]string{"\n", "\n", "\n", "\r\n"})) + g.PickS([]string{"\n", "", "\n\n"})
	if g.Chance(1, 8) {
		var op string
		wit.Content, op = c13MutateBytes(g, wit.Content)
		wit.Ops = append(wit.Ops, op)
	} else if g.Chance(1, 40) {
		wit.Absent = true
		wit.Ops = append(wit.Ops, "absent-file")
	}
}

func c13ModCase(r *vkit.Run, x *c13ModCtx, l *c13ModLoader, seeds []*c13ModSeed, i int) {
	g := r.Rng("mod-"+l.Name, i)
	sd := seeds[g.Intn(len(seeds))]
	wit := &c13ModWitness{Mode: "module", Loader: l.Name, Which: sd.Which}
	tree := true
	if l.Text {
		c13ModMutateText(g, sd, wit)
	} else {
		tree = c13ModMutateJSON(g, sd, wit)
	}
	fs := newFileSet("c13mod", i)
	defer fs.remove()
	err, panicked := c13ModRun(r, x, l, wit, fs)
	changed := wit.Absent || wit.Content != sd.Text && (l.Text || wit.Content != render(sd.Tree))
	key := l.Name + "|" + wit.Content
	if wit.Absent {
		key = l.Name + "|<absent>"
	}
	r.CaseS(key, tree && changed)
	switch {
	case panicked:
		r.Count(l.Name+"_panicked", 1)
		return
	case err != nil && strings.HasPrefix(err.Error(), "c13-init:"):
		r.Inconclusive(l.Name + ": " + err.Error())
		return
	case err != nil:
		r.Count(l.Name+"_rejected", 1)
	default:
		r.Count(l.Name+"_accepted", 1)
	}
	for _, op := range wit.Ops {
		r.Count("mod_op_"+op, 1)
	}
}

// ------------------------------------------------------------ entry points

const c13ModRule = "MODULE RULE FILES: loaders = mod_auth_basic.AuthBasicConfLoad, mod_auth_jwt.AuthJWTConfLoad, mod_auth_request.AuthRequestRuleFileLoad, mod_block.ProductRuleConfLoad, mod_block.GlobalIPTableLoad (text ip list), mod_compress.ProductRuleConfLoad, mod_cors.CorsRuleFileLoad, mod_errors.ErrorsConfLoad, mod_header.HeaderConfLoad, mod_markdown.ProductRuleConfLoad, mod_rewrite.ReWriteConfLoad, mod_secure_link.DataLoad, mod_static.StaticConfLoad, mod_static.MimeTypeConfLoad, mod_tag.TagRuleFileLoad, mod_trace.TraceRuleFileLoad, mod_trust_clientip.TrustIPConfLoad, mod_userid.NewConfigFromFile, mod_waf.ProductWafRuleConfLoad, and - their loaders being unexported - mod_redirect, mod_key_log, mod_prison through Module.Init on a private conf root followed by the reload handler the module registers (path=<file>; mod_prison: fresh module per case that has loaded the shipped sample first). mod_geo has no rule file (binary MaxMind database). (acceptance) conf/<mod>/<sample> read from the tree under test and every fenced example of docs/en_us/modules/<mod>/*.md that shows this file (json block with a Config member; for the ip list the unlabelled block of addresses) must load without error, verbatim except for the locations of auxiliary files: \"../conf/X\" -> scratch copy of conf/X, mod_auth_jwt doc KeyFile \"mod_auth_jwt/key_file\" -> scratch file holding the JSON Web Key example of the same page, mod_static doc root \"./\" -> scratch copy of conf/mod_static. A doc example that is not well-formed JSON (typo in the page) does not follow the documented format and is skipped and listed in mod_notes. (totality) per loader N mutated files, seed = sample | doc example | a hand-written seed using every documented/implemented command of the module (mod_rich_seed_*; mutation seeds only, never acceptance-judged): 1-3 structure-aware mutations with the mutator of the core files (null, wrong JSON type, boundary numbers, deleted/duplicated/renamed/added keys, retargeted strings from the file + all modules' command names + parameter values, grown/emptied containers, replaced root) or - 1/3 - a rule-shaped one (Cmd swapped for a command of this or another module or an unknown one, Params resized 0-5, Cond replaced by a documented condition or a non-condition, product added); 1/5 byte-level corruption (truncate, delete byte, stray token, empty, 20000-deep nesting, doubled), 1/40 absent file; ip list: token/line level (odd addresses, reversed and mixed-family pairs, third token, separators, meta line with counts in {-1..100000, 1e15, 1e17, int64 boundaries} - counts between 1e6 and 2^48 would be honoured with a real allocation of that size by a tree lacking the file-size guard and are left out, 70000-byte line, binary line, repetition). Refuting event = panic out of the loader (signature panic:<innermost bfe frame>, prefixed with the loader when the frame is in shared code). One evaluation per (loader, file); non-trivial = still well-formed JSON (ip list: any) and different from the seed; distinct = (loader, file content)"

func c13Modules(r *vkit.Run) {
	t0 := time.Now() // reporting only (mod_wall_s); no oracle depends on it
	defer func() { r.Extra("mod_wall_s", time.Since(t0).Seconds()) }()
	r.Extra("rule_module_rule_files", c13ModRule)
	x, err := c13ModSetup(r)
	if err != nil {
		r.Inconclusive("module rule files: scratch setup failed: " + err.Error())
		return
	}
	var notes []string
	all := map[string][]*c13ModSeed{}
	fs := newFileSet("c13mod", "acc")
	for _, l := range c13ModLoaders {
		seeds := c13ModSeeds(r, x, l, &notes)
		nd := 0
		for _, sd := range seeds {
			c13ModAccept(r, x, l, sd, fs)
			if sd.Documented {
				nd++
			}
		}
		if nd == 0 {
			r.Inconclusive(l.Name + ": neither a sample rule file nor a usable doc example found")
		}
		// distinct seed texts only
		seen := map[string]bool{}
		for _, sd := range seeds {
			if !seen[sd.Text] {
				seen[sd.Text] = true
				all[l.Name] = append(all[l.Name], sd)
			}
		}
		r.Count("mod_seeds", int64(len(all[l.Name])))
	}
	fs.remove()
	per := r.N(150, 4000)
	vkit.Parallel(len(c13ModLoaders)*per, 0, func(k int) {
		l := c13ModLoaders[k%len(c13ModLoaders)]
		if len(all[l.Name]) == 0 {
			return
		}
		c13ModCase(r, x, l, all[l.Name], k/len(c13ModLoaders))
	})
	c13NullModules(r, x, all) // enumerated whole-document / member replacements (c13null.go)
	sort.Strings(notes)
	if len(notes) > 0 {
		r.Extra("mod_notes", notes)
	}
	for _, l := range c13ModLoaders {
		a, rej := r.Counter(l.Name+"_accepted"), r.Counter(l.Name+"_rejected")
		if a+rej == 0 {
			r.Inconclusive(l.Name + ": no mutated rule file was evaluated (neither accepted nor rejected)")
		} else if rej == 0 {
			r.Inconclusive(l.Name + ": no mutated rule file was rejected: mutator too weak")
		}
	}
}

// c13ModReplay re-executes a module rule file witness; false = not such a witness.
func c13ModReplay(r *vkit.Run) bool {
	var w c13ModWitness
	if err := loadReplayCase(r, &w); err != nil || w.Mode != "module" {
		return false
	}
	r.SetMinDistinct(0)
	r.Evals(1)
	x, err := c13ModSetup(r)
	if err != nil {
		r.Inconclusive(err.Error())
		return true
	}
	for _, l := range c13ModLoaders {
		if l.Name != w.Loader {
			continue
		}
		fs := newFileSet("c13mod", "replay")
		defer fs.remove()
		lerr, panicked := c13ModRun(r, x, l, &w, fs)
		if !panicked && lerr != nil && w.Accept {
			r.Violation("reject-documented:"+l.Name+":"+w.Which, fmt.Sprintf("%s rejected %s: %v", l.Name, c13ModWhich(l, w.Which), lerr), &w)
		}
		fmt.Printf("replay %s: panicked=%v loader error=%q\n", l.Name, panicked, errStr(lerr))
		return true
	}
	r.Inconclusive("unknown module loader in witness: " + w.Loader)
	return true
}
