package main

import (
	"fmt"
	"sort"
	"strings"

	"github.com/bfenetworks/bfe/bfe_balance"
	"github.com/bfenetworks/bfe/bfe_route"

	"verifharness/ref/route"
	"verifharness/vkit"
)

// C13, cross-reference family: "every accepted configuration only references products
// and clusters that exist, and any malformed file is rejected" for file sets in which ONE
// cross-reference between the files is broken while MANY (>= 8) valid siblings of the same
// kind surround it, each broken file set loaded K times from scratch. The loaders walk Go
// maps, so a check whose verdict depends on which sibling is visited first accepts the
// same file on some loads and rejects it on others; one load per file set cannot see that.
//
// Judged per file set:
//   - a load that accepts a file set which (by the generator's own view of the files it
//     wrote - never by a bfe loader) contains a dangling reference of a judged kind:
//     closure:<kind>;
//   - loads of the same file set that disagree on acceptance: a file is either in the
//     documented format (always accepted) or malformed (always rejected):
//     accept-depends-on-map-order:<edit>.
//
// Edits whose result is not a reference to a missing product / cluster (a host-tag listed
// for a product but without host names, a product without route rules, a cluster_table
// cluster gslb.data does not mention, a gslb sub-cluster without instance list and the
// reverse: the documents are silent, their own example lists GSLB_BLACKHOLE in gslb.data
// only) are loaded K times as well but judged for agreement of the K loads only.

type c13Xref struct {
	Name   string
	Side   string // "sdc" (LoadServerDataConf) | "bal" (BalTable.Init)
	Judged bool   // accepted => closure violation
	fn     func(g *vkit.Rand, w *c13World) bool
}

const (
	c13WideProducts = 9
	c13WideClusters = 9
)

// c13WideWorld is a closed, documented file set with >= 8 siblings of every kind:
// products (each with 1-2 host-tags, every tag with host names, a VIP, advanced rules and
// basic rules), clusters (cluster_conf, gslb, cluster_table), and one cluster with 8
// sub-clusters.
func c13WideWorld(g *vkit.Rand) *c13World {
	w := &c13World{Files: map[string]interface{}{}}
	hosts, tags, vips := obj(), obj(), obj()
	nt := 0
	np := c13WideProducts + g.Intn(3)
	for p := 0; p < np; p++ {
		prod := fmt.Sprintf("prod%d", p)
		w.Products = append(w.Products, prod)
		var tl []interface{}
		n := g.Range(1, 2)
		if p == 0 {
			n = 2
		}
		for k := 0; k < n; k++ {
			tag := fmt.Sprintf("tag%d", nt)
			nt++
			tl = append(tl, tag)
			var hs []interface{}
			for h := g.Range(1, 2); h > 0; h-- {
				name := fmt.Sprintf("h%d.%s.example.org", h, tag)
				if g.Chance(1, 4) {
					name = "*." + name
				} else {
					w.Hosts = append(w.Hosts, name)
				}
				hs = append(hs, name)
			}
			hosts.set(tag, hs)
		}
		tags.set(prod, tl)
		vips.set(prod, []interface{}{fmt.Sprintf("10.1.%d.1", p)})
	}
	ho := obj("Version", "c13xref")
	if g.Chance(2, 3) {
		ho.set("DefaultProduct", g.PickS(w.Products))
	}
	ho.set("Hosts", hosts).set("HostTags", tags)
	w.Files[fHost] = ho
	w.Files[fVip] = obj("Version", "c13xref", "Vips", vips)

	nc := c13WideClusters + g.Intn(3)
	cc := obj()
	for i := 0; i < nc; i++ {
		c := fmt.Sprintf("cluster_%d", i)
		w.Clusters = append(w.Clusters, c)
		cc.set(c, c13ClusterConf(g))
	}
	w.Files[fCluster] = obj("Version", "c13xref", "Config", cc)

	basic, adv := obj(), obj()
	for i, p := range w.Products {
		s := c11GenSet(g, false)
		for k := range s.Rules {
			s.Rules[k].Cluster = w.Clusters[(i+k)%nc]
			if g.Chance(1, 6) {
				s.Rules[k].Cluster = route.AdvancedMode
				w.AdvMode = true
			}
		}
		basic.set(p, basicRulesJSON(s.Rules))
		var rs []interface{}
		for n := g.Range(1, 3); n > 0; n-- {
			rs = append(rs, obj("Cond", g.PickS(c13Conds), "ClusterName", g.PickS(w.Clusters)))
		}
		rs = append(rs, obj("Cond", "default_t()", "ClusterName", w.Clusters[i%nc]))
		adv.set(p, rs)
	}
	w.Files[fRoute] = obj("Version", "c13xref", "BasicRule", basic, "ProductRule", adv)

	gs, ct := obj(), obj()
	for i, c := range w.Clusters {
		ns := g.Range(2, 3)
		if i == 0 {
			ns = 8
		}
		rest := 100
		sub, tab := obj(), obj()
		if g.Bool() {
			sub.set("GSLB_BLACKHOLE", 0)
		}
		for s := 0; s < ns; s++ {
			name := fmt.Sprintf("%s.sub%d", c, s)
			wgt := rest
			if s < ns-1 {
				wgt = g.Range(1, rest-(ns-1-s)) // every sub-cluster carries weight
			}
			rest -= wgt
			sub.set(name, wgt)
			var bs []interface{}
			for b := g.Range(1, 2); b > 0; b-- {
				bs = append(bs, obj("Addr", fmt.Sprintf("10.%d.%d.%d", g.Intn(256), g.Intn(256), g.Range(1, 254)),
					"Name", fmt.Sprintf("%s-%d", name, b), "Port", g.Range(1, 65535), "Weight", g.Range(1, 20)))
			}
			tab.set(name, bs)
		}
		gs.set(c, sub)
		ct.set(c, tab)
	}
	w.Files[fGslb] = obj("Clusters", gs, "Hostname", "gslb-sch.example.com", "Ts", "20190101000000")
	w.Files[fCTable] = obj("Config", ct, "Version", "20190101000000")
	return w
}

// ------------------------------------------------------------ tree helpers

func (o *jobj) del(i int) {
	o.K = append(o.K[:i:i], o.K[i+1:]...)
	o.V = append(o.V[:i:i], o.V[i+1:]...)
}

func (o *jobj) insertAt(i int, k string, v interface{}) {
	o.K = append(o.K, "")
	o.V = append(o.V, nil)
	copy(o.K[i+1:], o.K[i:])
	copy(o.V[i+1:], o.V[i:])
	o.K[i], o.V[i] = k, v
}

func (o *jobj) index(k string) int {
	for i := range o.K {
		if o.K[i] == k {
			return i
		}
	}
	return -1
}

func (w *c13World) sub(file, key string) *jobj {
	o, _ := w.Files[file].(*jobj).get(key).(*jobj)
	return o
}

// ------------------------------------------------------------ edits

var c13Xrefs = []c13Xref{
	// host-tag in Hosts -> HostTags
	{"host-tag-added-without-product", "sdc", true, func(g *vkit.Rand, w *c13World) bool {
		h := w.sub(fHost, "Hosts")
		h.insertAt(g.Intn(len(h.K)+1), "tag_orphan", []interface{}{"orphan.example.org"})
		return true
	}},
	{"host-tag-unlisted-from-its-product", "sdc", true, func(g *vkit.Rand, w *c13World) bool {
		// a product with two tags stops listing one of them; its host names stay in Hosts
		t := w.sub(fHost, "HostTags")
		var c []int
		for i := range t.V {
			if len(t.V[i].([]interface{})) >= 2 {
				c = append(c, i)
			}
		}
		if len(c) == 0 {
			return false
		}
		i := c[g.Intn(len(c))]
		l := t.V[i].([]interface{})
		j := g.Intn(len(l))
		t.V[i] = append(append([]interface{}{}, l[:j]...), l[j+1:]...)
		return true
	}},
	// HostTags -> Hosts (the reverse direction: nothing missing is referenced)
	{"product-tag-without-host-names", "sdc", false, func(g *vkit.Rand, w *c13World) bool {
		h := w.sub(fHost, "Hosts")
		h.del(g.Intn(len(h.K)))
		return true
	}},
	{"host-tags-drops-product", "sdc", true, func(g *vkit.Rand, w *c13World) bool {
		t := w.sub(fHost, "HostTags")
		t.del(g.Intn(len(t.K)))
		return true
	}},
	// route product <-> HostTags
	{"advanced-rule-product-not-in-host-table", "sdc", true, func(g *vkit.Rand, w *c13World) bool {
		t := w.sub(fRoute, "ProductRule")
		c13RenameKey(t, g.Intn(len(t.K)), "product_missing")
		return true
	}},
	{"basic-rule-product-not-in-host-table", "sdc", true, func(g *vkit.Rand, w *c13World) bool {
		t := w.sub(fRoute, "BasicRule")
		c13RenameKey(t, g.Intn(len(t.K)), "product_missing")
		return true
	}},
	{"product-without-route-rules", "sdc", false, func(g *vkit.Rand, w *c13World) bool {
		p := g.PickS(w.Products)
		for _, tab := range []string{"ProductRule", "BasicRule"} {
			t := w.sub(fRoute, tab)
			if i := t.index(p); i >= 0 {
				t.del(i)
			}
		}
		return true
	}},
	{"default-product-not-in-host-table", "sdc", true, func(g *vkit.Rand, w *c13World) bool {
		h := w.Files[fHost].(*jobj)
		if !h.replace("DefaultProduct", "product_missing") {
			h.insertAt(g.Intn(len(h.K)+1), "DefaultProduct", "product_missing")
		}
		return true
	}},
	{"vip-product-not-in-host-table", "sdc", true, func(g *vkit.Rand, w *c13World) bool {
		v := w.sub(fVip, "Vips")
		if g.Bool() {
			c13RenameKey(v, g.Intn(len(v.K)), "product_missing")
		} else {
			v.insertAt(g.Intn(len(v.K)+1), "product_missing", []interface{}{"10.250.0.1"})
		}
		return true
	}},
	// rule cluster -> cluster_conf
	{"advanced-rule-cluster-not-in-cluster-conf", "sdc", true, func(g *vkit.Rand, w *c13World) bool {
		rs := c13RouteRules(w, "ProductRule")
		return rs[g.Intn(len(rs))].replace("ClusterName", "cluster_missing")
	}},
	{"basic-rule-cluster-not-in-cluster-conf", "sdc", true, func(g *vkit.Rand, w *c13World) bool {
		rs := c13RouteRules(w, "BasicRule")
		return rs[g.Intn(len(rs))].replace("ClusterName", "cluster_missing")
	}},
	{"cluster-conf-drops-referenced-cluster", "sdc", true, func(g *vkit.Rand, w *c13World) bool {
		used := map[string]bool{}
		for _, tab := range []string{"ProductRule", "BasicRule"} {
			for _, ru := range c13RouteRules(w, tab) {
				n, _ := ru.get("ClusterName").(string)
				used[n] = true
			}
		}
		c := w.sub(fCluster, "Config")
		var cand []int
		for i, k := range c.K {
			if used[k] {
				cand = append(cand, i)
			}
		}
		if len(cand) == 0 {
			return false
		}
		c.del(cand[g.Intn(len(cand))])
		return true
	}},
	// gslb cluster <-> cluster_table
	{"gslb-cluster-not-in-cluster-table", "bal", true, func(g *vkit.Rand, w *c13World) bool {
		c := w.sub(fCTable, "Config")
		if g.Bool() {
			c13RenameKey(c, g.Intn(len(c.K)), "cluster_missing")
		} else {
			c.del(g.Intn(len(c.K)))
		}
		return true
	}},
	{"cluster-table-cluster-not-in-gslb", "bal", false, func(g *vkit.Rand, w *c13World) bool {
		c := w.sub(fGslb, "Clusters")
		c.del(g.Intn(len(c.K)))
		return true
	}},
	// gslb sub-cluster <-> cluster_table sub-cluster
	{"gslb-subcluster-not-in-cluster-table", "bal", false, func(g *vkit.Rand, w *c13World) bool {
		c := w.sub(fCTable, "Config")
		i := 0 // the cluster with 8 sub-clusters half of the time
		if g.Bool() {
			i = g.Intn(len(c.K))
		}
		t := c.V[i].(*jobj)
		t.del(g.Intn(len(t.K)))
		return true
	}},
	{"cluster-table-subcluster-not-in-gslb", "bal", false, func(g *vkit.Rand, w *c13World) bool {
		c := w.sub(fCTable, "Config")
		i := 0
		if g.Bool() {
			i = g.Intn(len(c.K))
		}
		t := c.V[i].(*jobj)
		t.insertAt(g.Intn(len(t.K)+1), "subcluster_unknown_to_gslb", clone(t.V[0]))
		return true
	}},
}

// ------------------------------------------------------------ generator-side view

// c13XrefDangling lists the dangling references of a wide world from the trees the files
// were rendered from (sdc side / bal side).
func c13XrefDangling(w *c13World) (sdc, bal []string) {
	products := map[string]bool{}
	tagListed := map[string]bool{}
	ht := w.sub(fHost, "HostTags")
	for i, p := range ht.K {
		products[p] = true
		for _, t := range ht.V[i].([]interface{}) {
			tagListed[t.(string)] = true
		}
	}
	hs := w.sub(fHost, "Hosts")
	for i, t := range hs.K {
		if !tagListed[t] && len(hs.V[i].([]interface{})) > 0 {
			sdc = append(sdc, "host-tag-without-product")
		}
	}
	if d, ok := w.Files[fHost].(*jobj).get("DefaultProduct").(string); ok && !products[d] {
		sdc = append(sdc, "default-product-not-in-host-table")
	}
	clusters := map[string]bool{}
	for _, c := range w.sub(fCluster, "Config").K {
		clusters[c] = true
	}
	for _, tab := range []struct{ key, kind string }{{"ProductRule", "advanced-rule"}, {"BasicRule", "basic-rule"}} {
		t := w.sub(fRoute, tab.key)
		for i, p := range t.K {
			if !products[p] {
				sdc = append(sdc, tab.kind+"-product-not-in-host-table")
			}
			for _, ru := range t.V[i].([]interface{}) {
				c, _ := ru.(*jobj).get("ClusterName").(string)
				if !clusters[c] && !(tab.key == "BasicRule" && c == route.AdvancedMode) {
					sdc = append(sdc, tab.kind+"-cluster-not-in-cluster-conf")
				}
			}
		}
	}
	vs := w.sub(fVip, "Vips")
	for i, p := range vs.K {
		if !products[p] && len(vs.V[i].([]interface{})) > 0 {
			sdc = append(sdc, "vip-product-not-in-host-table")
		}
	}
	ct := w.sub(fCTable, "Config")
	for _, c := range w.sub(fGslb, "Clusters").K {
		if ct.index(c) < 0 {
			bal = append(bal, "gslb-cluster-not-in-cluster-table")
		}
	}
	return uniq(sdc), uniq(bal)
}

// c13XrefObserve asks the accepted tables themselves (exported lookups only): a configured
// host name / VIP / the default that resolves to a product no HostTags entry defines.
func c13XrefObserve(w *c13World, sdc *bfe_route.ServerDataConf) []string {
	products := map[string]bool{}
	for _, p := range w.sub(fHost, "HostTags").K {
		products[p] = true
	}
	var out []string
	hs := w.sub(fHost, "Hosts")
	for i := range hs.K {
		for _, h := range hs.V[i].([]interface{}) {
			name := strings.Replace(h.(string), "*.", "q.", 1)
			pr := probeReq{Host: name, Path: "/"}
			req := pr.build()
			if err := sdc.HostTable.LookupHostTagAndProduct(req); err == nil && !products[req.Route.Product] {
				out = append(out, fmt.Sprintf("host %q resolves to host-tag %q, product %q", name, req.Route.HostTag, req.Route.Product))
			}
		}
	}
	vs := w.sub(fVip, "Vips")
	for i := range vs.K {
		for _, v := range vs.V[i].([]interface{}) {
			if p, err := sdc.HostTable.LookupProductByVip(v.(string)); err == nil && !products[p] {
				out = append(out, fmt.Sprintf("vip %s resolves to product %q", v, p))
			}
		}
	}
	pr := probeReq{Host: "no-such-host.invalid", Path: "/"}
	req := pr.build()
	if err := sdc.HostTable.LookupHostTagAndProduct(req); err == nil && !products[req.Route.Product] {
		out = append(out, fmt.Sprintf("unknown host resolves to default product %q", req.Route.Product))
	}
	if len(out) > 6 {
		out = out[:6]
	}
	return out
}

// ------------------------------------------------------------ one file set, K loads

type c13XrefWitness struct {
	Mode  string            `json:"mode"` // "xref"
	Edit  string            `json:"edit"`
	Side  string            `json:"side"`
	Loads int               `json:"loads"`
	Files map[string]string `json:"files"`
}

func c13XrefLoad(fs *fileSet, side string) error {
	if side == "bal" {
		return bfe_balance.NewBalTable(nil).Init(fs.path(fGslb), fs.path(fCTable))
	}
	_, err := bfe_route.LoadServerDataConf(fs.path(fHost), fs.path(fVip), fs.path(fRoute), fs.path(fCluster))
	return err
}

// c13XrefRun loads one file set K times on the given side and judges it. dangling are the
// judged dangling kinds of the side (generator's view); w may be nil in replay.
func c13XrefRun(r *vkit.Run, wit *c13XrefWitness, w *c13World, dangling []string, fs *fileSet) (outcome string) {
	c13WriteAll(fs, wit.Files)
	nAcc, nRej := 0, 0
	firstErr := ""
	reported := false
	for k := 0; k < wit.Loads; k++ {
		var err error
		var sdc *bfe_route.ServerDataConf
		if r.Try(func() interface{} { return wit }, func() {
			if wit.Side == "bal" {
				err = c13XrefLoad(fs, "bal")
			} else {
				sdc, err = bfe_route.LoadServerDataConf(fs.path(fHost), fs.path(fVip), fs.path(fRoute), fs.path(fCluster))
			}
		}) {
			return "panic"
		}
		if err != nil {
			nRej++
			if firstErr == "" {
				firstErr = err.Error()
			}
			continue
		}
		nAcc++
		if reported || len(dangling) == 0 {
			continue
		}
		reported = true
		var observed []string
		if sdc != nil && w != nil {
			r.Try(func() interface{} { return wit }, func() { observed = c13XrefObserve(w, sdc) })
		}
		for _, kind := range dangling {
			r.Violation("closure:"+kind, fmt.Sprintf("load #%d of %d accepted a file set with a dangling reference (%s) among >= 8 valid siblings; edit applied by the generator: %s; observed on the accepted tables: %v",
				k, wit.Loads, kind, wit.Edit, observed),
				map[string]interface{}{"mode": "xref", "edit": wit.Edit, "side": wit.Side, "loads": wit.Loads, "files": wit.Files, "dangling": dangling, "observed": observed, "accepted_at_load": k})
		}
	}
	switch {
	case nAcc > 0 && nRej > 0:
		outcome = "mixed"
		r.Violation("accept-depends-on-map-order:"+wit.Edit, fmt.Sprintf("the same file set (%s) was accepted by %d and rejected by %d of %d loads from scratch (first error: %s)", wit.Edit, nAcc, nRej, wit.Loads, firstErr),
			map[string]interface{}{"mode": "xref", "edit": wit.Edit, "side": wit.Side, "loads": wit.Loads, "files": wit.Files, "accepted": nAcc, "rejected": nRej, "first_error": firstErr})
	case nAcc > 0:
		outcome = "always-accepted"
	default:
		outcome = "always-rejected"
	}
	r.Count("x_loads", int64(wit.Loads))
	return outcome
}

const c13XrefRule = " CROSS-REFERENCE FAMILY: wide worlds (9-11 products each with 1-2 host-tags, host names, a VIP, basic and advanced rules; 9-11 clusters in cluster_conf / gslb / cluster_table, one of them with 8 sub-clusters; all valid and closed) are loaded K times from scratch (q 24 / t 60) unbroken (must be accepted and closed every time) and with ONE cross-reference broken among its >= 8 valid siblings, inserted at a random position: host-tag in Hosts without product (tag added / tag unlisted from a two-tag product / product dropped from HostTags), rule-table product missing from HostTags (advanced / basic), DefaultProduct missing, VIP product missing (renamed / added), rule cluster missing from cluster_conf (advanced / basic / referenced cluster dropped), gslb cluster missing from cluster_table (renamed / dropped). A load that accepts such a set is a violation closure:<dangling kind> (dangling kinds computed from the generator's own trees; the accepted tables are additionally asked through exported lookups what the orphan resolves to). Loads of one file set that disagree on acceptance are a violation accept-depends-on-map-order:<edit>. Edits that reference nothing missing (host-tag of a product without host names, product without route rules, cluster_table cluster unknown to gslb, gslb sub-cluster without cluster_table entry, cluster_table sub-cluster unknown to gslb - documents silent, their example lists GSLB_BLACKHOLE in gslb.data only) are judged for agreement of the K loads only. Non-trivial = every file set; distinct = (edit, file contents)."

// c13XrefFamily runs the cross-reference family.
func c13XrefFamily(r *vkit.Run) {
	nWorlds := r.N(8, 60)
	K := r.N(24, 60)
	type job struct {
		world int
		edit  int // -1 = unbroken, both sides
	}
	var jobs []job
	for i := 0; i < nWorlds; i++ {
		jobs = append(jobs, job{i, -1})
		for e := range c13Xrefs {
			jobs = append(jobs, job{i, e})
		}
	}
	vkit.Parallel(len(jobs), 0, func(j int) {
		jb := jobs[j]
		base := c13WideWorld(r.Rng("xref-world", jb.world))
		fs := newFileSet("c13xref", j)
		defer fs.remove()
		if jb.edit < 0 {
			texts := base.texts()
			sd, bd := c13XrefDangling(base)
			if len(sd)+len(bd) > 0 {
				r.Inconclusive(fmt.Sprintf("generator defect: c13WideWorld is not closed: %v %v", sd, bd))
				return
			}
			for _, side := range []string{"sdc", "bal"} {
				wit := &c13XrefWitness{Mode: "xref", Edit: "unbroken", Side: side, Loads: K, Files: texts}
				out := c13XrefRun(r, wit, base, nil, fs)
				if out == "always-rejected" {
					sig := "reject-documented:wide:"
					if side == "bal" {
						sig = "reject-documented:bal:wide:"
					}
					r.Violation(sig+c13ErrClass(c13XrefLoad(fs, side)), "wide file set follows the documented formats but was rejected by every load ("+side+")", wit)
				}
				r.Count("x_unbroken_"+side+"_"+out, 1)
				r.CaseS("x|unbroken|"+side+"|"+texts[fHost]+texts[fVip]+texts[fRoute]+texts[fCluster]+texts[fGslb]+texts[fCTable], true)
			}
			return
		}
		x := c13Xrefs[jb.edit]
		g := r.Rng("xref-edit", jb.world, jb.edit)
		w := base.clone()
		if !x.fn(g, w) {
			r.Count("x_edit_not_applicable", 1)
			return
		}
		texts := w.texts()
		sd, bd := c13XrefDangling(w)
		dangling := sd
		if x.Side == "bal" {
			dangling = bd
		}
		if x.Judged && len(dangling) == 0 {
			r.Inconclusive("generator defect: edit " + x.Name + " left no dangling reference")
			return
		}
		if !x.Judged && len(sd)+len(bd) > 0 {
			r.Inconclusive(fmt.Sprintf("generator defect: edit %s is not judged but dangles: %v %v", x.Name, sd, bd))
			return
		}
		wit := &c13XrefWitness{Mode: "xref", Edit: x.Name, Side: x.Side, Loads: K, Files: texts}
		out := c13XrefRun(r, wit, w, dangling, fs)
		r.Count("x_"+x.Name+"_"+out, 1)
		sort.Strings(dangling)
		for _, d := range dangling {
			r.Count("x_dangling_kind_"+d, 1)
		}
		r.CaseS("x|"+x.Name+"|"+texts[fHost]+texts[fVip]+texts[fRoute]+texts[fCluster]+texts[fGslb]+texts[fCTable], true)
		if r.WantSample() && jb.world == 0 && (x.Name == "host-tag-added-without-product" || x.Name == "gslb-cluster-not-in-cluster-table") {
			file := fHost
			if x.Side == "bal" {
				file = fCTable
			}
			r.Sample(map[string]interface{}{"family": "xref", "edit": x.Name, "loads": K, "outcome": out, "dangling": dangling, "edited_file": truncStr(texts[file], 900)})
		}
	})
	for _, x := range c13Xrefs {
		n := int64(0)
		for _, o := range []string{"always-accepted", "always-rejected", "mixed", "panic"} {
			n += r.Counter("x_" + x.Name + "_" + o)
		}
		if n == 0 {
			r.Inconclusive("cross-reference edit never exercised: " + x.Name)
		}
	}
	if r.Counter("x_unbroken_sdc_always-accepted") == 0 || r.Counter("x_unbroken_bal_always-accepted") == 0 {
		r.Inconclusive("cross-reference family: no unbroken wide world was accepted by all loads")
	}
}

// c13XrefReplay re-executes a witness of the family; reports whether it was one.
func c13XrefReplay(r *vkit.Run) bool {
	var w c13XrefWitness
	if err := loadReplayCase(r, &w); err != nil || w.Mode != "xref" {
		return false
	}
	// rebuild the generator's view from the witness files
	world := &c13World{Files: map[string]interface{}{}}
	ok := true
	func() {
		defer func() {
			if recover() != nil {
				ok = false
			}
		}()
		for _, n := range c13FileNames {
			world.Files[n] = mustTree(w.Files[n])
		}
	}()
	if !ok {
		r.Inconclusive("cross-reference witness: files do not parse")
		return true
	}
	sd, bd := c13XrefDangling(world)
	dangling := sd
	if w.Side == "bal" {
		dangling = bd
	}
	if w.Loads < 200 {
		w.Loads = 200 // a replay may afford more loads than the run that found it
	}
	fs := newFileSet("c13xref", "replay")
	defer fs.remove()
	r.SetMinDistinct(0)
	r.Evals(1)
	c13XrefRun(r, &w, world, dangling, fs)
	return true
}
