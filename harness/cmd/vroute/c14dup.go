package main

import (
	"fmt"
	"sort"
	"strings"

	"github.com/bfenetworks/bfe/bfe_route"

	"verifharness/vkit"
)

// C14, duplicate family: host_rule.data / vip_rule.data that list the "same" host, tag or
// VIP twice, where "same" is taken along every axis on which the loader's duplicate check
// and the lookup structure (host trie keyed with Unicode strings.ToLower, ":port" stripped
// and one trailing dot ignored at lookup; VIP map keyed with net.IP.String()) could
// disagree. The oracle is the determinism oracle of C14 only: the same file set, loaded N
// times from scratch, is either rejected every time or accepted every time with the same
// (product, host-tag, cluster) for every probe host. Rejection is never demanded: a
// configuration with one deterministic meaning (e.g. names that no case mapping equates,
// or two spellings listed under the same tag) passes when accepted.

// c14Axis is one way in which two listed host names A and B can denote the same host.
type c14Axis struct {
	Name string
	// mk returns the two names to list, built from a base label and a domain
	mk func(g *vkit.Rand, dom string) (a, b string)
}

// pairs of (other-case form, lower-case form) of one non-ASCII letter; simple case mapping
var c14Letters = [][2]string{
	{"Ü", "ü"}, {"Ä", "ä"}, {"É", "é"}, {"Ñ", "ñ"}, {"Д", "д"}, {"Σ", "σ"}, {"Ø", "ø"}, {"Ž", "ž"},
}

func c14Base(g *vkit.Rand) string {
	return g.PickS([]string{"shop", "b", "news-1", "xn", "img2"})
}

var c14Axes = []c14Axis{
	{"exact", func(g *vkit.Rand, dom string) (string, string) {
		h := c14Base(g) + "." + dom
		return h, h
	}},
	{"ascii-case", func(g *vkit.Rand, dom string) (string, string) {
		h := c14Base(g) + "." + dom
		return h, flipCaseSure(g, h)
	}},
	{"nonascii-case", func(g *vkit.Rand, dom string) (string, string) {
		l := c14Letters[g.Intn(len(c14Letters))]
		b := c14Base(g)
		return "b" + l[1] + b + "." + dom, "b" + l[0] + b + "." + dom
	}},
	{"nonascii-case-all-upper", func(g *vkit.Rand, dom string) (string, string) {
		l := c14Letters[g.Intn(len(c14Letters))]
		h := "b" + l[1] + "cher." + dom
		return h, strings.ToUpper(h)
	}},
	// letters whose case mapping changes the encoded length or lands on an ASCII letter
	{"kelvin-sign-vs-k", func(g *vkit.Rand, dom string) (string, string) {
		b := c14Base(g)
		return "k" + b + "." + dom, "\u212a" + b + "." + dom
	}},
	{"dotted-capital-i-vs-i", func(g *vkit.Rand, dom string) (string, string) {
		b := c14Base(g)
		return "i" + b + "." + dom, "\u0130" + b + "." + dom
	}},
	{"capital-sharp-s-vs-sharp-s", func(g *vkit.Rand, dom string) (string, string) {
		b := c14Base(g)
		return "stra\u00dfe-" + b + "." + dom, "stra\u1e9ee-" + b + "." + dom
	}},
	{"long-s-vs-s", func(g *vkit.Rand, dom string) (string, string) {
		b := c14Base(g)
		return "s" + b + "." + dom, "\u017f" + b + "." + dom
	}},
	{"ohm-sign-vs-omega", func(g *vkit.Rand, dom string) (string, string) {
		b := c14Base(g)
		return "\u03c9" + b + "." + dom, "\u2126" + b + "." + dom
	}},
	{"angstrom-sign-vs-a-ring", func(g *vkit.Rand, dom string) (string, string) {
		b := c14Base(g)
		return "\u00e5" + b + "." + dom, "\u212b" + b + "." + dom
	}},
	{"titlecase-digraph", func(g *vkit.Rand, dom string) (string, string) {
		b := c14Base(g)
		return "\u01c6" + b + "." + dom, g.PickS([]string{"\u01c5", "\u01c4"}) + b + "." + dom
	}},
	{"final-sigma-vs-sigma", func(g *vkit.Rand, dom string) (string, string) {
		b := c14Base(g)
		return b + "\u03c3." + dom, b + "\u03c2." + dom
	}},
	{"trailing-dot", func(g *vkit.Rand, dom string) (string, string) {
		h := c14Base(g) + "." + dom
		return h, h + "."
	}},
	{"trailing-dot-and-nonascii-case", func(g *vkit.Rand, dom string) (string, string) {
		l := c14Letters[g.Intn(len(c14Letters))]
		b := c14Base(g)
		return b + l[1] + "." + dom, b + l[0] + "." + dom + "."
	}},
	{"two-trailing-dots", func(g *vkit.Rand, dom string) (string, string) {
		h := c14Base(g) + "." + dom
		return h + ".", h + ".."
	}},
	{"port-suffix", func(g *vkit.Rand, dom string) (string, string) {
		h := c14Base(g) + "." + dom
		return h, h + ":8080"
	}},
	{"port-suffix-and-case", func(g *vkit.Rand, dom string) (string, string) {
		h := c14Base(g) + "." + dom
		return h + ":8080", flipCaseSure(g, h) + ":8080"
	}},
	{"wildcard-ascii-case", func(g *vkit.Rand, dom string) (string, string) {
		h := "*." + c14Base(g) + "." + dom
		return h, flipCaseSure(g, h)
	}},
	{"wildcard-nonascii-case", func(g *vkit.Rand, dom string) (string, string) {
		l := c14Letters[g.Intn(len(c14Letters))]
		b := c14Base(g)
		return "*." + l[1] + b + "." + dom, "*." + l[0] + b + "." + dom
	}},
	{"nonascii-case-in-domain", func(g *vkit.Rand, dom string) (string, string) {
		l := c14Letters[g.Intn(len(c14Letters))]
		b := c14Base(g)
		return b + "." + l[1] + "x." + dom, b + "." + l[0] + "x." + dom
	}},
}

// where the two names are listed
var c14Places = []string{"same-tag", "two-tags-same-product", "two-tags-two-products"}

var c14TagShapes = []string{
	"tag-under-two-products",
	"tag-twice-under-one-product",
	"tags-differ-in-ascii-case-two-products",
	"tags-differ-in-nonascii-case-two-products",
	"tag-under-two-products-differing-in-case", // products "prodA" / "PRODA"
}

var c14VipShapes = []string{
	"vip-under-two-products",
	"vip-twice-under-one-product",
	"vip6-hex-case-two-products",
	"vip6-zero-compression-two-products",
	"vip4-mapped-two-products",
	"vip4-mapped-hex-two-products",
}

type c14DupCase struct {
	Family string            `json:"family"` // host-duplicate | tag-duplicate | vip-duplicate
	Shape  string            `json:"shape"`
	Names  []string          `json:"names,omitempty"` // the two listed spellings
	Files  map[string]string `json:"files"`
	Probes []probeReq        `json:"probes"`
}

// c14Spellings lists request spellings of a configured host name: as is, Unicode upper
// and lower, ASCII-only upper and lower, each also with a port and with a trailing dot.
func c14Spellings(names ...string) []string {
	var out []string
	for _, n := range names {
		h := strings.TrimSuffix(n, ":8080")
		h = strings.TrimRight(h, ".")
		if strings.HasPrefix(h, "*.") {
			h = "q." + h[2:]
		}
		forms := []string{h, strings.ToUpper(h), strings.ToLower(h), asciiFold(h, true), asciiFold(h, false)}
		for _, f := range forms {
			out = append(out, f, f+":8080", f+".", f+".:443")
		}
		out = append(out, n)
	}
	return uniq(out)
}

func asciiFold(s string, up bool) string {
	b := []byte(s)
	for i, c := range b {
		if up && c >= 'a' && c <= 'z' {
			b[i] = c - 32
		} else if !up && c >= 'A' && c <= 'Z' {
			b[i] = c + 32
		}
	}
	return string(b)
}

// c14DupRoute is a route file that makes product and host-tag visible in the cluster.
func c14DupRoute(prods []string, tags map[string][]string) (route, cluster string) {
	pr := obj()
	cc := obj()
	for _, p := range prods {
		var rules []interface{}
		for _, t := range uniq(tags[p]) {
			c := "c-" + p + "-" + t
			rules = append(rules, obj("Cond", fmt.Sprintf("req_host_tag_in(%q)", t), "ClusterName", c))
			cc.set(c, obj("GslbBasic", obj("CrossRetry", 0, "RetryMax", 2)))
		}
		c := "c-" + p + "-default"
		rules = append(rules, obj("Cond", "default_t()", "ClusterName", c))
		cc.set(c, obj("GslbBasic", obj("CrossRetry", 0, "RetryMax", 2)))
		pr.set(p, rules)
	}
	return render(obj("Version", "c14dup", "ProductRule", pr)), render(obj("Version", "c14dup", "Config", cc))
}

func c14DupGen(g *vkit.Rand, family, shape string) *c14DupCase {
	dom := g.PickS([]string{"example.com", "shop.example.org", "x.cn", "münchen.example"})
	c := &c14DupCase{Family: family, Shape: shape}
	// skeleton: prodA {tagA1, tagA2}, prodB {tagB1}; some unrelated hosts around the pair
	other := []string{"www." + dom, "api." + dom, "*.cdn." + dom}
	tagHosts := map[string][]string{"tagA1": {other[0]}, "tagA2": {other[1]}, "tagB1": {other[2]}}
	prodTags := map[string][]string{"prodA": {"tagA1", "tagA2"}, "prodB": {"tagB1"}}
	prods := []string{"prodA", "prodB"}
	vips := map[string][]string{"prodA": {"10.0.0.1"}, "prodB": {"10.0.0.2"}}
	probeHosts := c14Spellings(other...)
	var probeVips []string

	switch family {
	case "host-duplicate":
		i := strings.LastIndex(shape, "@")
		axis, place := shape[:i], shape[i+1:]
		var a, b string
		for _, ax := range c14Axes {
			if ax.Name == axis {
				a, b = ax.mk(g, dom)
			}
		}
		if g.Bool() {
			a, b = b, a
		}
		c.Names = []string{a, b}
		switch place {
		case "same-tag":
			tagHosts["tagA1"] = append(tagHosts["tagA1"], a, b)
		case "two-tags-same-product":
			tagHosts["tagA1"] = append(tagHosts["tagA1"], a)
			tagHosts["tagA2"] = append(tagHosts["tagA2"], b)
		default:
			tagHosts["tagA1"] = append(tagHosts["tagA1"], a)
			tagHosts["tagB1"] = append(tagHosts["tagB1"], b)
		}
		probeHosts = append(probeHosts, c14Spellings(a, b)...)
	case "tag-duplicate":
		switch shape {
		case "tag-under-two-products":
			prodTags["prodB"] = append(prodTags["prodB"], "tagA1")
		case "tag-twice-under-one-product":
			prodTags["prodA"] = append(prodTags["prodA"], "tagA1")
		case "tags-differ-in-ascii-case-two-products":
			tagHosts["TAGA1"] = []string{"upper." + dom}
			prodTags["prodB"] = append(prodTags["prodB"], "TAGA1")
			probeHosts = append(probeHosts, c14Spellings("upper."+dom)...)
		case "tags-differ-in-nonascii-case-two-products":
			tagHosts["tagü"] = []string{"lower." + dom}
			tagHosts["tagÜ"] = []string{"upper." + dom}
			prodTags["prodA"] = append(prodTags["prodA"], "tagü")
			prodTags["prodB"] = append(prodTags["prodB"], "tagÜ")
			probeHosts = append(probeHosts, c14Spellings("upper."+dom, "lower."+dom)...)
		case "tag-under-two-products-differing-in-case":
			prods = append(prods, "PRODA")
			prodTags["PRODA"] = []string{"tagA1"}
		}
	case "vip-duplicate":
		switch shape {
		case "vip-under-two-products":
			vips["prodB"] = append(vips["prodB"], "10.0.0.1")
			probeVips = []string{"10.0.0.1"}
		case "vip-twice-under-one-product":
			vips["prodA"] = append(vips["prodA"], "10.0.0.1", "::ffff:10.0.0.1")
			probeVips = []string{"10.0.0.1"}
		case "vip6-hex-case-two-products":
			vips["prodA"] = append(vips["prodA"], "2001:db8::ab")
			vips["prodB"] = append(vips["prodB"], "2001:DB8::AB")
			probeVips = []string{"2001:db8::ab"}
		case "vip6-zero-compression-two-products":
			vips["prodA"] = append(vips["prodA"], "2001:db8::1")
			vips["prodB"] = append(vips["prodB"], "2001:0db8:0:0:0:0:0:1")
			probeVips = []string{"2001:db8::1"}
		case "vip4-mapped-two-products":
			vips["prodB"] = append(vips["prodB"], "::ffff:10.0.0.1")
			probeVips = []string{"10.0.0.1"}
		case "vip4-mapped-hex-two-products":
			vips["prodB"] = append(vips["prodB"], "::FFFF:0a00:0001")
			probeVips = []string{"10.0.0.1"}
		}
	}

	// render; the textual order of tags / products is shuffled (it must not matter)
	hosts, tags, vp := obj(), obj(), obj()
	var tagNames []string
	for t := range tagHosts {
		tagNames = append(tagNames, t)
	}
	sort.Strings(tagNames)
	for _, i := range g.Perm(len(tagNames)) {
		hs := tagHosts[tagNames[i]]
		sh := make([]string, len(hs))
		for k, j := range g.Perm(len(hs)) {
			sh[k] = hs[j]
		}
		hosts.set(tagNames[i], strs(sh))
	}
	for _, i := range g.Perm(len(prods)) {
		tags.set(prods[i], strs(prodTags[prods[i]]))
		if v, ok := vips[prods[i]]; ok {
			vp.set(prods[i], strs(v))
		}
	}
	host := obj("Version", "c14dup")
	if g.Bool() {
		host.set("DefaultProduct", "prodB")
	}
	host.set("Hosts", hosts).set("HostTags", tags)
	route, cluster := c14DupRoute(prods, prodTags)
	c.Files = map[string]string{
		fHost:    render(host),
		fVip:     render(obj("Version", "c14dup", "Vips", vp)),
		fRoute:   route,
		fCluster: cluster,
	}
	for _, h := range uniq(append(probeHosts, "unknown.net", "")) {
		c.Probes = append(c.Probes, probeReq{Host: h, Path: "/"})
	}
	for _, v := range append(probeVips, "10.0.0.2", "10.0.0.9") {
		c.Probes = append(c.Probes, probeReq{Host: "unknown.net", Vip: v, Path: "/"})
	}
	return c
}

// c14DupLoad is one load from scratch: "" when rejected, else the decision vector.
func c14DupLoad(c *c14DupCase, fs *fileSet) (accepted bool, vec []string) {
	sdc, err := bfe_route.LoadServerDataConf(fs.path(fHost), fs.path(fVip), fs.path(fRoute), fs.path(fCluster))
	if err != nil {
		return false, nil
	}
	for _, p := range c.Probes {
		req := p.build()
		rt := sdc.HostTable.Lookup(req)
		e := ""
		if rt.Error != nil {
			e = "error"
		}
		vec = append(vec, fmt.Sprintf("product=%q tag=%q cluster=%q %s", rt.Product, rt.HostTag, rt.ClusterName, e))
	}
	return true, vec
}

// c14DupRun loads the file set N times and judges determinism. It returns the outcome
// class: always-rejected | always-same | nondeterministic.
func c14DupRun(r *vkit.Run, c *c14DupCase, fs *fileSet, N int) string {
	for n, t := range c.Files {
		fs.write(n, t)
	}
	var firstAcc, firstRej = -1, -1
	var first []string
	outcome := ""
	loads := 0
	for k := 0; k < N && outcome == ""; k++ {
		var acc bool
		var vec []string
		if r.Try(func() interface{} { return c }, func() { acc, vec = c14DupLoad(c, fs) }) {
			return "panic"
		}
		loads++
		if !acc {
			if firstRej < 0 {
				firstRej = k
			}
		} else if firstAcc < 0 {
			firstAcc, first = k, vec
		}
		if firstAcc >= 0 && firstRej >= 0 {
			outcome = "nondeterministic"
			r.Violation(c14DupSig(c),
				fmt.Sprintf("the same files are accepted by load #%d and rejected by load #%d (%s %s, listed names %q)", firstAcc, firstRej, c.Family, c.Shape, c.Names),
				map[string]interface{}{"case": c, "varies": "acceptance", "load_accepted": firstAcc, "load_rejected": firstRej})
			break
		}
		if acc && k != firstAcc {
			for i := range vec {
				if vec[i] != first[i] {
					outcome = "nondeterministic"
					r.Violation(c14DupSig(c),
						fmt.Sprintf("the same files, accepted every time, resolve request host %q (vip %q) to {%s} in load #%d and to {%s} in load #%d (%s %s, listed names %q)",
							c.Probes[i].Host, c.Probes[i].Vip, first[i], firstAcc, vec[i], k, c.Family, c.Shape, c.Names),
						map[string]interface{}{"case": c, "varies": "resolution", "probe": c.Probes[i], "load_a": firstAcc, "decision_a": first[i], "load_b": k, "decision_b": vec[i]})
					break
				}
			}
		}
	}
	if outcome == "" {
		outcome = "always-same"
		if firstAcc < 0 {
			outcome = "always-rejected"
		}
	}
	r.Evals(int64(loads) - 1)
	r.CaseS("dup|"+c.Family+"|"+c.Shape+"|"+c.Files[fHost]+"|"+c.Files[fVip], true)
	r.Count("dup_loads", int64(loads))
	r.Count("dup_outcome_"+outcome, 1)
	r.Count("dup_by_shape_"+c.Family+":"+c.Shape+"_"+outcome, 1)
	return outcome
}

// c14DupSig is the violation signature of a case: load-nondeterministic:<family>:<axis>:<placement>.
func c14DupSig(c *c14DupCase) string {
	return "load-nondeterministic:" + c.Family + ":" + strings.Replace(c.Shape, "@", ":", 1)
}

type c14DupShape struct{ family, shape string }

func c14DupShapes() []c14DupShape {
	var out []c14DupShape
	for _, ax := range c14Axes {
		for _, p := range c14Places {
			out = append(out, c14DupShape{"host-duplicate", ax.Name + "@" + p})
		}
	}
	for _, s := range c14TagShapes {
		out = append(out, c14DupShape{"tag-duplicate", s})
	}
	for _, s := range c14VipShapes {
		out = append(out, c14DupShape{"vip-duplicate", s})
	}
	return out
}

const c14DupRule = " DUPLICATE FAMILY: host_rule.data/vip_rule.data (+ a route file whose cluster names expose product and host-tag) listing two spellings A,B of one host along an axis (exact, ASCII case, non-ASCII case of one letter / whole name, U+212A vs k, U+0130 vs i, U+1E9E vs U+00DF, U+017F vs s, U+2126 vs omega, U+212B vs a-ring, title-case digraph, final sigma vs sigma, one / two trailing dots, trailing dot + non-ASCII case, :port suffix, wildcard with ASCII / non-ASCII case, non-ASCII case in a parent label) x placement (same tag, two tags of one product, tags of two products); tag shapes (tag under two products, twice under one product, tags differing in ASCII / non-ASCII case under two products, tag under products differing in case); VIP shapes (same VIP under two products / twice under one, IPv6 hex case, zero compression, IPv4-mapped dotted / hex under two products); textual order of tags, products and hosts shuffled. Each file set is loaded N times from scratch with LoadServerDataConf (q 32 / t 120; stops at the first disagreement) and probed with every spelling of A, B and of the unrelated hosts (as listed, Unicode upper/lower, ASCII-only upper/lower, each plain, with :8080, with trailing dot, with dot and port) plus VIP-only requests. Pass = every load rejected, or every load accepted with identical (product, host-tag, cluster, error?) for every probe; acceptance of a file set with one deterministic meaning is not an alarm and rejection is never demanded. Signature load-nondeterministic:<family>:<axis>:<placement>."

// c14Dup is the duplicate family of C14.
func c14Dup(r *vkit.Run) {
	shapes := c14DupShapes()
	per := r.N(3, 20)
	N := r.N(32, 120)
	vkit.Parallel(len(shapes)*per, 0, func(i int) {
		s := shapes[i%len(shapes)]
		g := r.Rng("dup", i)
		c := c14DupGen(g, s.family, s.shape)
		fs := newFileSet("c14dup", i)
		defer fs.remove()
		out := c14DupRun(r, c, fs, N)
		if out == "always-same" && i < 2*len(shapes) && i%7 == 3 && r.WantSample() {
			r.Sample(map[string]interface{}{"family": s.family, "shape": s.shape, "outcome": out, "names": c.Names, "host_file": c.Files[fHost], "vip_file": c.Files[fVip]})
		}
	})
	for _, s := range shapes {
		n := int64(0)
		for _, o := range []string{"always-rejected", "always-same", "nondeterministic", "panic"} {
			n += r.Counter("dup_by_shape_" + s.family + ":" + s.shape + "_" + o)
		}
		if n == 0 {
			r.Inconclusive("duplicate shape never generated: " + s.family + ":" + s.shape)
		}
	}
	if r.Counter("dup_outcome_always-rejected") == 0 || r.Counter("dup_outcome_always-same") == 0 {
		r.Inconclusive("duplicate family: one of the outcomes always-rejected / always-same was never observed")
	}
}
