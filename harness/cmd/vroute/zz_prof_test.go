package main

import (
	"flag"
	"os"
	"runtime/pprof"
	"testing"

	"verifharness/vkit"
)

func TestProf(t *testing.T) {
	flag.Set("prop", "C10"); flag.Set("seed", "1")
	f, _ := os.Create(os.Getenv("PROF_OUT"))
	pprof.StartCPUProfile(f)
	r := vkit.Start("exploration")
	c10Reload(r)
	pprof.StopCPUProfile()
	f.Close()
}
