package main

import (
	"encoding/json"
	"fmt"
	"os"
	"regexp"
	"strings"

	"github.com/bfenetworks/bfe/bfe_balance"
	"github.com/bfenetworks/bfe/bfe_config/bfe_cluster_conf/cluster_conf"
	"github.com/bfenetworks/bfe/bfe_config/bfe_cluster_conf/cluster_table_conf"
	"github.com/bfenetworks/bfe/bfe_config/bfe_cluster_conf/gslb_conf"
	"github.com/bfenetworks/bfe/bfe_config/bfe_route_conf/host_rule_conf"
	"github.com/bfenetworks/bfe/bfe_config/bfe_route_conf/route_rule_conf"
	"github.com/bfenetworks/bfe/bfe_config/bfe_route_conf/vip_rule_conf"
	"github.com/bfenetworks/bfe/bfe_route"

	"verifharness/ref/route"
	"verifharness/vkit"
)

// C13: (a) every file set that follows the documented formats is accepted,
// (b) every accepted file set is closed (references only existing products /
// clusters), (c) no loader panics on malformed files.

// c13World is one complete file set as ordered JSON trees.
type c13World struct {
	Products []string
	Clusters []string
	AdvMode  bool // some basic rule targets ADVANCED_MODE
	Hosts    []string
	Files    map[string]interface{}
}

var c13FileNames = []string{fHost, fVip, fRoute, fCluster, fGslb, fCTable}

func (w *c13World) clone() *c13World {
	c := &c13World{Products: w.Products, Clusters: w.Clusters, AdvMode: w.AdvMode, Hosts: w.Hosts, Files: map[string]interface{}{}}
	for k, v := range w.Files {
		c.Files[k] = clone(v)
	}
	return c
}

func (w *c13World) texts() map[string]string {
	m := map[string]string{}
	for _, n := range c13FileNames {
		m[n] = render(w.Files[n])
	}
	return m
}

// documented condition expressions (docs/en_us/condition, route_rule.data.md, route.md)
var c13Conds = []string{
	`default_t()`,
	`req_host_in("example.org")`,
	`req_host_in("a.example.org|b.example.org")`,
	`req_path_prefix_in("/static", false)`,
	`req_path_in("/setting", true) && req_method_in("POST")`,
	`req_method_in("GET|HEAD")`,
	`req_header_key_in("X-Bd-Bwsc")`,
	`req_cookie_value_prefix_in("deviceid", "x", false)`,
	`req_host_in("www.c.com") && req_cookie_value_prefix_in("deviceid", "x", false)`,
	`!req_host_in("x.example.org")`,
	`(req_host_in("a.example.org") || req_path_prefix_in("/b", false)) && req_method_in("GET")`,
	`req_query_key_in("abc")`,
	`req_vip_in("10.0.0.1|10.0.0.2")`,
}

func c13Opt(g *vkit.Rand, o *jobj, k string, v interface{}) {
	if g.Chance(2, 3) {
		o.set(k, v)
	}
}

func c13ClusterConf(g *vkit.Rand) *jobj {
	c := obj()
	if g.Chance(3, 4) {
		b := obj()
		fcgi := g.Chance(1, 4)
		if fcgi {
			b.set("Protocol", "fcgi")
		} else {
			c13Opt(g, b, "Protocol", "http")
		}
		c13Opt(g, b, "TimeoutConnSrv", g.Range(1, 10000))
		c13Opt(g, b, "TimeoutResponseHeader", g.Range(1, 60000))
		c13Opt(g, b, "MaxIdleConnsPerHost", g.Range(0, 10))
		c13Opt(g, b, "MaxConnsPerHost", g.Range(0, 100))
		c13Opt(g, b, "RetryLevel", g.Intn(2))
		c13Opt(g, b, "OutlierDetectionHttpCode", g.PickS([]string{"5xx|400", "500", "5xx", "4xx|5xx"}))
		if fcgi {
			c13Opt(g, b, "FCGIConf", obj("Root", "/home/work", "EnvVars", obj("VarKey", "VarVal")))
		}
		c.set("BackendConf", b)
	}
	if g.Chance(3, 4) {
		k := obj()
		if g.Chance(1, 4) {
			k.set("Schem", "tcp")
		} else {
			c13Opt(g, k, "Schem", "http")
			c13Opt(g, k, "Uri", g.PickS([]string{"/healthcheck", "/", "/a/b?x=1"}))
			c13Opt(g, k, "Host", "example.org")
			c13Opt(g, k, "StatusCode", []int{200, 204, 301, 404, 100, 599}[g.Intn(6)])
		}
		c13Opt(g, k, "FailNum", g.Range(1, 10))
		c13Opt(g, k, "SuccNum", g.Range(1, 5))
		c13Opt(g, k, "CheckTimeout", g.Range(1, 5000))
		c13Opt(g, k, "CheckInterval", g.Range(1, 5000))
		c.set("CheckConf", k)
	}
	if g.Chance(3, 4) {
		s := obj()
		c13Opt(g, s, "CrossRetry", g.Intn(4))
		c13Opt(g, s, "RetryMax", g.Intn(4))
		c13Opt(g, s, "BalanceMode", "WRR")
		if g.Chance(2, 3) {
			// HashHeader is always written when the strategy uses the client id (the
			// document calls it optional without saying for which strategies)
			h := obj()
			st := g.Intn(3)
			h.set("HashStrategy", st)
			if st != 1 || g.Bool() {
				h.set("HashHeader", g.PickS([]string{"Cookie:UID", "Dueros-Device-Id", "Cookie:BAIDUID"}))
			}
			c13Opt(g, h, "SessionSticky", g.Bool())
			s.set("HashConf", h)
		}
		c.set("GslbBasic", s)
	}
	if g.Chance(3, 4) {
		b := obj()
		c13Opt(g, b, "TimeoutReadClient", g.Range(1, 60000))
		c13Opt(g, b, "TimeoutWriteClient", g.Range(1, 60000))
		c13Opt(g, b, "TimeoutReadClientAgain", g.Range(1, 60000))
		c13Opt(g, b, "ReqWriteBufferSize", g.Range(0, 4096))
		c13Opt(g, b, "ReqFlushInterval", g.Range(0, 100))
		c13Opt(g, b, "ResFlushInterval", g.Range(-1, 100))
		c13Opt(g, b, "CancelOnClientClose", g.Bool())
		c.set("ClusterBasic", b)
	}
	return c
}

// c13GenWorld emits a file set that follows the documented formats and is closed.
func c13GenWorld(g *vkit.Rand, advMode bool) *c13World {
	w := &c13World{Files: map[string]interface{}{}}
	// host + vip tables (C10 generator: unique hosts, one product per tag)
	t := c10GenTable(g)
	for _, pt := range t.Tags {
		w.Products = append(w.Products, pt.Product)
	}
	for _, th := range t.Hosts {
		for _, h := range th.Hosts {
			if !strings.HasPrefix(h, "*") {
				w.Hosts = append(w.Hosts, h)
			}
		}
	}
	w.Files[fHost] = mustTree(t.hostJSON())
	w.Files[fVip] = mustTree(t.vipJSON())
	// clusters
	nc := g.Range(1, 4)
	for i := 0; i < nc; i++ {
		w.Clusters = append(w.Clusters, fmt.Sprintf("cluster_%d", i))
	}
	cc := obj()
	for _, c := range w.Clusters {
		cc.set(c, c13ClusterConf(g))
	}
	w.Files[fCluster] = obj("Version", "20190101000000", "Config", cc)
	// route
	basic, adv := obj(), obj()
	for _, p := range w.Products {
		if g.Chance(1, 5) {
			continue // product without route rules
		}
		hasBasic := g.Chance(1, 2)
		if hasBasic {
			s := c11GenSet(g, false)
			for k := range s.Rules {
				s.Rules[k].Cluster = g.PickS(w.Clusters)
				if advMode && (k == 0 || g.Chance(1, 3)) {
					s.Rules[k].Cluster = route.AdvancedMode
					w.AdvMode = true
				}
			}
			basic.set(p, basicRulesJSON(s.Rules))
		}
		var rs []interface{}
		for n := g.Range(0, 4); n > 0; n-- {
			rs = append(rs, obj("Cond", g.PickS(c13Conds), "ClusterName", g.PickS(w.Clusters)))
		}
		rs = append(rs, obj("Cond", "default_t()", "ClusterName", g.PickS(w.Clusters)))
		adv.set(p, rs)
	}
	ro := obj("Version", "20190101000000")
	if len(basic.K) > 0 {
		ro.set("BasicRule", basic)
	}
	ro.set("ProductRule", adv)
	w.Files[fRoute] = ro
	// gslb + cluster_table
	gs, ct := obj(), obj()
	for _, c := range w.Clusters {
		ns := g.Range(1, 3)
		rest := 100
		sub := obj()
		tab := obj()
		if g.Bool() {
			bh := 0
			if ns > 0 && g.Chance(1, 4) {
				bh = g.Range(0, 50)
			}
			sub.set("GSLB_BLACKHOLE", bh)
			rest -= bh
		}
		for s := 0; s < ns; s++ {
			name := fmt.Sprintf("%s.sub%d", c, s)
			wgt := rest
			if s < ns-1 {
				wgt = g.Range(0, rest)
			}
			rest -= wgt
			sub.set(name, wgt)
			var bs []interface{}
			nb := g.Range(1, 3)
			for b := 0; b < nb; b++ {
				wt := g.Range(0, 20)
				if b == 0 {
					wt = g.Range(1, 20)
				}
				bs = append(bs, obj("Addr", fmt.Sprintf("10.%d.%d.%d", g.Intn(256), g.Intn(256), g.Range(1, 254)),
					"Name", fmt.Sprintf("%s-%d", name, b), "Port", g.Range(1, 65535), "Weight", wt))
			}
			tab.set(name, bs)
		}
		gs.set(c, sub)
		ct.set(c, tab)
	}
	w.Files[fGslb] = obj("Clusters", gs, "Hostname", "gslb-sch.example.com", "Ts", "20190101000000")
	w.Files[fCTable] = obj("Config", ct, "Version", "20190101000000")
	return w
}

// mustTree parses JSON text (produced by render) back into an ordered tree.
func mustTree(s string) interface{} {
	dec := json.NewDecoder(strings.NewReader(s))
	dec.UseNumber()
	v, err := parseTree(dec)
	if err != nil {
		panic(err)
	}
	return v
}

func parseTree(dec *json.Decoder) (interface{}, error) {
	tok, err := dec.Token()
	if err != nil {
		return nil, err
	}
	switch t := tok.(type) {
	case json.Delim:
		switch t {
		case '{':
			o := obj()
			for dec.More() {
				kt, err := dec.Token()
				if err != nil {
					return nil, err
				}
				v, err := parseTree(dec)
				if err != nil {
					return nil, err
				}
				o.set(kt.(string), v)
			}
			dec.Token()
			return o, nil
		case '[':
			a := []interface{}{}
			for dec.More() {
				v, err := parseTree(dec)
				if err != nil {
					return nil, err
				}
				a = append(a, v)
			}
			dec.Token()
			return a, nil
		}
		return nil, fmt.Errorf("unexpected delim %v", t)
	case json.Number:
		return jraw(t.String()), nil
	default:
		return tok, nil
	}
}

// ------------------------------------------------------------ loading

type c13Loaded struct {
	sdc    *bfe_route.ServerDataConf
	sdcErr error
	bal    *bfe_balance.BalTable
	balErr error
}

func c13WriteAll(fs *fileSet, texts map[string]string) {
	for _, n := range c13FileNames {
		fs.write(n, texts[n])
	}
}

func c13LoadAll(fs *fileSet) *c13Loaded {
	l := &c13Loaded{}
	l.sdc, l.sdcErr = bfe_route.LoadServerDataConf(fs.path(fHost), fs.path(fVip), fs.path(fRoute), fs.path(fCluster))
	l.bal = bfe_balance.NewBalTable(nil)
	l.balErr = l.bal.Init(fs.path(fGslb), fs.path(fCTable))
	return l
}

var c13ErrNoise = regexp.MustCompile(`\[[^\]]*\]|"[^"]*"|[0-9]+|\(.*\)`)

func c13ErrClass(err error) string {
	s := c13ErrNoise.ReplaceAllString(err.Error(), "")
	s = strings.Join(strings.Fields(s), "-")
	if len(s) > 60 {
		s = s[:60]
	}
	return s
}

// ------------------------------------------------------------ (a) acceptance

func c13Acceptance(r *vkit.Run, w *c13World, fs *fileSet) *c13Loaded {
	texts := w.texts()
	c13WriteAll(fs, texts)
	var l *c13Loaded
	if r.Try(func() interface{} { return texts }, func() { l = c13LoadAll(fs) }) {
		return nil
	}
	if l.sdcErr != nil {
		sig := "reject-documented:" + c13ErrClass(l.sdcErr)
		if w.AdvMode {
			// shape: does the same file set load once ADVANCED_MODE targets are replaced by a real cluster?
			alt := strings.ReplaceAll(texts[fRoute], `"`+route.AdvancedMode+`"`, `"`+w.Clusters[0]+`"`)
			fs.write(fRoute, alt)
			if _, err := bfe_route.LoadServerDataConf(fs.path(fHost), fs.path(fVip), fs.path(fRoute), fs.path(fCluster)); err == nil {
				sig = "reject-documented:basic-rule-ADVANCED_MODE"
			}
			fs.write(fRoute, texts[fRoute])
		}
		r.Violation(sig, "file set follows the documented formats but LoadServerDataConf rejected it: "+l.sdcErr.Error(),
			map[string]interface{}{"mode": "acceptance", "files": texts})
	}
	if l.balErr != nil {
		r.Violation("reject-documented:bal:"+c13ErrClass(l.balErr), "gslb.data/cluster_table.data follow the documented formats but BalTable.Init rejected them: "+l.balErr.Error(),
			map[string]interface{}{"mode": "acceptance", "files": texts})
	}
	if l.sdcErr == nil {
		r.Count("a_accepted_server_data", 1)
		if w.AdvMode {
			r.Count("a_accepted_with_ADVANCED_MODE", 1)
		}
	}
	if l.balErr == nil {
		r.Count("a_accepted_bal", 1)
	}
	return l
}

// ------------------------------------------------------------ (b) closure

// c13Closure walks what the loaders actually parsed from the files on disk.
// It returns the kinds of dangling references found.
func c13Closure(fs *fileSet, l *c13Loaded) []string {
	var bad []string
	if l.sdcErr == nil && l.sdc != nil {
		var raw host_rule_conf.HostTableConf
		products := map[string]bool{}
		if _, err := raw.LoadAndCheck(fs.path(fHost)); err == nil {
			for p := range *raw.HostTags {
				products[p] = true
			}
			if raw.DefaultProduct != nil && !products[*raw.DefaultProduct] {
				bad = append(bad, "default-product-not-in-host-table")
			}
		}
		clusters := l.sdc.ClusterTable.ClusterMap()
		if rc, err := route_rule_conf.RouteConfLoad(fs.path(fRoute)); err == nil {
			for p, rules := range rc.AdvancedRuleMap {
				if !products[p] {
					bad = append(bad, "advanced-rule-product-not-in-host-table")
				}
				for _, ru := range rules {
					if _, ok := clusters[ru.ClusterName]; !ok {
						bad = append(bad, "advanced-rule-cluster-not-in-cluster-conf")
					}
				}
			}
			for p, rules := range rc.BasicRuleMap {
				if !products[p] {
					bad = append(bad, "basic-rule-product-not-in-host-table")
				}
				for _, ru := range rules {
					if _, ok := clusters[ru.ClusterName]; !ok && ru.ClusterName != route_rule_conf.AdvancedMode {
						bad = append(bad, "basic-rule-cluster-not-in-cluster-conf")
					}
				}
			}
		}
		if vc, err := vip_rule_conf.VipRuleConfLoad(fs.path(fVip)); err == nil {
			for _, p := range vc.VipMap {
				if !products[p] {
					bad = append(bad, "vip-product-not-in-host-table")
				}
			}
		}
	}
	if l.balErr == nil {
		gc, err1 := gslb_conf.GslbConfLoad(fs.path(fGslb))
		tc, err2 := cluster_table_conf.ClusterTableLoad(fs.path(fCTable))
		if err1 == nil && err2 == nil {
			for c := range *gc.Clusters {
				// the statement asks for existence of the referenced cluster only; a
				// cluster that exists with no sub-cluster/backend is counted, not flagged
				if _, ok := (*tc.Config)[c]; !ok {
					bad = append(bad, "gslb-cluster-not-in-cluster-table")
				}
			}
		}
	}
	return uniq(bad)
}

// reference breaks applied to a closed world; each returns the closure kind it
// creates, or "" when not applicable to this world.
type c13Break struct {
	name string
	fn   func(g *vkit.Rand, w *c13World) bool
}

func c13RouteRules(w *c13World, table string) []*jobj {
	ro := w.Files[fRoute].(*jobj)
	t, _ := ro.get(table).(*jobj)
	var out []*jobj
	if t == nil {
		return nil
	}
	for _, v := range t.V {
		for _, ru := range v.([]interface{}) {
			out = append(out, ru.(*jobj))
		}
	}
	return out
}

func (o *jobj) replace(k string, v interface{}) bool {
	for i := range o.K {
		if o.K[i] == k {
			o.V[i] = v
			return true
		}
	}
	return false
}

func c13RenameKey(o *jobj, idx int, nk string) { o.K[idx] = nk }

var c13Breaks = []c13Break{
	{"advanced-rule-cluster-not-in-cluster-conf", func(g *vkit.Rand, w *c13World) bool {
		rs := c13RouteRules(w, "ProductRule")
		if len(rs) == 0 {
			return false
		}
		return rs[g.Intn(len(rs))].replace("ClusterName", "cluster_missing")
	}},
	{"basic-rule-cluster-not-in-cluster-conf", func(g *vkit.Rand, w *c13World) bool {
		rs := c13RouteRules(w, "BasicRule")
		if len(rs) == 0 {
			return false
		}
		return rs[g.Intn(len(rs))].replace("ClusterName", "cluster_missing")
	}},
	{"advanced-rule-product-not-in-host-table", func(g *vkit.Rand, w *c13World) bool {
		t, _ := w.Files[fRoute].(*jobj).get("ProductRule").(*jobj)
		if t == nil || len(t.K) == 0 {
			return false
		}
		c13RenameKey(t, g.Intn(len(t.K)), "product_missing")
		return true
	}},
	{"basic-rule-product-not-in-host-table", func(g *vkit.Rand, w *c13World) bool {
		t, _ := w.Files[fRoute].(*jobj).get("BasicRule").(*jobj)
		if t == nil || len(t.K) == 0 {
			return false
		}
		c13RenameKey(t, g.Intn(len(t.K)), "product_missing")
		return true
	}},
	{"default-product-not-in-host-table", func(g *vkit.Rand, w *c13World) bool {
		h := w.Files[fHost].(*jobj)
		if !h.replace("DefaultProduct", "product_missing") {
			h.set("DefaultProduct", "product_missing")
		}
		return true
	}},
	{"vip-product-not-in-host-table", func(g *vkit.Rand, w *c13World) bool {
		v := w.Files[fVip].(*jobj).get("Vips").(*jobj)
		if len(v.K) == 0 {
			v.set("product_missing", []interface{}{"10.1.2.3"})
			return true
		}
		c13RenameKey(v, g.Intn(len(v.K)), "product_missing")
		return true
	}},
	{"gslb-cluster-not-in-cluster-table", func(g *vkit.Rand, w *c13World) bool {
		c := w.Files[fCTable].(*jobj).get("Config").(*jobj)
		if len(c.K) == 0 {
			return false
		}
		c13RenameKey(c, g.Intn(len(c.K)), "cluster_missing")
		return true
	}},
	{"gslb-cluster-empty-in-cluster-table", func(g *vkit.Rand, w *c13World) bool {
		// cluster present but without any sub-cluster: exists, so not a dangling
		// reference by the letter of the statement; observed and counted only
		c := w.Files[fCTable].(*jobj).get("Config").(*jobj)
		if len(c.K) == 0 {
			return false
		}
		c.V[g.Intn(len(c.K))] = obj()
		return true
	}},
	{"cluster-conf-drops-cluster", func(g *vkit.Rand, w *c13World) bool {
		// remove a cluster that route rules may use
		c := w.Files[fCluster].(*jobj).get("Config").(*jobj)
		if len(c.K) == 0 {
			return false
		}
		i := g.Intn(len(c.K))
		c.K = append(c.K[:i], c.K[i+1:]...)
		c.V = append(c.V[:i], c.V[i+1:]...)
		return true
	}},
}

func c13ClosureCase(r *vkit.Run, g *vkit.Rand, base *c13World, fs *fileSet) {
	b := c13Breaks[g.Intn(len(c13Breaks))]
	w := base.clone()
	if !b.fn(g, w) {
		r.Count("b_break_not_applicable", 1)
		return
	}
	texts := w.texts()
	c13WriteAll(fs, texts)
	var l *c13Loaded
	if r.Try(func() interface{} { return texts }, func() { l = c13LoadAll(fs) }) {
		return
	}
	var kinds []string
	if r.Try(func() interface{} { return texts }, func() { kinds = c13Closure(fs, l) }) {
		return
	}
	accepted := "rejected"
	if (l.sdcErr == nil && !strings.HasPrefix(b.name, "gslb")) || (l.balErr == nil && strings.HasPrefix(b.name, "gslb")) {
		accepted = "accepted"
	}
	r.Count("b_"+b.name+"_"+accepted, 1)
	for _, k := range kinds {
		r.Violation("closure:"+k, fmt.Sprintf("accepted file set has a dangling reference (%s); break applied by the generator: %s", k, b.name),
			map[string]interface{}{"mode": "closure", "break": b.name, "files": texts})
	}
	r.CaseS("b|"+b.name+"|"+texts[fHost]+texts[fVip]+texts[fRoute]+texts[fCluster]+texts[fGslb]+texts[fCTable], true)
}

// ------------------------------------------------------------ (c) totality

type c13Mut struct {
	File   string   `json:"file"`
	Ops    []string `json:"ops"`
	Tree   bool     `json:"tree"` // still well-formed JSON (structure-level mutation only)
	Absent bool     `json:"absent"`
}

// all nodes of a tree as (parent, index) slots
type c13Slot struct {
	obj *jobj
	arr []interface{}
	i   int
}

func (s c13Slot) get() interface{} {
	if s.obj != nil {
		return s.obj.V[s.i]
	}
	return s.arr[s.i]
}

func (s c13Slot) put(v interface{}) {
	if s.obj != nil {
		s.obj.V[s.i] = v
	} else {
		s.arr[s.i] = v
	}
}

func c13Slots(v interface{}, out *[]c13Slot) {
	switch x := v.(type) {
	case *jobj:
		for i := range x.V {
			*out = append(*out, c13Slot{obj: x, i: i})
			c13Slots(x.V[i], out)
		}
	case []interface{}:
		for i := range x {
			*out = append(*out, c13Slot{arr: x, i: i})
			c13Slots(x[i], out)
		}
	}
}

func c13Objects(v interface{}, out *[]*jobj) {
	switch x := v.(type) {
	case *jobj:
		*out = append(*out, x)
		for i := range x.V {
			c13Objects(x.V[i], out)
		}
	case []interface{}:
		for i := range x {
			c13Objects(x[i], out)
		}
	}
}

func c13Strings(v interface{}, out *[]string) {
	switch x := v.(type) {
	case string:
		*out = append(*out, x)
	case *jobj:
		*out = append(*out, x.K...)
		for i := range x.V {
			c13Strings(x.V[i], out)
		}
	case []interface{}:
		for i := range x {
			c13Strings(x[i], out)
		}
	}
}

var c13WrongValues = []interface{}{
	nil, true, false, 0, -1, 1, jraw("1.5"), jraw("1e30"), jraw("-1e30"), jraw("9223372036854775808"), jraw("-9223372036854775809"),
	jraw("2147483648"), jraw("-2147483649"), jraw("4294967296"), "", "x", "*", "*.", ".", "ADVANCED_MODE", "GSLB_BLACKHOLE", "\x00", "a\u0000b", "é", strings.Repeat("A", 5000),
	"default_t(", "req_host_in(", "!!", "a && ", "req_host_in(\"a\") &&", "req_vip_in(\"x\")", "bfe_time_range(\"1\",\"2\")", "req_path_regmatch(\"(\")",
	"256.1.1.1", "::", "1.2.3.4/8", "[::1]", "http", "HTTP", "udp",
}

var c13OddStrings = []interface{}{"", "x", "*", "*.", ".", "*.*.com", "a..b", "ADVANCED_MODE", "GSLB_BLACKHOLE", "a\u0000b", "é", "A.B.C", "/", "//", "/*", "/a*", "*/a", "**",
	"default_t(", "req_host_in(", "!!", "a && ", "req_host_in(\"a\") &&", "req_vip_in(\"x\")", "bfe_time_range(\"1\",\"2\")", "req_path_regmatch(\"(\")", "default_t() default_t()",
	"256.1.1.1", "::", "1.2.3.4/8", "[::1]", "http", "HTTP", "udp", "tcp", "h2c", "WLC", "wrr", "Cookie:", ":", "5xx|", "|", "abc"}

var c13OddNumbers = []interface{}{0, -1, 1, 2, 3, 4, 31, 32, 99, 100, 101, 599, 600, 65535, 65536, jraw("1.5"), jraw("1e3"), jraw("1e30"), jraw("-1e30"), jraw("9223372036854775807"), jraw("9223372036854775808"),
	jraw("-9223372036854775808"), jraw("2147483647"), jraw("2147483648"), jraw("-2147483649"), jraw("4294967296"), jraw("-0")}

// c13NearValue keeps the JSON type of old so that the decoder is passed and the
// Check functions are reached.
func c13NearValue(g *vkit.Rand, old interface{}) interface{} {
	switch x := old.(type) {
	case string:
		return c13OddStrings[g.Intn(len(c13OddStrings))]
	case jraw, int:
		return c13OddNumbers[g.Intn(len(c13OddNumbers))]
	case bool:
		return !x
	case []interface{}:
		switch g.Intn(3) {
		case 0:
			return []interface{}{}
		case 1:
			return append(append([]interface{}{}, x...), nil)
		default:
			return append(append([]interface{}{}, x...), x...)
		}
	case *jobj:
		if len(x.K) > 0 && g.Bool() {
			o := clone(x).(*jobj)
			o.set(g.PickS([]string{"", "GSLB_BLACKHOLE", "ADVANCED_MODE", "x", o.K[0]}), clone(o.V[0]))
			return o
		}
		return obj()
	}
	return c13WrongValue(g)
}

func c13WrongValue(g *vkit.Rand) interface{} {
	switch g.Intn(8) {
	case 0:
		return []interface{}{}
	case 1:
		return obj()
	case 2:
		return []interface{}{nil}
	case 3:
		return obj("k", nil)
	case 4:
		return []interface{}{[]interface{}{}, obj(), "s", 1}
	default:
		return c13WrongValues[g.Intn(len(c13WrongValues))]
	}
}

// c13MutateTree applies one structural mutation; returns its name ("" = none).
func c13MutateTree(g *vkit.Rand, root *interface{}, pool []string) string {
	var slots []c13Slot
	c13Slots(*root, &slots)
	var objs []*jobj
	c13Objects(*root, &objs)
	op := g.Intn(14)
	switch {
	case op == 0:
		*root = c13WrongValue(g)
		return "root-replaced"
	case len(slots) == 0:
		return ""
	}
	s := slots[g.Intn(len(slots))]
	switch op {
	case 1, 2:
		s.put(nil)
		return "set-null"
	case 3:
		s.put(c13WrongValue(g))
		return "wrong-value"
	case 4, 5:
		s.put(c13NearValue(g, s.get()))
		return "near-value"
	case 6:
		if s.obj != nil {
			o := s.obj
			o.K = append(o.K[:s.i], o.K[s.i+1:]...)
			o.V = append(o.V[:s.i], o.V[s.i+1:]...)
			return "delete-key"
		}
		s.put(nil)
		return "null-element"
	case 7:
		if s.obj != nil {
			s.obj.set(s.obj.K[s.i], c13WrongValue(g))
			return "duplicate-key"
		}
		s.put([]interface{}{s.get()})
		return "nest-element"
	case 8:
		if s.obj != nil {
			k := s.obj.K[s.i]
			switch g.Intn(4) {
			case 0:
				k = strings.ToLower(k)
			case 1:
				k = strings.ToUpper(k)
			case 2:
				k = ""
			default:
				k = k + "x"
			}
			s.obj.K[s.i] = k
			return "rename-key"
		}
		s.put(c13NearValue(g, s.get()))
		return "near-value"
	case 9:
		// retarget a string to another string of the file set
		if _, ok := s.get().(string); ok && len(pool) > 0 {
			s.put(pool[g.Intn(len(pool))])
			return "retarget-string"
		}
		s.put(c13NearValue(g, s.get()))
		return "near-value"
	case 10:
		// grow an array with a null / a copy / a wrong value
		if a, ok := s.get().([]interface{}); ok {
			switch g.Intn(3) {
			case 0:
				a = append(a, nil)
			case 1:
				if len(a) > 0 {
					a = append(a, clone(a[0]))
				} else {
					a = append(a, "x")
				}
			default:
				a = append(a, c13WrongValue(g))
			}
			s.put(a)
			return "array-append"
		}
		s.put(c13NearValue(g, s.get()))
		return "near-value"
	case 11:
		// numbers: boundary values
		if _, ok := s.get().(jraw); ok {
			s.put(c13OddNumbers[g.Intn(len(c13OddNumbers))])
			return "number-boundary"
		}
		s.put(c13NearValue(g, s.get()))
		return "near-value"
	case 12:
		if len(objs) > 0 {
			o := objs[g.Intn(len(objs))]
			o.set(g.PickS([]string{"", "Version", "Config", "x", "Hosts", "Clusters"}), c13WrongValue(g))
			return "add-key"
		}
		return ""
	default:
		// empty a container
		switch s.get().(type) {
		case *jobj:
			s.put(obj())
			return "empty-object"
		case []interface{}:
			s.put([]interface{}{})
			return "empty-array"
		}
		s.put(c13NearValue(g, s.get()))
		return "near-value"
	}
}

func c13MutateBytes(g *vkit.Rand, s string) (string, string) {
	b := []byte(s)
	switch g.Intn(6) {
	case 0:
		if len(b) > 0 {
			return string(b[:g.Intn(len(b))]), "truncate"
		}
		return "", "truncate"
	case 1:
		if len(b) > 0 {
			i := g.Intn(len(b))
			return string(append(b[:i:i], b[i+1:]...)), "delete-byte"
		}
		return "", "delete-byte"
	case 2:
		i := g.Intn(len(b) + 1)
		ins := g.PickS([]string{"{", "}", "[", "]", ",", ":", "\"", "\\", "\x00", "null", "\xff\xfe", " 1e999 "})
		return string(b[:i]) + ins + string(b[i:]), "insert-token"
	case 3:
		return "", "empty-file"
	case 4:
		return strings.Repeat("[", 20000), "deep-nesting"
	default:
		return s + s, "doubled"
	}
}

func c13SingleLoader(name, path string) error {
	var err error
	switch name {
	case fHost:
		_, err = host_rule_conf.HostRuleConfLoad(path)
	case fVip:
		_, err = vip_rule_conf.VipRuleConfLoad(path)
	case fRoute:
		_, err = route_rule_conf.RouteConfLoad(path)
	case fCluster:
		_, err = cluster_conf.ClusterConfLoad(path)
	case fGslb:
		_, err = gslb_conf.GslbConfLoad(path)
	case fCTable:
		_, err = cluster_table_conf.ClusterTableLoad(path)
	}
	return err
}

type c13Witness struct {
	Mode  string            `json:"mode"`
	Mut   c13Mut            `json:"mutation"`
	Files map[string]string `json:"files"`
	// othersOnDisk: the caller has already written every file but Mut.File to the file set
	othersOnDisk bool
}

// c13Exercise loads one (possibly malformed) file set through every loader and,
// where accepted, through a few lookups. Everything runs under r.Try.
func c13Exercise(r *vkit.Run, wit *c13Witness, fs *fileSet, hosts []string) (singleErr error, l *c13Loaded) {
	desc := func() interface{} { return wit }
	for _, n := range c13FileNames {
		if n == wit.Mut.File && wit.Mut.Absent || n != wit.Mut.File && wit.othersOnDisk {
			continue
		}
		fs.write(n, wit.Files[n])
	}
	if wit.Mut.Absent {
		os.Remove(fs.path(wit.Mut.File)) // the mutated file does not exist at all
	}
	r.WriteAhead(wit)
	if wit.Mut.File != "" {
		if r.Try(desc, func() { singleErr = c13SingleLoader(wit.Mut.File, fs.path(wit.Mut.File)) }) {
			return nil, nil
		}
	}
	if r.Try(desc, func() { l = c13LoadAll(fs) }) {
		return singleErr, nil
	}
	// post-load smoke: an accepted configuration must be usable without a crash
	r.Try(desc, func() {
		if l.sdcErr == nil {
			for _, h := range hosts {
				pr := probeReq{Host: h, Path: "/a/b", Vip: "10.0.0.1", Client: "10.2.3.4"}
				req := pr.build()
				l.sdc.HostTable.Lookup(req)
			}
			if l.balErr == nil {
				l.bal.SetGslbBasic(l.sdc.ClusterTable)
				l.bal.SetSlowStart(l.sdc.ClusterTable)
			}
		}
		if l.balErr == nil {
			st := l.bal.GetState()
			for c := range st.Balancers {
				if b, err := l.bal.Lookup(c); err == nil {
					for k := 0; k < 3; k++ {
						pr := probeReq{Host: "a.example.org", Path: "/", Client: fmt.Sprintf("10.2.3.%d", k+1)}
						b.Balance(pr.build())
					}
				}
			}
		}
	})
	return singleErr, l
}

func c13TotalityCase(r *vkit.Run, g *vkit.Rand, base *c13World, fs *fileSet) {
	w := base.clone()
	file := c13FileNames[g.Intn(len(c13FileNames))]
	mut := c13Mut{File: file, Tree: true}
	var pool []string
	for _, n := range c13FileNames {
		c13Strings(w.Files[n], &pool)
	}
	root := w.Files[file]
	for n := g.Range(1, 3); n > 0; n-- {
		if op := c13MutateTree(g, &root, pool); op != "" {
			mut.Ops = append(mut.Ops, op)
		}
	}
	w.Files[file] = root
	texts := w.texts()
	if g.Chance(1, 5) {
		var op string
		texts[file], op = c13MutateBytes(g, texts[file])
		mut.Ops = append(mut.Ops, op)
		mut.Tree = false
	} else if g.Chance(1, 40) {
		mut.Absent = true
		mut.Ops = append(mut.Ops, "absent-file")
		mut.Tree = false
	}
	wit := &c13Witness{Mode: "totality", Mut: mut, Files: texts}
	singleErr, l := c13Exercise(r, wit, fs, base.Hosts)
	changed := texts[file] != render(base.Files[file])
	r.CaseS("c|"+file+"|"+texts[file], mut.Tree && changed)
	if l == nil {
		r.Count("c_panicked", 1)
		return
	}
	if singleErr != nil {
		r.Count("c_rejected_"+file, 1)
	} else {
		r.Count("c_accepted_"+file, 1)
	}
	for _, op := range mut.Ops {
		r.Count("c_op_"+op, 1)
	}
	if r.WantSample() && mut.Tree && changed && singleErr != nil {
		r.Sample(map[string]interface{}{"file": file, "ops": mut.Ops, "content": truncStr(texts[file], 600), "loader_error": singleErr.Error()})
	}
}

func truncStr(s string, n int) string {
	if len(s) > n {
		return s[:n] + "..."
	}
	return s
}

func c13(r *vkit.Run) {
	r.SetRule("worlds = complete file sets (host_rule, vip_rule, route_rule incl. BasicRule, cluster_conf, gslb, cluster_table) generated from the documented formats: every documented optional field present with p=2/3 and a documented value (Protocol http|fcgi, Schem http|tcp as in the examples, StatusCode 100-599, HashStrategy 0-2 with HashHeader whenever the strategy uses the client id, BalanceMode WRR, gslb weights summing to 100 incl. GSLB_BLACKHOLE, >=1 backend with positive weight per sub-cluster), conditions from a list of documented expressions, half of the worlds with basic rules targeting ADVANCED_MODE. (a) each world must be accepted by LoadServerDataConf and BalTable.Init. (b) one reference of a world is broken (rule cluster, rule product, default product, vip product, gslb cluster without cluster_table entry, cluster dropped from cluster_conf); if the loaders accept, the structures they parsed are walked for dangling references. (c) one file of a world gets 1-3 structure-aware mutations (null, wrong type, boundary numbers, deleted/duplicated/renamed keys, retargeted strings, grown/emptied containers, replaced root) and in 1/5 of the cases a byte-level corruption (truncate, delete byte, stray token, empty, 20000-deep nesting, doubled), 1/40 absent file; the single loader, LoadServerDataConf, BalTable.Init and - when accepted - a few Lookup/Balance calls run under recover. Module rule files: see rule_module_rule_files. Non-trivial = (b) every case, (c) well-formed JSON that differs from the original; distinct = file contents." + c13XrefRule + c13NullRule)
	r.Assume("'documented format' is the grammar above, derived from docs/en_us/configuration/** and docs/zh_cn/introduction/route.md; BasicRule's JSON shape (Hostname[], Path[], ClusterName) is taken from the loader's struct because no document shows it")
	if r.Replay != "" {
		if c13ModReplay(r) { // witness of a module rule file (c13mod.go)
			return
		}
		if c13XrefReplay(r) { // witness of the cross-reference family (c13xref.go)
			return
		}
		var w c13Witness
		if err := loadReplayCase(r, &w); err != nil {
			r.Inconclusive(err.Error())
			return
		}
		fs := newFileSet("c13", "replay")
		defer fs.remove()
		r.SetMinDistinct(0)
		r.Evals(1)
		switch w.Mode {
		case "totality":
			c13Exercise(r, &w, fs, []string{"a.x.com", "example.org"})
			c13ExerciseMore(r, &w, fs)
		default:
			c13WriteAll(fs, w.Files)
			var l *c13Loaded
			if r.Try(func() interface{} { return w }, func() { l = c13LoadAll(fs) }) {
				return
			}
			if w.Mode == "acceptance" {
				if l.sdcErr != nil {
					sig := "reject-documented:" + c13ErrClass(l.sdcErr)
					if strings.Contains(w.Files[fRoute], `"`+route.AdvancedMode+`"`) {
						sig = "reject-documented:basic-rule-ADVANCED_MODE"
					}
					r.Violation(sig, l.sdcErr.Error(), w)
				}
				if l.balErr != nil {
					r.Violation("reject-documented:bal:"+c13ErrClass(l.balErr), l.balErr.Error(), w)
				}
			} else {
				for _, k := range c13Closure(fs, l) {
					r.Violation("closure:"+k, "accepted file set has a dangling reference: "+k, w)
				}
			}
		}
		return
	}
	nWorlds := r.N(300, 4000)
	// per world: 1 acceptance + 3 closure breaks + 7 mutations
	vkit.Parallel(nWorlds, 0, func(i int) {
		g := r.Rng("world", i)
		w := c13GenWorld(g, i%2 == 0)
		fs := newFileSet("c13", i)
		defer fs.remove()
		l := c13Acceptance(r, w, fs)
		texts := w.texts()
		r.CaseS("a|"+texts[fHost]+texts[fVip]+texts[fRoute]+texts[fCluster]+texts[fGslb]+texts[fCTable], true)
		if l != nil && l.sdcErr == nil && l.balErr == nil {
			// the unbroken, accepted world must be closed as well
			for _, k := range c13Closure(fs, l) {
				r.Violation("closure:"+k, "accepted documented file set has a dangling reference: "+k, map[string]interface{}{"mode": "closure", "files": texts})
			}
			r.Count("b_unbroken_closed", 1)
		}
		for k := 0; k < 3; k++ {
			c13ClosureCase(r, g.Fork(), w, fs)
		}
		for k := 0; k < 7; k++ {
			c13TotalityCase(r, g.Fork(), w, fs)
		}
	})
	if r.Counter("a_accepted_server_data") == 0 || r.Counter("a_accepted_bal") == 0 {
		r.Inconclusive("no documented world was accepted at all")
	}
	for _, b := range c13Breaks {
		if r.Counter("b_"+b.name+"_accepted")+r.Counter("b_"+b.name+"_rejected") == 0 {
			r.Inconclusive("closure break never exercised: " + b.name)
		}
	}
	for _, n := range c13FileNames {
		if r.Counter("c_rejected_"+n) == 0 {
			r.Inconclusive("no mutated " + n + " was rejected: mutator too weak")
		}
	}
	c13XrefFamily(r)     // one broken cross-reference among many valid siblings, K loads each (c13xref.go)
	c13NullCoreFamily(r) // enumerated whole-document / member replacements, every entry point (c13null.go)
	c13Modules(r)        // module rule files (c13mod.go)
}
