package main

import (
	"encoding/json"
	"fmt"
	"net"
	"net/url"
	"strings"

	"github.com/bfenetworks/bfe/bfe_basic"
	"github.com/bfenetworks/bfe/bfe_http"
	"github.com/bfenetworks/bfe/bfe_route"
	"github.com/bfenetworks/bfe/bfe_util"

	"verifharness/ref/route"
	"verifharness/vkit"
)

// C10, reload family: the chain of the statement is evaluated against the tables in
// force for the REQUEST. A connection is accepted while tables T1 are in force: its
// bfe_basic.Session is populated exactly the way bfe_server.newConn does it
// (bfe_util.GetVipPort on a connection implementing AddressFetcher -> Session.Vip /
// Session.Vport; Session.Product = T1.HostTable.LookupProductByVip(vip.String()) when
// that succeeds). Requests on that kept-alive connection are then resolved the way
// bfe_server.findProduct does it - req.SvrDataConf.(*ServerDataConf).HostTable.
// LookupHostTagAndProduct(req) - first with T1 as the request's snapshot, then, after a
// "reload", with T2. Reference = ref/route.Resolve on the table of the snapshot with the
// session's VIP address; whatever the session cached at accept time is not an input of
// the statement.

// c10Conn is a client connection that arrived through a layer-4 balancer (it implements
// bfe_util.AddressFetcher like a PROXY-protocol connection). vaddr == nil: VIP unknown.
type c10Conn struct {
	net.Conn
	vaddr *net.TCPAddr
}

func (c *c10Conn) RemoteAddr() net.Addr {
	return &net.TCPAddr{IP: net.ParseIP("192.0.2.7"), Port: 40000}
}
func (c *c10Conn) LocalAddr() net.Addr { return &net.TCPAddr{IP: net.ParseIP("127.0.0.1"), Port: 8080} }
func (c *c10Conn) VirtualAddr() net.Addr {
	if c.vaddr == nil {
		return nil
	}
	return c.vaddr
}
func (c *c10Conn) BalancerAddr() net.Addr { return nil }

// c10Accept mirrors bfe_server.newConn as far as the session is concerned.
func c10Accept(sdc *bfe_route.ServerDataConf, vip string) *bfe_basic.Session {
	conn := &c10Conn{}
	if vip != "" {
		conn.vaddr = &net.TCPAddr{IP: net.ParseIP(vip), Port: 443}
	}
	ses := bfe_basic.NewSession(conn)
	v, vport, err := bfe_util.GetVipPort(conn)
	if err == nil {
		ses.Vip = v
		ses.Vport = vport
		if product, err := sdc.HostTable.LookupProductByVip(v.String()); err == nil {
			ses.Product = product
		}
	}
	return ses
}

// c10Request is one request read from the connection of ses while sdc is in force.
func c10Request(ses *bfe_basic.Session, sdc *bfe_route.ServerDataConf, host string) *bfe_basic.Request {
	hr := &bfe_http.Request{
		Method:     "GET",
		Host:       host,
		URL:        &url.URL{Path: "/"},
		Header:     make(bfe_http.Header),
		RequestURI: "/",
	}
	return bfe_basic.NewRequest(hr, ses.Connection, bfe_basic.NewRequestStat(ses.StartTime), ses, sdc)
}

type c10ReloadPair struct {
	Shape string    `json:"shape"`
	T1    *c10Table `json:"t1"`
	T2    *c10Table `json:"t2"`
	Vip   string    `json:"edited_vip,omitempty"`  // the VIP the edit is about
	Host  string    `json:"edited_host,omitempty"` // the host the edit is about
}

type c10ReloadProbe struct {
	Host string `json:"host"`
	Vip  string `json:"vip"` // VIP the connection arrived on ("" = unknown)
	Kind string `json:"kind"`
}

func (t *c10Table) clone() *c10Table {
	b, _ := json.Marshal(t)
	c := &c10Table{}
	json.Unmarshal(b, c)
	return c
}

func (t *c10Table) vipProduct(v string) string {
	for _, pv := range t.Vips {
		for _, x := range pv.Items {
			if net.ParseIP(x).Equal(net.ParseIP(v)) {
				return pv.Product
			}
		}
	}
	return ""
}

func (t *c10Table) removeVip(v string) {
	var out []c10ProdList
	for _, pv := range t.Vips {
		var keep []string
		for _, x := range pv.Items {
			if !net.ParseIP(x).Equal(net.ParseIP(v)) {
				keep = append(keep, x)
			}
		}
		if len(keep) > 0 { // a product left without VIP is not listed at all
			out = append(out, c10ProdList{Product: pv.Product, Items: keep})
		}
	}
	t.Vips = out
}

func (t *c10Table) addVip(product, v string) {
	for i := range t.Vips {
		if t.Vips[i].Product == product {
			t.Vips[i].Items = append(t.Vips[i].Items, v)
			return
		}
	}
	t.Vips = append(t.Vips, c10ProdList{Product: product, Items: []string{v}})
}

func (t *c10Table) products() []string {
	var ps []string
	for _, pt := range t.Tags {
		ps = append(ps, pt.Product)
	}
	return ps
}

func (t *c10Table) otherProduct(g *vkit.Rand, not string) string {
	var c []string
	for _, p := range t.products() {
		if p != not {
			c = append(c, p)
		}
	}
	return g.PickS(c)
}

func (t *c10Table) addHost(tag, h string) {
	for i := range t.Hosts {
		if t.Hosts[i].Tag == tag {
			t.Hosts[i].Hosts = append(t.Hosts[i].Hosts, h)
			return
		}
	}
	t.Hosts = append(t.Hosts, c10TagHosts{Tag: tag, Hosts: []string{h}})
}

// loadHostVip is load() without rewriting the two constant files for every load.
func (t *c10Table) loadHostVip(fs *fileSet) (*bfe_route.ServerDataConf, error) {
	if !fs.c10Static {
		fs.write(fRoute, emptyRoute)
		fs.write(fCluster, emptyCluster)
		fs.c10Static = true
	}
	return bfe_route.LoadServerDataConf(fs.write(fHost, t.hostJSON()), fs.write(fVip, t.vipJSON()), fs.path(fRoute), fs.path(fCluster))
}

// c10ReloadBase is a C10 table with >= 2 products and >= 1 VIP.
func c10ReloadBase(g *vkit.Rand) *c10Table {
	t := c10GenTable(g)
	if len(t.Tags) < 2 {
		// a product whose host-tag has no host names yet (documented; accepted by the loader)
		t.Tags = append(t.Tags, c10ProdList{Product: "prodZ", Items: []string{"tagZ"}})
	}
	n := 0
	for _, pv := range t.Vips {
		n += len(pv.Items)
	}
	if n == 0 {
		t.addVip(t.Tags[g.Intn(len(t.Tags))].Product, g.PickS(c10VipPool))
	}
	return t
}

var c10ReloadShapes = []string{
	"control-same-tables",
	"vip-moved-to-other-product",
	"vip-removed-default-present",
	"vip-removed-no-default",
	"vip-added",
	"vip-table-emptied",
	"vips-swapped-between-products",
	"default-changed",
	"default-removed",
	"default-added",
	"host-added",
	"host-removed",
}

const c10FreshHost = "fresh.reload-probe.example"

// c10ReloadGen derives (T1, T2) of one shape from a base table.
func c10ReloadGen(g *vkit.Rand, base *c10Table, shape string) *c10ReloadPair {
	t1, t2 := base.clone(), base.clone()
	p := &c10ReloadPair{Shape: shape, T1: t1, T2: t2}
	var vips []string
	for _, pv := range t1.Vips {
		vips = append(vips, pv.Items...)
	}
	v := g.PickS(vips)
	owner := t1.vipProduct(v)
	switch shape {
	case "control-same-tables":
		p.Vip = v
	case "vip-moved-to-other-product":
		p.Vip = v
		t2.removeVip(v)
		t2.addVip(t2.otherProduct(g, owner), v)
	case "vip-removed-default-present":
		p.Vip = v
		t2.removeVip(v)
		t2.Default = t2.otherProduct(g, owner)
	case "vip-removed-no-default":
		p.Vip = v
		t2.removeVip(v)
		t2.Default, t2.DefaultNull = "", g.Bool()
	case "vip-added":
		p.Vip = v
		t1.removeVip(v)
		if g.Bool() {
			// and another product than the default gets it
			t2.removeVip(v)
			t2.addVip(t2.otherProduct(g, t2.Default), v)
		}
	case "vip-table-emptied":
		p.Vip = v
		t2.Vips = nil
		if g.Bool() {
			t2.Default = t2.otherProduct(g, owner)
		}
	case "vips-swapped-between-products":
		// v goes to another product, and that product's VIP (an unused address) comes to owner
		p.Vip = v
		other := t2.otherProduct(g, owner)
		w := ""
		for _, c := range c10VipPool {
			if t1.vipProduct(c) == "" {
				w = c
				break
			}
		}
		if w != "" {
			t1.addVip(other, w)
			t2.addVip(owner, w)
		}
		t2.removeVip(v)
		t2.addVip(other, v)
	case "default-changed":
		if t1.Default == "" {
			t1.Default = t1.products()[g.Intn(len(t1.products()))]
		}
		t2.Default = t2.otherProduct(g, t1.Default)
	case "default-removed":
		if t1.Default == "" {
			t1.Default = t1.products()[g.Intn(len(t1.products()))]
		}
		t2.Default, t2.DefaultNull = "", g.Bool()
	case "default-added":
		t1.Default, t1.DefaultNull = "", g.Bool()
		t2.Default = t2.products()[g.Intn(len(t2.products()))]
	case "host-added":
		// a host unknown at accept time is configured under a product other than the VIP's
		p.Vip, p.Host = v, c10FreshHost
		other := t2.otherProduct(g, owner)
		for _, pt := range t2.Tags {
			if pt.Product == other {
				t2.addHost(pt.Items[g.Intn(len(pt.Items))], c10FreshHost)
			}
		}
	case "host-removed":
		p.Vip, p.Host = v, c10FreshHost
		other := t1.otherProduct(g, owner)
		for _, pt := range t1.Tags {
			if pt.Product == other {
				t1.addHost(pt.Items[g.Intn(len(pt.Items))], c10FreshHost)
			}
		}
	}
	return p
}

// c10ReloadProbes: request hosts (unknown to both tables, the edited host, a few derived
// from T2's entries) x connection VIPs (edited VIP, other listed VIPs, unlisted, unknown).
func c10ReloadProbes(g *vkit.Rand, p *c10ReloadPair) (hosts []c10ReloadProbe, vips []string) {
	for _, h := range []string{"unknown.reload-probe.example", "", "198.51.100.9:8080", "zz.unknown.reload-probe.example.:443"} {
		hosts = append(hosts, c10ReloadProbe{Host: h, Kind: "unknown-host"})
	}
	if p.Host != "" {
		hosts = append(hosts, c10ReloadProbe{Host: p.Host, Kind: "edited-host"}, c10ReloadProbe{Host: strings.ToUpper(p.Host) + ":80", Kind: "edited-host"})
	}
	d := c10DeriveHosts(g, p.T2)
	for k := 0; k < 10 && len(d) > 0; k++ {
		x := d[g.Intn(len(d))]
		hosts = append(hosts, c10ReloadProbe{Host: x.Host, Kind: "derived-" + x.Kind})
	}
	seen := map[string]bool{}
	add := func(v string) {
		n := v
		if v != "" {
			n = net.ParseIP(v).String()
		}
		if !seen[n] {
			seen[n] = true
			vips = append(vips, n)
		}
	}
	if p.Vip != "" {
		add(p.Vip)
	}
	for _, t := range []*c10Table{p.T1, p.T2} {
		for _, pv := range t.Vips {
			for _, v := range pv.Items {
				if len(vips) < 4 {
					add(v)
				}
			}
		}
	}
	add("203.0.113.77")
	add("")
	return hosts, vips
}

// c10ReloadJudge compares one lookup with the reference on table t (reference rt).
// phase is "before-reload" or "after-reload". It returns the deciding link and whether
// the product cached in the session differs from the reference product.
func c10ReloadJudge(r *vkit.Run, p *c10ReloadPair, phase string, rt *route.HostTable, sdc *bfe_route.ServerDataConf,
	ses *bfe_basic.Session, pr c10ReloadProbe) (link string, cachedDiffers bool) {
	want := rt.Resolve(pr.Host, ses.Vip)
	req := c10Request(ses, sdc, pr.Host)
	var err error
	wit := func() interface{} {
		return map[string]interface{}{"reload": p, "probe": pr, "phase": phase}
	}
	if r.Try(wit, func() {
		// bfe_server.findProduct
		serverConf := req.SvrDataConf.(*bfe_route.ServerDataConf)
		err = serverConf.HostTable.LookupHostTagAndProduct(req)
	}) {
		return want.Link, false
	}
	gotProduct, gotTag := req.Route.Product, req.Route.HostTag
	bad := ""
	switch {
	case want.Link == route.LinkNone:
		if err == nil {
			bad = fmt.Sprintf("reference: no product (rejected); bfe: product %q", gotProduct)
		}
	case err != nil:
		bad = fmt.Sprintf("reference: product %q via %s; bfe: error %v", want.Product, want.Link, err)
	case gotProduct != want.Product:
		bad = fmt.Sprintf("reference: product %q via %s; bfe: product %q", want.Product, want.Link, gotProduct)
	case (want.Link == route.LinkExact || want.Link == route.LinkWildcard) && gotTag != want.Tag:
		bad = fmt.Sprintf("product %q agrees but host-tag differs: reference %q, bfe %q", want.Product, want.Tag, gotTag)
	}
	if (err != nil) != (req.Route.Error != nil) {
		bad = fmt.Sprintf("returned error %v but req.Route.Error=%v", err, req.Route.Error)
	}
	cachedDiffers = ses.Product != want.Product
	if bad != "" {
		sig := fmt.Sprintf("host-product:%s:%s:want-%s", phase, p.Shape, want.Link)
		if phase == "after-reload" && err == nil && ses.Product != "" && gotProduct == ses.Product && cachedDiffers {
			sig = fmt.Sprintf("host-product:stale-session-product:%s:want-%s", p.Shape, want.Link)
		}
		r.Violation(sig, fmt.Sprintf("%s (%s): host %q on a connection that arrived on vip %q (Session.Product cached at accept = %q): %s", phase, p.Shape, pr.Host, pr.Vip, ses.Product, bad),
			map[string]interface{}{"reload": p, "probe": pr, "phase": phase, "want": want, "got_product": gotProduct, "got_tag": gotTag, "got_err": errStr(err), "session_product": ses.Product})
	}
	return want.Link, cachedDiffers
}

// c10ReloadRun evaluates one pair: accept on every VIP under T1, requests under T1, then
// the same sessions' requests under T2.
func c10ReloadRun(r *vkit.Run, g *vkit.Rand, p *c10ReloadPair, fs *fileSet, only *c10ReloadProbe) {
	var sdc1, sdc2 *bfe_route.ServerDataConf
	var e1, e2 error
	if r.Try(func() interface{} { return p }, func() {
		sdc1, e1 = p.T1.loadHostVip(fs)
		sdc2, e2 = p.T2.loadHostVip(fs)
	}) {
		return
	}
	if e1 != nil || e2 != nil {
		r.Violation("load-rejected-valid", fmt.Sprintf("generated host/vip tables of a reload pair (%s) follow the documented format but were rejected: %v / %v", p.Shape, e1, e2), map[string]interface{}{"reload": p})
		return
	}
	rt1, rt2 := p.T1.ref(), p.T2.ref()
	hosts, vips := c10ReloadProbes(g, p)
	if only != nil {
		hosts, vips = []c10ReloadProbe{*only}, []string{only.Vip}
	}
	key := fmt.Sprintf("%016x", vkit.Hash64(p.T1.hostJSON(), p.T1.vipJSON(), p.T2.hostJSON(), p.T2.vipJSON()))
	links := map[string]int64{}
	var differs, sesWithProduct int64
	for _, v := range vips {
		ses := c10Accept(sdc1, v) // connection accepted while T1 is in force
		if ses.Product != "" {
			sesWithProduct++
		}
		nBefore := 0
		for _, h := range hosts {
			// requests before the reload: the hosts that reach the VIP / default / none links
			// (all hosts in the control shape, where before == after)
			if h.Kind != "unknown-host" && h.Kind != "edited-host" && p.Shape != "control-same-tables" {
				continue
			}
			h.Vip = v
			c10ReloadJudge(r, p, "before-reload", rt1, sdc1, ses, h)
			nBefore++
		}
		r.Evals(int64(nBefore))
		for _, h := range hosts { // reload happened; the connection is still open
			h.Vip = v
			link, d := c10ReloadJudge(r, p, "after-reload", rt2, sdc2, ses, h)
			links[link]++
			if d {
				differs++
			}
			r.CaseS("reload|"+key+"|"+h.Host+"|"+v, d)
			if d && p.Shape != "control-same-tables" && link != route.LinkExact && link != route.LinkWildcard && r.WantSample() && g.Chance(1, 40) {
				r.Sample(map[string]interface{}{"family": "reload", "shape": p.Shape, "host_file_at_accept": p.T1.hostJSON(), "vip_file_at_accept": p.T1.vipJSON(),
					"host_file_at_request": p.T2.hostJSON(), "vip_file_at_request": p.T2.vipJSON(), "probe": h, "session_product_cached_at_accept": ses.Product, "decided_by": link})
			}
		}
	}
	for l, c := range links {
		r.Count("reload_link_"+l, c)
		r.Count("reload_"+p.Shape+"_link_"+l, c)
	}
	r.Count("reload_pairs_"+p.Shape, 1)
	r.Count("reload_sessions_with_cached_product", sesWithProduct)
	r.Count("reload_cached_product_differs_"+p.Shape, differs)
}

const c10ReloadRule = " RELOAD FAMILY: pairs (T1 at accept, T2 at request) derived from a table with >=2 products and >=1 VIP by one edit: none (control), VIP moved to another product, VIP removed (default present / absent), VIP added, VIP table emptied, VIPs swapped between products, default product changed / removed / added, host added / removed. A bfe_basic.Session is built per connection VIP (edited VIP, up to 3 other listed VIPs, an unlisted VIP, unknown VIP) the way bfe_server.newConn does (GetVipPort on an AddressFetcher connection; Session.Product = T1.LookupProductByVip when found); requests (4 unknown hosts, the edited host, 10 hosts derived from T2's entries) on that session are resolved the way findProduct does (req.SvrDataConf.HostTable.LookupHostTagAndProduct) first with snapshot T1 then with snapshot T2. Oracle: ref/route.Resolve on the snapshot's table with the session's VIP; the product cached in the session is not an input. Non-trivial (reload) = after-reload probe whose reference product differs from the product cached in the session; a shape whose probes never had that is inconclusive."

// c10Reload is the reload family of C10.
func c10Reload(r *vkit.Run) {
	nb := r.N(120, 2400)
	vkit.Parallel(nb, 0, func(i int) {
		g := r.Rng("reload-base", i)
		base := c10ReloadBase(g)
		fs := newFileSet("c10reload", i)
		defer fs.remove()
		for _, shape := range c10ReloadShapes {
			p := c10ReloadGen(g.Fork(), base, shape)
			c10ReloadRun(r, g.Fork(), p, fs, nil)
		}
	})
	for _, s := range c10ReloadShapes {
		if r.Counter("reload_pairs_"+s) == 0 {
			r.Inconclusive("reload shape never evaluated: " + s)
		}
		if s != "control-same-tables" && r.Counter("reload_cached_product_differs_"+s) == 0 {
			r.Inconclusive("reload shape never produced a probe whose reference product differs from the session's cached product: " + s)
		}
	}
	for _, l := range []string{route.LinkExact, route.LinkWildcard, route.LinkVip, route.LinkDefault, route.LinkNone} {
		if r.Counter("reload_link_"+l) == 0 {
			r.Inconclusive("reload family: chain link never decided an after-reload probe: " + l)
		}
	}
	for _, s := range []string{"vip-moved-to-other-product", "vips-swapped-between-products", "vip-added"} {
		if r.Counter("reload_"+s+"_link_"+route.LinkVip) == 0 {
			r.Inconclusive("reload shape " + s + ": the VIP link never decided")
		}
	}
	if r.Counter("reload_vip-removed-default-present_link_"+route.LinkDefault) == 0 || r.Counter("reload_vip-removed-no-default_link_"+route.LinkNone) == 0 {
		r.Inconclusive("reload shapes vip-removed-*: default / no-product link never decided")
	}
}
