package main

import (
	"encoding/json"
	"fmt"
	"math/big"

	"github.com/bfenetworks/bfe/bfe_balance/backend"
	"github.com/bfenetworks/bfe/bfe_balance/bal_gslb"
	"github.com/bfenetworks/bfe/bfe_balance/bal_slb"
	"github.com/bfenetworks/bfe/bfe_config/bfe_cluster_conf/cluster_table_conf"
	"github.com/bfenetworks/bfe/bfe_config/bfe_cluster_conf/gslb_conf"

	"verifharness/vkit"
)

// C04: in weighted-least-connection mode the chosen backend minimises
// connNum/weight among the eligible backends (ties only among the minimum).
// Oracle: exact rational comparison (big.Int cross-multiplication) over the
// snapshot taken under the balancer's mutex immediately before the call.

type c04Step struct {
	Conn []int  `json:"conn"` // target connection count per backend before the pick
	Down []bool `json:"down"`
	Alg  int    `json:"alg"`
}

type c04Case struct {
	Via      string    `json:"via"` // rr | gslb
	Backends []bspec   `json:"backends"`
	Steps    []c04Step `json:"steps"`
	Class    string    `json:"class"`
}

func c04SetConn(b *backend.BfeBackend, target int) {
	for cur := b.ConnNum(); cur < target; cur++ {
		b.IncConnNum()
	}
	for cur := b.ConnNum(); cur > target; cur-- {
		b.DecConnNum()
	}
}

// c04Less reports conn(a)/w(a) < conn(b)/w(b) exactly (weights > 0).
func c04Cmp(a, b bal_slb.VerifBackend) int {
	l := new(big.Int).Mul(big.NewInt(int64(a.ConnNum)), big.NewInt(int64(b.Weight)))
	rr := new(big.Int).Mul(big.NewInt(int64(b.ConnNum)), big.NewInt(int64(a.Weight)))
	return l.Cmp(rr)
}

func c04Overflows(s *bal_slb.VerifRR) bool {
	lim := new(big.Int).Lsh(big.NewInt(1), 63)
	for _, a := range s.Backends {
		for _, b := range s.Backends {
			if !eligible(a) || !eligible(b) {
				continue
			}
			p := new(big.Int).Mul(big.NewInt(int64(a.ConnNum)), big.NewInt(int64(b.Weight)))
			if p.CmpAbs(lim) >= 0 {
				return true
			}
		}
	}
	return false
}

func c04Run(r *vkit.Run, c *c04Case) {
	desc := func() interface{} { return c }
	nontriv := false
	try(r, desc, func() {
		var brr *bal_slb.BalanceRR
		var bal *bal_gslb.BalanceGslb
		snapshot := func() bal_slb.VerifRR {
			if brr != nil {
				return brr.VerifSnapshot()
			}
			s := bal.VerifSnapshot()
			return subByName(&s, "sub").RR
		}
		if c.Via == "rr" {
			brr = bal_slb.NewBalanceRR("sub")
			brr.Init(confOf(c.Backends))
		} else {
			bal = bal_gslb.NewBalanceGslb("cl")
			if err := bal.Init(gslb_conf.GslbClusterConf{"sub": 100}); err != nil {
				r.Violation("init-rejected-valid", err.Error(), c)
				return
			}
			bal.BackendInit(cluster_table_conf.ClusterBackend{"sub": confOf(c.Backends)})
			bal.SetGslbBasic(gbasic{RetryMax: 1, CrossRetry: 0, Mode: "WLC", Strategy: 1}.conf())
		}
		for si, st := range c.Steps {
			s0 := snapshot()
			for i, b := range s0.Backends {
				c04SetConn(b.Backend, st.Conn[i])
				b.Backend.SetAvail(!st.Down[i])
			}
			snap := snapshot()
			var got *backend.BfeBackend
			var err error
			an := "gslb-WLC"
			if brr != nil {
				an = algNames[st.Alg]
				got, err = brr.Balance(st.Alg, nil)
			} else {
				req := reqSpec{IP: []byte{10, 9, byte(si >> 8), byte(si)}}.build(gbasic{Strategy: 1})
				got, err = bal.Balance(req)
			}
			var elig []bal_slb.VerifBackend
			for _, b := range snap.Backends {
				if eligible(b) {
					elig = append(elig, b)
				}
			}
			if len(elig) == 0 {
				r.Count("steps_none_eligible", 1)
				continue // error iff none eligible is C03's subject
			}
			if err != nil || got == nil {
				r.Count("steps_error_with_eligible", 1)
				continue // C03
			}
			ch := inRR(&snap, got)
			if ch == nil || !eligible(*ch) {
				r.Count("steps_ineligible_pick", 1)
				continue // C03
			}
			r.Count("picks", 1)
			ties, better := 0, -1
			for i, x := range elig {
				switch c04Cmp(x, *ch) {
				case -1:
					better = i
				case 0:
					ties++
				}
			}
			if ties >= 2 {
				r.Count("picks_with_ties", 1)
			}
			if len(elig) >= 2 && ties < len(elig) {
				nontriv = true
			}
			ovf := c04Overflows(&snap)
			if ovf {
				r.Count("picks_product_beyond_int64", 1)
			}
			if better >= 0 {
				sig := "not-minimal:" + an
				if ovf {
					// one defect (the int cross-multiplication), whatever the entry point
					sig = "not-minimal:conn-times-weight-beyond-int64"
				}
				x := elig[better]
				r.Violation(sig, fmt.Sprintf("step %d: picked %s with conn/weight = %d/%d but %s has %d/%d", si, got.Name, ch.ConnNum, ch.Weight, x.Backend.Name, x.ConnNum, x.Weight),
					map[string]interface{}{"case": c, "step": si, "picked": got.Name, "smaller": x.Backend.Name, "snapshot": c03RRView(&snap)})
				return
			}
		}
	})
	kb, _ := json.Marshal(c)
	r.CaseS(string(kb), nontriv)
	r.Count("class_"+c.Class, 1)
	r.Count("via_"+c.Via, 1)
	if r.WantSample() && nontriv && len(c.Backends) >= 3 && c.Class == "small" {
		r.Sample(c)
	}
}

func c04Gen(r *vkit.Run, i int) *c04Case {
	g := r.Rng("case", i)
	c := &c04Case{Via: "rr"}
	if g.Chance(1, 4) {
		c.Via = "gslb"
	}
	n := g.Range(1, 7)
	c.Class = []string{"small", "small", "proportional", "large", "huge-weight"}[g.Intn(5)]
	if c.Class == "huge-weight" && !g.Chance(1, 4) {
		c.Class = "small"
	}
	for k := 0; k < n; k++ {
		w := g.Range(1, 6)
		switch c.Class {
		case "large":
			w = g.Range(1, 1000000)
		case "huge-weight":
			// weight*100*conn crosses 2^63: outside anything operational, own signature
			w = 1 << uint(g.Range(42, 48))
			if g.Bool() {
				w = g.Range(1, 10)
			}
		}
		if g.Chance(1, 10) {
			w = 0
		} else if g.Chance(1, 20) {
			w = -g.Range(1, 3)
		}
		c.Backends = append(c.Backends, bspec{Name: fmt.Sprintf("b%d", k), Addr: fmt.Sprintf("10.2.0.%d", k+1), Port: 80, Weight: w})
	}
	nsteps := g.Range(3, 10)
	conn := make([]int, n)
	for s := 0; s < nsteps; s++ {
		st := c04Step{Conn: make([]int, n), Down: make([]bool, n)}
		if c.Via == "rr" {
			st.Alg = []int{bal_slb.WlcSmooth, bal_slb.WlcSimple}[g.Intn(2)]
		}
		for k := 0; k < n; k++ {
			w := c.Backends[k].Weight
			switch c.Class {
			case "small":
				conn[k] = g.Intn(8)
			case "proportional":
				// conn proportional to weight -> many exact ties and near ties
				if w > 0 {
					conn[k] = w*g.Range(0, 3) + []int{0, 0, 0, 1, -1}[g.Intn(5)]
				} else {
					conn[k] = g.Intn(4)
				}
				if conn[k] < 0 {
					conn[k] = 0
				}
			case "large":
				conn[k] = g.Intn(3000)
			case "huge-weight":
				conn[k] = g.Intn(1 << 16)
			}
			st.Conn[k] = conn[k]
			st.Down[k] = g.Chance(1, 8)
		}
		c.Steps = append(c.Steps, st)
	}
	return c
}

func c04(r *vkit.Run) {
	r.SetRule("cases = 1-7 backends (weights 1..6 / up to 1e6 / proportional classes with many exact ties / a rare class with weights 2^42..2^48 where conn*weight*100 leaves int64; some weight 0 or negative, some unavailable) x 3-10 steps; before each step the connection counts are driven to generated values (0..7, proportional to weight +-1, up to 3000, up to 2^16) with IncConnNum/DecConnNum; algorithms WlcSmooth and WlcSimple on BalanceRR and WLC through BalanceGslb. The pick must satisfy conn(pick)*w(x) <= conn(x)*w(pick) for every eligible x (big.Int). Steps with no eligible backend or an erroneous result are left to C03. Non-trivial = a step with >=2 eligible backends that are not all tied; distinct = whole case." + c04EligRule)
	r.Assume("connection counts are non-negative (a negative count is C07's subject)")
	if r.Replay != "" {
		var w struct {
			Case json.RawMessage `json:"case"`
			E    *c04ECase       `json:"ecase"` // eligibility dimension (c04elig.go)
		}
		if err := r.LoadReplay(&w); err != nil {
			r.Inconclusive(err.Error())
			return
		}
		if w.E == nil && len(w.Case) > 0 {
			var in struct {
				E *c04ECase `json:"ecase"`
			}
			if json.Unmarshal(w.Case, &in) == nil {
				w.E = in.E
			}
		}
		if w.E != nil {
			c04ERun(r, w.E)
		} else {
			var c c04Case
			if err := json.Unmarshal(w.Case, &c); err != nil {
				r.Inconclusive(err.Error())
				return
			}
			c04Run(r, &c)
		}
		r.SetMinDistinct(0)
		return
	}
	n := r.N(5000, 100000)
	vkit.Parallel(n, 0, func(i int) { c04Run(r, c04Gen(r, i)) })
	for _, k := range []string{"picks", "picks_with_ties", "via_rr", "via_gslb"} {
		if r.Counter(k) == 0 {
			r.Inconclusive("the workload never reached " + k)
		}
	}
	c04Elig(r)
}
