package main

import (
	"encoding/json"
	"fmt"

	"github.com/bfenetworks/bfe/bfe_balance/backend"
	"github.com/bfenetworks/bfe/bfe_balance/bal_gslb"
	"github.com/bfenetworks/bfe/bfe_balance/bal_slb"
	"github.com/bfenetworks/bfe/bfe_config/bfe_cluster_conf/cluster_table_conf"
	"github.com/bfenetworks/bfe/bfe_config/bfe_cluster_conf/gslb_conf"

	"verifharness/vkit"
)

// C04, ELIGIBILITY dimension: the minimum (and the tie set) is taken among the
// ELIGIBLE backends only. Every configuration mixes eligible backends with
// ineligible ones whose connection counts are adversarial: an ineligible
// backend with 0 connections (for weight 0 the cross-multiplied comparison
// conn(best)*0 vs conn(b)*w(best) says "equal" exactly then), or with a
// conn/weight equal to / smaller than the eligible minimum (unavailable
// backends). WlcSimple breaks ties at random, therefore every configuration is
// asked c04EPicks times without changing anything in between; one ineligible
// backend returned once is a violation.

const c04EPicks = 16

type c04EB struct {
	Spec bspec  `json:"spec"` // final configuration (Weight = configured weight)
	Kind string `json:"kind"` // eligible | weight0-init | weight0-reload | weight0-added-by-reload | negative-weight | unavailable | unavailable-weight0
	Pre  int    `json:"pre"`  // configured weight before the reload (Reload only; -1000 = not configured before the reload)
	Conn int    `json:"conn"`
	Adv  string `json:"adv"` // generator's intent for an ineligible backend: zero | equal | better | random
}

type c04ECase struct {
	Via    string  `json:"via"` // rr | gslb
	Alg    int     `json:"alg"` // rr only
	Shape  string  `json:"shape"`
	B      []c04EB `json:"b"`
	Reload bool    `json:"reload"`
	Warm   int     `json:"warm"` // selections before the reload
	Picks  int     `json:"picks"`
}

const c04EAbsent = -1000

func c04EIneligibleKind(c *c04ECase, b *bal_slb.VerifBackend) string {
	if b == nil {
		return "not-in-list"
	}
	for _, x := range c.B {
		if x.Spec.Name == b.Backend.Name {
			if x.Kind == "eligible" {
				break
			}
			return x.Kind
		}
	}
	// model says eligible (or unknown): describe what the snapshot shows
	switch {
	case !b.Avail && b.Weight <= 0:
		return "unavailable-weight0"
	case !b.Avail:
		return "unavailable"
	case b.Weight == 0:
		return "weight0"
	}
	return "negative-weight"
}

func c04ERun(r *vkit.Run, c *c04ECase) {
	desc := func() interface{} { return map[string]interface{}{"ecase": c} }
	nontriv := false
	try(r, desc, func() {
		var brr *bal_slb.BalanceRR
		var bal *bal_gslb.BalanceGslb
		snapshot := func() bal_slb.VerifRR {
			if brr != nil {
				return brr.VerifSnapshot()
			}
			s := bal.VerifSnapshot()
			return subByName(&s, "sub").RR
		}
		nreq := 0
		balance := func() (*backend.BfeBackend, error) {
			if brr != nil {
				return brr.Balance(c.Alg, nil)
			}
			nreq++
			req := reqSpec{IP: []byte{10, 8, byte(nreq >> 8), byte(nreq)}}.build(gbasic{Strategy: 1})
			return bal.Balance(req)
		}
		an := "gslb-WLC"
		if c.Via == "rr" {
			an = algNames[c.Alg]
		}
		var first, final []bspec
		for _, b := range c.B {
			final = append(final, b.Spec)
			if !c.Reload {
				continue
			}
			if b.Pre != c04EAbsent {
				s := b.Spec
				s.Weight = b.Pre
				first = append(first, s)
			}
		}
		if !c.Reload {
			first = final
		}
		if c.Via == "rr" {
			brr = bal_slb.NewBalanceRR("sub")
			brr.Init(confOf(first))
		} else {
			bal = bal_gslb.NewBalanceGslb("cl")
			if err := bal.Init(gslb_conf.GslbClusterConf{"sub": 100}); err != nil {
				r.Violation("init-rejected-valid", err.Error(), desc())
				return
			}
			bal.BackendInit(cluster_table_conf.ClusterBackend{"sub": confOf(first)})
			bal.SetGslbBasic(gbasic{RetryMax: 1, CrossRetry: 0, Mode: "WLC", Strategy: 1}.conf())
		}
		if c.Reload {
			for k := 0; k < c.Warm; k++ {
				if got, err := balance(); err == nil && got != nil {
					got.IncConnNum() // the smooth credit / connection state is not pristine at the reload
				}
			}
			if brr != nil {
				brr.Update(confOf(final))
			} else {
				bal.BackendReload(cluster_table_conf.ClusterBackend{"sub": confOf(final)})
			}
		}
		s0 := snapshot()
		for _, b := range s0.Backends {
			for _, x := range c.B {
				if x.Spec.Name == b.Backend.Name {
					c04SetConn(b.Backend, x.Conn)
					b.Backend.SetAvail(x.Kind != "unavailable" && x.Kind != "unavailable-weight0")
				}
			}
		}
		seen := map[string]bool{}
		for p := 0; p < c.Picks; p++ {
			snap := snapshot()
			got, err := balance()
			var elig []bal_slb.VerifBackend
			for _, b := range snap.Backends {
				if eligible(b) {
					elig = append(elig, b)
				}
			}
			if p == 0 {
				c04EShape(r, c, an, &snap, elig, &nontriv)
			}
			witness := func() interface{} {
				return map[string]interface{}{"ecase": c, "pick": p, "picked": nameOrNil(got), "alg": an, "snapshot": c03RRView(&snap)}
			}
			if len(elig) == 0 {
				r.Count("elig_picks_none_eligible", 1)
				if got != nil {
					k := c04EIneligibleKind(c, inRR(&snap, got))
					r.Violation("ineligible-chosen:"+k, fmt.Sprintf("%s pick %d: no backend is eligible, yet %s (%s) was returned instead of an error", an, p, got.Name, k), witness())
					return
				}
				if err == nil {
					r.Violation("none-eligible:neither-backend-nor-error", fmt.Sprintf("%s pick %d: no backend is eligible; Balance returned (nil, nil)", an, p), witness())
					return
				}
				continue
			}
			if err != nil || got == nil {
				r.Count("elig_picks_error_with_eligible", 1) // C03's subject
				continue
			}
			ch := inRR(&snap, got)
			if ch == nil || !eligible(*ch) {
				k := c04EIneligibleKind(c, ch)
				conn, w := -1, 0
				if ch != nil {
					conn, w = ch.ConnNum, ch.Weight
				}
				r.Violation("ineligible-chosen:"+k, fmt.Sprintf("%s pick %d of %d on an unchanged state: returned %s (%s, effective weight %d, %d connections) although %d eligible backends exist", an, p, c.Picks, got.Name, k, w, conn, len(elig)), witness())
				return
			}
			r.Count("elig_picks", 1)
			seen[got.Name] = true
			for _, x := range elig {
				if c04Cmp(x, *ch) < 0 {
					r.Violation("not-minimal:"+an, fmt.Sprintf("%s pick %d (list with ineligible backends): picked %s with conn/weight = %d/%d but eligible %s has %d/%d", an, p, got.Name, ch.ConnNum, ch.Weight, x.Backend.Name, x.ConnNum, x.Weight), witness())
					return
				}
			}
		}
		if len(seen) >= 2 {
			r.Count("elig_cfg_several_tied_members_returned", 1)
		}
	})
	kb, _ := json.Marshal(c)
	r.CaseS("elig:"+string(kb), nontriv)
	r.Count("elig_cases", 1)
	r.Count("elig_via_"+c.Via, 1)
	if c.Reload {
		r.Count("elig_cases_with_reload", 1)
	}
	if r.WantSample() && nontriv && c.Shape == "tie" && len(c.B) <= 5 {
		r.Sample(map[string]interface{}{"ecase": c})
	}
}

func nameOrNil(b *backend.BfeBackend) string {
	if b == nil {
		return "<nil>"
	}
	return b.Name
}

// c04EShape counts, from the snapshot the balancer sees, which shapes the
// configuration has (the generator's intent is not trusted for that).
func c04EShape(r *vkit.Run, c *c04ECase, an string, snap *bal_slb.VerifRR, elig []bal_slb.VerifBackend, nontriv *bool) {
	if len(elig) == 0 {
		r.Count("elig_cfg_none_eligible", 1)
		r.Count("elig_cfg_none_eligible_"+an, 1)
		return
	}
	min := elig[0]
	for _, x := range elig[1:] {
		if c04Cmp(x, min) < 0 {
			min = x
		}
	}
	atMin := 0
	for _, x := range elig {
		if c04Cmp(x, min) == 0 {
			atMin++
		}
	}
	tie := "notie"
	switch {
	case len(elig) == 1:
		tie = "single"
	case atMin >= 2:
		tie = "tie"
	}
	if min.ConnNum == 0 {
		r.Count("elig_cfg_min_is_zero_conns", 1)
	} else {
		r.Count("elig_cfg_min_is_positive", 1)
	}
	r.Count("elig_cfg_"+tie, 1)
	r.Count("elig_cfg_"+tie+"_"+an, 1)
	firstInel, lastInel, adv := false, false, false
	for i, b := range snap.Backends {
		if eligible(b) {
			continue
		}
		if i == 0 {
			firstInel = true
		}
		if i == len(snap.Backends)-1 {
			lastInel = true
		}
		kind := c04EIneligibleKind(c, &snap.Backends[i])
		for _, x := range c.B {
			if x.Spec.Name == b.Backend.Name && x.Kind == "eligible" {
				r.Count("elig_model_mismatch", 1)
			}
		}
		r.Count("elig_inel_"+kind, 1)
		var rel string
		switch {
		case b.Weight <= 0 && b.ConnNum == 0:
			rel = "zero-conns" // compares "equal" to anything by cross-multiplication
		case b.Weight <= 0:
			rel = "some-conns"
		default:
			switch c04Cmp(b, min) {
			case -1:
				rel = "better"
			case 0:
				rel = "equal"
			default:
				rel = "worse"
			}
		}
		if rel == "zero-conns" || rel == "better" || rel == "equal" {
			adv = true
		}
		cls := "weight<=0-avail"
		if !b.Avail {
			cls = "unavailable"
		}
		r.Count("elig_shape_"+tie+"+"+cls+"-"+rel, 1)
		r.Count("elig_shape_"+tie+"+"+cls+"-"+rel+"_"+an, 1)
	}
	if firstInel {
		r.Count("elig_cfg_ineligible_first_in_list", 1)
	}
	if lastInel {
		r.Count("elig_cfg_ineligible_last_in_list", 1)
	}
	if len(elig) >= 2 && adv {
		*nontriv = true
	}
}

func c04EGen(r *vkit.Run, i int) *c04ECase {
	g := r.Rng("elig-case", i)
	c := &c04ECase{Via: "rr", Picks: c04EPicks}
	c.Alg = []int{bal_slb.WlcSimple, bal_slb.WlcSmooth}[i%2]
	if i%8 >= 6 {
		c.Via = "gslb"
		c.Alg = bal_slb.WlcSmooth // what BalanceGslb uses in WLC mode
	}
	c.Shape = []string{"tie", "tie", "tie", "tie", "tie", "notie", "notie", "notie", "single", "none-eligible"}[g.Intn(10)]
	// minimum level tn/td connections per unit of configured weight
	tn, td := []int{0, 0, 0, 1, 2, 5}[g.Intn(6)], 1
	if g.Chance(1, 4) {
		tn, td = []int{1, 3}[g.Intn(2)], 2
	}
	wOf := func() int {
		if td == 2 {
			return 2 * g.Range(1, 3)
		}
		return g.Range(1, 6)
	}
	ne, k := 0, 0
	switch c.Shape {
	case "tie":
		ne = g.Range(2, 5)
		k = g.Range(2, ne)
	case "notie":
		ne, k = g.Range(2, 4), 1
	case "single":
		ne, k = 1, 1
	}
	var bs []c04EB
	for e := 0; e < ne; e++ {
		w := wOf()
		b := c04EB{Kind: "eligible", Pre: w, Spec: bspec{Weight: w}}
		if e < k {
			b.Conn = tn * w / td
		} else {
			b.Conn = tn*w/td + g.Range(1, 4)
		}
		switch g.Intn(6) {
		case 0:
			b.Pre = 0 // drained before the reload, back in service now
		case 1:
			b.Pre = g.Range(1, 6)
		case 2:
			b.Pre = c04EAbsent
		}
		bs = append(bs, b)
	}
	ni := g.Range(1, 3)
	for e := 0; e < ni; e++ {
		b := c04EB{Pre: 0}
		b.Kind = []string{"weight0-init", "weight0-init", "weight0-reload", "weight0-reload", "weight0-added-by-reload", "negative-weight", "unavailable", "unavailable", "unavailable-weight0"}[g.Intn(9)]
		b.Adv = []string{"zero", "zero", "zero", "zero", "equal", "equal", "better", "random"}[g.Intn(8)]
		switch b.Kind {
		case "weight0-init", "unavailable-weight0":
			b.Spec.Weight = 0
		case "weight0-reload":
			b.Spec.Weight, b.Pre = 0, g.Range(1, 6)
		case "weight0-added-by-reload":
			b.Spec.Weight, b.Pre = 0, c04EAbsent
		case "negative-weight":
			b.Spec.Weight = -g.Range(1, 3)
			b.Pre = b.Spec.Weight
		case "unavailable":
			b.Spec.Weight = wOf()
			b.Pre = b.Spec.Weight
			if g.Chance(1, 4) {
				b.Pre = 0
			}
		}
		if w := b.Spec.Weight; w <= 0 {
			// "equal" and "better" do not exist for weight 0: 0 connections is the adversarial value
			if b.Adv == "random" {
				b.Conn = g.Range(1, 7)
			}
		} else {
			switch b.Adv {
			case "equal":
				b.Conn = tn * w / td
			case "better":
				if m := tn * w / td; m > 0 {
					b.Conn = g.Intn(m)
				}
			case "random":
				b.Conn = g.Intn(8)
			}
		}
		bs = append(bs, b)
	}
	// order in the list: mixed / an ineligible one first / an ineligible one last
	perm := g.Perm(len(bs))
	for _, p := range perm {
		c.B = append(c.B, bs[p])
	}
	if ne > 0 {
		at := func(want bool) int {
			for j, b := range c.B {
				if (b.Kind != "eligible") == want {
					return j
				}
			}
			return 0
		}
		switch g.Intn(4) {
		case 0:
			j := at(true)
			c.B[0], c.B[j] = c.B[j], c.B[0]
		case 1:
			j, l := at(true), len(c.B)-1
			c.B[l], c.B[j] = c.B[j], c.B[l]
		}
	}
	for j := range c.B {
		c.B[j].Spec.Name = fmt.Sprintf("e%d", j)
		c.B[j].Spec.Addr = fmt.Sprintf("10.4.0.%d", j+1)
		c.B[j].Spec.Port = 80
		if k := c.B[j].Kind; k == "weight0-reload" || k == "weight0-added-by-reload" {
			c.Reload = true
		}
	}
	if !c.Reload && g.Chance(1, 3) {
		c.Reload = true
	}
	if c.Reload {
		c.Warm = g.Intn(4)
		n := 0
		for _, b := range c.B {
			if b.Pre != c04EAbsent {
				n++
			}
		}
		if n == 0 { // a reload needs a first configuration
			c.B[0].Pre = 1
			if c.B[0].Kind == "weight0-added-by-reload" {
				c.B[0].Kind = "weight0-reload"
			}
		}
	} else {
		for j := range c.B {
			c.B[j].Pre = c.B[j].Spec.Weight
		}
	}
	return c
}

const c04EligRule = " ELIGIBILITY DIMENSION (c04elig.go; 2000 configurations, thorough 40000; WlcSimple / WlcSmooth on BalanceRR alternating, a quarter WLC through BalanceGslb): lists of 0-5 eligible backends (weights 1..6; the minimum level 0, 1/2, 1, 3/2, 2 or 5 connections per unit of weight; shapes: >=2 eligible tied at the minimum (half), unique minimum, a single eligible, none eligible) mixed with 1-3 INELIGIBLE backends: configured weight 0 from Init, weight set to 0 by a reload (BalanceRR.Update / BackendReload after 0-3 selections), weight-0 backend added by a reload, negative weight, unavailable with positive weight, unavailable with weight 0; eligible backends may have been weight 0 / another weight / absent before the reload. The ineligible backends' connection counts are adversarial: 0 connections (for effective weight 0 the cross-multiplied comparison says 'equal' to any backend exactly then), or for unavailable backends a conn/weight equal to or smaller than the eligible minimum; the rest random. An ineligible backend is forced to the head or the tail of the list in half of the cases. Tie-breaking in WlcSimple is random (math/rand, not controlled), therefore every configuration is asked 16 times with nothing changed in between and each answer is judged against the snapshot taken under the mutex just before: a returned backend that is unavailable or has effective weight <= 0 is a violation, even once (ineligible-chosen:<kind>; also when no backend is eligible: then only an error is acceptable, none-eligible:neither-backend-nor-error otherwise); the returned backend must satisfy conn(pick)*w(x) <= conn(x)*w(pick) for every ELIGIBLE x (not-minimal:<alg>). An error while an eligible backend exists is C03's subject (counted). Which tied member is returned is not judged. Shapes are counted from the snapshot, not from the generator's intent; the run is inconclusive if a tie / no-tie shape with an available weight<=0 backend holding 0 connections, with an unavailable backend equal / better than the minimum, a none-eligible configuration or a reload never occurred for WlcSimple and WlcSmooth. Non-trivial = >=2 eligible backends and an ineligible backend comparing equal or better than the eligible minimum; distinct = whole configuration"

func c04Elig(r *vkit.Run) {
	n := r.N(2000, 40000)
	vkit.Parallel(n, 0, func(i int) { c04ERun(r, c04EGen(r, i)) })
	need := []string{"elig_picks", "elig_via_rr", "elig_via_gslb", "elig_cases_with_reload", "elig_cfg_min_is_zero_conns", "elig_cfg_min_is_positive",
		"elig_cfg_ineligible_first_in_list", "elig_cfg_ineligible_last_in_list", "elig_cfg_several_tied_members_returned",
		"elig_inel_weight0-init", "elig_inel_weight0-reload", "elig_inel_weight0-added-by-reload", "elig_inel_negative-weight", "elig_inel_unavailable", "elig_inel_unavailable-weight0"}
	for _, an := range []string{"WlcSimple", "WlcSmooth", "gslb-WLC"} {
		need = append(need, "elig_cfg_none_eligible_"+an)
		for _, tie := range []string{"tie", "notie"} {
			need = append(need, "elig_cfg_"+tie+"_"+an,
				"elig_shape_"+tie+"+weight<=0-avail-zero-conns_"+an,
				"elig_shape_"+tie+"+unavailable-equal_"+an,
				"elig_shape_"+tie+"+unavailable-better_"+an)
		}
	}
	for _, k := range need {
		if r.Counter(k) == 0 {
			r.Inconclusive("the eligibility workload never reached " + k)
		}
	}
	if r.Counter("elig_model_mismatch") > 0 {
		r.Inconclusive("a backend the generator meant to be eligible was not eligible in the balancer's snapshot")
	}
}
