package main

import (
	"bytes"
	"encoding/json"
	"fmt"
	"net"
	"net/http"
	"runtime/pprof"
	"strings"
	"sync"
	"sync/atomic"
	"time"

	"github.com/bfenetworks/bfe/bfe_balance/backend"
	"github.com/bfenetworks/bfe/bfe_balance/bal_slb"
	"github.com/bfenetworks/bfe/bfe_config/bfe_cluster_conf/cluster_conf"

	"verifharness/vkit"
)

// C06: a backend leaves rotation exactly when its consecutive request
// failures reach FailNum; while out at most one health checker runs; it
// returns only after SuccNum consecutive successful checks; a released
// backend stops being checked.
//
// Oracle: a reference automaton (failNum, streak, avail) stepped over the
// event log. Health-check probes are received by a local HTTP server that
// PARKS every probe until the harness answers it, so probes are the only
// clock: every asserted Avail() read happens either while no checker exists or
// while the single checker is parked inside its probe. No wall-clock value
// enters a verdict; bounded waits only turn "nothing happened" into
// inconclusive.

type c06Probe struct {
	answer chan int // status to send
	stamp  int64
}

type c06Backend struct {
	ip         string
	mu         sync.Mutex
	inflight   int
	maxInfl    int
	total      int
	released   int64 // logical stamp after Release returned (0 = not released)
	late       int   // probes that arrived after released
	arrivals   chan *c06Probe
	autoStatus int // != 0: answer immediately
	overflow   int
}

type c06Server struct {
	ln    net.Listener
	port  int
	clock int64
	mu    sync.Mutex
	bks   map[string]*c06Backend
	stray int64
}

func (s *c06Server) tick() int64 { return atomic.AddInt64(&s.clock, 1) }

func (s *c06Server) register(ip string) *c06Backend {
	b := &c06Backend{ip: ip, arrivals: make(chan *c06Probe, 64)}
	s.mu.Lock()
	s.bks[ip] = b
	s.mu.Unlock()
	return b
}

func (s *c06Server) ServeHTTP(w http.ResponseWriter, r *http.Request) {
	la, _ := r.Context().Value(http.LocalAddrContextKey).(net.Addr)
	ip := ""
	if ta, ok := la.(*net.TCPAddr); ok {
		ip = ta.IP.String()
	}
	s.mu.Lock()
	b := s.bks[ip]
	s.mu.Unlock()
	if b == nil {
		atomic.AddInt64(&s.stray, 1)
		w.WriteHeader(500)
		return
	}
	p := &c06Probe{answer: make(chan int, 1), stamp: s.tick()}
	b.mu.Lock()
	b.total++
	b.inflight++
	if b.inflight > b.maxInfl {
		b.maxInfl = b.inflight
	}
	if b.released != 0 && p.stamp > b.released {
		b.late++
	}
	auto := b.autoStatus
	if auto == 0 {
		// queued under the lock, so that whoever sets autoStatus afterwards
		// is certain to find this probe when draining
		select {
		case b.arrivals <- p:
		default:
			auto = 500
			b.overflow++
		}
	}
	b.mu.Unlock()
	status := auto
	if auto == 0 {
		status = <-p.answer
	}
	b.mu.Lock()
	b.inflight--
	b.mu.Unlock()
	if status < 100 {
		status = 500
	}
	if status == 302 {
		w.Header().Set("Location", "/elsewhere")
	}
	w.WriteHeader(status)
}

// ---- scripts ----

type c06Step struct {
	Kind   string `json:"k"`           // fail | succ | read | probe | release
	Status int    `json:"s,omitempty"` // probe: HTTP status to answer
}

type c06Script struct {
	Index    int       `json:"index"`
	FailNum  int       `json:"fail_num"`
	SuccNum  int       `json:"succ_num"`
	Interval int       `json:"interval_ms"`
	Via      string    `json:"via"` // backend | rr
	Steps    []c06Step `json:"steps"`
}

type c06Ref struct {
	avail   bool
	failNum int
	streak  int
}

func c06Gen(r *vkit.Run, i int) *c06Script {
	g := r.Rng("script", i)
	sc := &c06Script{Index: i, FailNum: g.Range(1, 5), SuccNum: g.Range(1, 4), Interval: g.Range(1, 5), Via: "backend"}
	if g.Chance(1, 4) {
		sc.Via = "rr"
	}
	ref := c06Ref{avail: true}
	n := g.Range(8, 40)
	for k := 0; k < n; k++ {
		if ref.avail {
			switch x := g.Intn(10); {
			case x < 6:
				sc.Steps = append(sc.Steps, c06Step{Kind: "fail"})
				ref.failNum++
				if ref.failNum >= sc.FailNum {
					ref.avail, ref.streak = false, 0
				}
			case x < 9:
				sc.Steps = append(sc.Steps, c06Step{Kind: "succ"})
				ref.failNum = 0
			default:
				sc.Steps = append(sc.Steps, c06Step{Kind: "read"})
			}
			continue
		}
		switch x := g.Intn(20); {
		case x < 13:
			st := 200
			if g.Chance(3, 10) {
				st = []int{500, 404, 302, 204, 503}[g.Intn(5)]
			}
			sc.Steps = append(sc.Steps, c06Step{Kind: "probe", Status: st})
			if st == 200 {
				ref.streak++
			} else {
				ref.streak = 0
			}
			if ref.streak >= sc.SuccNum {
				ref = c06Ref{avail: true}
			}
		case x < 16:
			sc.Steps = append(sc.Steps, c06Step{Kind: "fail"})
		case x < 18:
			sc.Steps = append(sc.Steps, c06Step{Kind: "succ"})
		default:
			sc.Steps = append(sc.Steps, c06Step{Kind: "read"})
		}
	}
	sc.Steps = append(sc.Steps, c06Step{Kind: "release"})
	return sc
}

type c06Env struct {
	r     *vkit.Run
	srv   *c06Server
	confs sync.Map // cluster -> *cluster_conf.BackendCheck
}

func (e *c06Env) checkConf(cluster string, failNum, succNum, interval int) {
	schem, uri, host, code := "http", "/health/"+cluster, "", 200
	e.confs.Store(cluster, &cluster_conf.BackendCheck{Schem: &schem, Uri: &uri, Host: &host, StatusCode: &code,
		FailNum: &failNum, SuccNum: &succNum, CheckInterval: &interval})
}

const c06Wait = 15 * time.Second

// waitArrivalOrAvail waits until a probe arrives (returned) or Avail() turns
// true (nil, true). (nil, false) = neither within the bound.
func c06WaitArrivalOrAvail(b *backend.BfeBackend, sb *c06Backend, polls *int64) (*c06Probe, bool) {
	deadline := time.Now().Add(c06Wait)
	for {
		select {
		case p := <-sb.arrivals:
			return p, false
		case <-time.After(200 * time.Microsecond):
		}
		*polls++
		if b.Avail() {
			// a probe may have arrived just before: prefer reporting it
			select {
			case p := <-sb.arrivals:
				return p, true
			default:
			}
			return nil, true
		}
		if time.Now().After(deadline) {
			return nil, false
		}
	}
}

func c06IP(i int) string { return fmt.Sprintf("127.%d.%d.%d", 1+(i>>16)&63, (i>>8)&255, i&255) }

func c06Run(e *c06Env, sc *c06Script) {
	r := e.r
	cluster := fmt.Sprintf("c%d", sc.Index)
	ip := c06IP(sc.Index + 1)
	sb := e.srv.register(ip)
	e.checkConf(cluster, sc.FailNum, sc.SuccNum, sc.Interval)
	spec := bspec{Name: "hb-" + cluster, Addr: ip, Port: e.srv.port, Weight: 1}
	var b *backend.BfeBackend
	var brr *bal_slb.BalanceRR
	other := bspec{Name: "other-" + cluster, Addr: "127.0.0.2", Port: 9, Weight: 1}
	if sc.Via == "rr" {
		brr = bal_slb.NewBalanceRR(cluster)
		brr.Init(confOf([]bspec{spec, other}))
		for _, x := range brr.VerifSnapshot().Backends {
			if x.Backend.Name == spec.Name {
				b = x.Backend
			}
		}
	} else {
		b = backend.NewBfeBackend()
		b.Init("sub", spec.conf())
	}
	ref := c06Ref{avail: true}
	var parked *c06Probe
	failsWhileParked := 0
	var polls int64
	episodes, definite, probes := 0, 0, 0
	log := []string{}
	wit := func(step int) map[string]interface{} {
		return map[string]interface{}{"script": sc, "step": step, "ref_avail": ref.avail, "ref_fail_num": ref.failNum, "ref_streak": ref.streak, "events": log}
	}
	released := false
	finish := func() {
		// leave nothing parked and make any surviving checker visible
		sb.mu.Lock()
		sb.autoStatus = 500
		sb.mu.Unlock()
		if parked != nil {
			parked.answer <- 500
			parked = nil
		}
		for {
			select {
			case p := <-sb.arrivals:
				p.answer <- 500
				continue
			default:
			}
			break
		}
		if !released {
			if brr != nil {
				brr.Update(confOf([]bspec{other}))
			} else {
				b.Release()
			}
			sb.mu.Lock()
			sb.released = e.srv.tick()
			sb.mu.Unlock()
		}
	}
	defer finish()
	for i, st := range sc.Steps {
		switch st.Kind {
		case "fail", "succ":
			if st.Kind == "fail" {
				b.OnFail(cluster)
				log = append(log, "OnFail")
				ref.failNum++
				if parked != nil {
					failsWhileParked++
				}
				if ref.avail && ref.failNum >= sc.FailNum {
					ref.avail, ref.streak = false, 0
					episodes++
				}
			} else {
				b.OnSuccess()
				log = append(log, "OnSuccess")
				ref.failNum = 0
			}
			got := b.Avail()
			definite++
			if got != ref.avail {
				if got {
					r.Violation("still-in-rotation-at-threshold", fmt.Sprintf("step %d: %d consecutive failures reached FailNum=%d but Avail() is still true", i, ref.failNum, sc.FailNum), wit(i))
				} else {
					r.Violation("left-rotation-below-threshold", fmt.Sprintf("step %d: Avail() is false after %d consecutive failures, FailNum=%d", i, ref.failNum, sc.FailNum), wit(i))
				}
				return
			}
		case "read":
			got := b.Avail()
			definite++
			log = append(log, fmt.Sprintf("Avail=%v", got))
			if got != ref.avail {
				r.Violation("avail-differs-from-reference", fmt.Sprintf("step %d: Avail()=%v, reference %v", i, got, ref.avail), wit(i))
				return
			}
		case "probe":
			if ref.avail {
				continue // replay of an edited script: nothing to answer
			}
			if parked == nil {
				p, up := c06WaitArrivalOrAvail(b, sb, &polls)
				if p == nil && up {
					r.Violation("returned-early", fmt.Sprintf("step %d: back in rotation after a streak of %d successful checks, SuccNum=%d", i, ref.streak, sc.SuccNum), wit(i))
					return
				}
				if p == nil {
					r.Count("no_probe_within_bound", 1)
					r.Inconclusive(fmt.Sprintf("script %d step %d: backend is out of rotation but no health check arrived within %v", sc.Index, i, c06Wait))
					return
				}
				parked = p
			}
			// the single checker is parked inside its probe: this read is definite
			definite++
			if b.Avail() {
				r.Violation("in-rotation-while-checker-parked", fmt.Sprintf("step %d: Avail() is true while a health check is still outstanding (streak %d of %d)", i, ref.streak, sc.SuccNum), wit(i))
				return
			}
			if failsWhileParked > 0 {
				time.Sleep(time.Duration(3*sc.Interval) * time.Millisecond) // give a second checker, if any, time to show up
				failsWhileParked = 0
			}
			sb.mu.Lock()
			over := sb.maxInfl
			sb.mu.Unlock()
			if over > 1 {
				r.Violation("two-checkers", fmt.Sprintf("step %d: %d health checks outstanding at once for one backend", i, over), wit(i))
				return
			}
			parked.answer <- st.Status
			parked = nil
			probes++
			log = append(log, fmt.Sprintf("probe->%d", st.Status))
			if st.Status == 200 {
				ref.streak++
			} else {
				ref.streak = 0
			}
			p, up := c06WaitArrivalOrAvail(b, sb, &polls)
			if ref.streak >= sc.SuccNum {
				if p != nil {
					parked = p
					r.Violation("not-returned-after-succnum", fmt.Sprintf("step %d: %d consecutive successful checks (SuccNum=%d) but the checker sent another probe instead of returning the backend", i, ref.streak, sc.SuccNum), wit(i))
					return
				}
				if !up {
					r.Count("no_return_within_bound", 1)
					r.Inconclusive(fmt.Sprintf("script %d step %d: neither back in rotation nor a further probe within %v", sc.Index, i, c06Wait))
					return
				}
				ref = c06Ref{avail: true}
				log = append(log, "returned")
			} else {
				if p == nil && up {
					r.Violation("returned-early", fmt.Sprintf("step %d: back in rotation after a streak of %d successful checks, SuccNum=%d", i, ref.streak, sc.SuccNum), wit(i))
					return
				}
				if p == nil {
					r.Count("no_probe_within_bound", 1)
					r.Inconclusive(fmt.Sprintf("script %d step %d: no further health check within %v", sc.Index, i, c06Wait))
					return
				}
				if up {
					parked = p
					r.Violation("returned-early", fmt.Sprintf("step %d: back in rotation after a streak of %d successful checks, SuccNum=%d", i, ref.streak, sc.SuccNum), wit(i))
					return
				}
				parked = p
			}
		case "release":
			if brr != nil {
				brr.Update(confOf([]bspec{other}))
			} else {
				b.Release()
			}
			released = true
			sb.mu.Lock()
			sb.released = e.srv.tick()
			sb.mu.Unlock()
			log = append(log, "release")
			if !ref.avail {
				r.Count("released_while_out_of_rotation", 1)
			}
		}
	}
	kb, _ := json.Marshal(sc)
	r.CaseS(string(kb), episodes > 0 && probes > 0)
	r.Count("episodes_out_of_rotation", int64(episodes))
	r.Count("probes_answered", int64(probes))
	r.Count("definite_avail_reads", int64(definite))
	r.Count("wait_polls_not_asserted", polls)
	r.Count("via_"+sc.Via, 1)
	if r.WantSample() && episodes >= 2 {
		r.Sample(map[string]interface{}{"script": sc, "events": log})
	}
}

// c06Concurrent: N goroutines report failures at the same time around the
// threshold. Asserted: at most one checker (no two outstanding probes), and
// Avail()==false is only ever seen once FailNum OnFail calls have started.
func c06Concurrent(e *c06Env, idx int) {
	r := e.r
	g := r.Rng("conc", idx)
	failNum, succNum := g.Range(1, 5), g.Range(1, 3)
	workers, per := 8, g.Range(1, 3)
	cluster := fmt.Sprintf("k%d", idx)
	ip := c06IP(200000 + idx)
	sb := e.srv.register(ip)
	e.checkConf(cluster, failNum, succNum, g.Range(1, 3))
	b := backend.NewBfeBackend()
	b.Init("sub", bspec{Name: "cb-" + cluster, Addr: ip, Port: e.srv.port, Weight: 1}.conf())
	wit := map[string]interface{}{"fail_num": failNum, "succ_num": succNum, "goroutines": workers, "onfail_per_goroutine": per}
	var started int64
	var wg sync.WaitGroup
	stop := make(chan struct{})
	var early int64 = -1
	obs := make(chan struct{})
	go func() {
		defer close(obs)
		for {
			select {
			case <-stop:
				return
			default:
			}
			if !b.Avail() {
				if n := atomic.LoadInt64(&started); n < int64(failNum) {
					atomic.StoreInt64(&early, n)
				}
				return
			}
		}
	}()
	gate := make(chan struct{})
	for w := 0; w < workers; w++ {
		wg.Add(1)
		go func() {
			defer wg.Done()
			<-gate
			for k := 0; k < per; k++ {
				atomic.AddInt64(&started, 1)
				b.OnFail(cluster)
			}
		}()
	}
	close(gate)
	wg.Wait()
	close(stop)
	<-obs
	defer func() {
		sb.mu.Lock()
		sb.autoStatus = 500
		sb.mu.Unlock()
		for {
			select {
			case p := <-sb.arrivals:
				p.answer <- 500
				continue
			default:
			}
			break
		}
		b.Release()
		sb.mu.Lock()
		sb.released = e.srv.tick()
		sb.mu.Unlock()
	}()
	if n := atomic.LoadInt64(&early); n >= 0 {
		r.Violation("concurrent:left-rotation-below-threshold", fmt.Sprintf("Avail() was false when only %d OnFail calls had started, FailNum=%d", n, failNum), wit)
		return
	}
	total := workers * per
	if total >= failNum && b.Avail() {
		r.Violation("concurrent:still-in-rotation-at-threshold", fmt.Sprintf("%d concurrent failures completed, FailNum=%d, Avail() still true", total, failNum), wit)
		return
	}
	if total < failNum {
		r.Count("concurrent_below_threshold", 1)
		return
	}
	// one checker: let every checker that was started reach the server
	var polls int64
	p, up := c06WaitArrivalOrAvail(b, sb, &polls)
	if p == nil {
		if up {
			r.Violation("concurrent:returned-without-check", "back in rotation although no health check was answered", wit)
		} else {
			r.Inconclusive(fmt.Sprintf("concurrent case %d: no health check within %v", idx, c06Wait))
		}
		return
	}
	time.Sleep(15 * time.Millisecond)
	sb.mu.Lock()
	over := sb.maxInfl
	sb.mu.Unlock()
	if over > 1 {
		p.answer <- 500
		r.Violation("two-checkers:concurrent-failures", fmt.Sprintf("%d health checks outstanding at once for one backend after %d concurrent OnFail calls (FailNum=%d)", over, total, failNum), wit)
		return
	}
	for k := 0; k < succNum; k++ {
		p.answer <- 200
		p, up = c06WaitArrivalOrAvail(b, sb, &polls)
		if k < succNum-1 && p == nil {
			if up {
				r.Violation("concurrent:returned-early", fmt.Sprintf("back in rotation after %d of %d successful checks", k+1, succNum), wit)
			} else {
				r.Inconclusive(fmt.Sprintf("concurrent case %d: checker stalled", idx))
			}
			return
		}
		if k == succNum-1 && p != nil {
			p.answer <- 500
			r.Violation("concurrent:not-returned-after-succnum", fmt.Sprintf("%d successful checks (SuccNum) but another probe was sent", succNum), wit)
			return
		}
		if k == succNum-1 && !up {
			r.Inconclusive(fmt.Sprintf("concurrent case %d: neither back in rotation nor a further probe within %v", idx, c06Wait))
			return
		}
	}
	r.CaseS(fmt.Sprintf("conc|%d|%d|%d|%d", idx, failNum, succNum, per), true)
	r.Count("concurrent_cases", 1)
}

func c06CheckerGoroutines() (int, string) {
	var buf bytes.Buffer
	pprof.Lookup("goroutine").WriteTo(&buf, 2)
	n := 0
	var sample string
	for _, blk := range strings.Split(buf.String(), "\n\n") {
		if strings.Contains(blk, "bfe_balance/backend.check(") {
			n++
			if sample == "" {
				sample = blk
			}
		}
	}
	return n, sample
}

func c06(r *vkit.Run) {
	r.SetRule("sequential scripts of 8-40 steps over one backend (FailNum 1..5, SuccNum 1..4, CheckInterval 1..5 ms, HTTP checks expecting 200): OnFail / OnSuccess / Avail read while in rotation; while out of rotation the harness answers each parked health check with 200 or a failure (500, 503, 404, 302, 204; connection-level failures are not scripted because net/http transparently retries a GET whose reused connection was closed, so one check would span two probes), mixes in further OnFail/OnSuccess calls and reads, and finally releases the backend (Release, or BalanceRR.Update that drops it, for a quarter of the scripts). After every step the reference automaton's avail is compared with Avail(); after SuccNum consecutive 200s the backend must be back before any further probe; a probe answered earlier must be followed by another probe, not by a return. Plus concurrent cases: 8 goroutines x 1-3 OnFail calls at once around the threshold (at most one outstanding probe; Avail()==false only after FailNum calls started). At the end: <=1 probe per backend after its release and no goroutine left in backend.check. TCP-scheme checks are not scripted (a TCP connect cannot be parked). Non-trivial = script with >=1 out-of-rotation episode and >=1 answered probe; distinct = script")
	r.Assume("health-check configuration through backend.SetCheckConfFetcher (set once per process); checks go to 127.x.y.z addresses served by one local listener")
	ln, err := net.Listen("tcp4", "0.0.0.0:0")
	if err != nil {
		r.Inconclusive("cannot listen: " + err.Error())
		return
	}
	srv := &c06Server{ln: ln, port: ln.Addr().(*net.TCPAddr).Port, bks: map[string]*c06Backend{}}
	hs := &http.Server{Handler: srv}
	go hs.Serve(ln)
	e := &c06Env{r: r, srv: srv}
	backend.SetCheckConfFetcher(func(cluster string) *cluster_conf.BackendCheck {
		if v, ok := e.confs.Load(cluster); ok {
			return v.(*cluster_conf.BackendCheck)
		}
		return nil
	})
	if r.Replay != "" {
		var w struct {
			Script *c06Script `json:"script"`
		}
		if err := r.LoadReplay(&w); err != nil || w.Script == nil {
			for i := 0; i < 200; i++ {
				c06Concurrent(e, i)
			}
		} else {
			try(r, func() interface{} { return w.Script }, func() { c06Run(e, w.Script) })
		}
		r.SetMinDistinct(0)
	} else {
		n := r.N(300, 6000)
		vkit.Parallel(n, 16, func(i int) {
			sc := c06Gen(r, i)
			try(r, func() interface{} { return sc }, func() { c06Run(e, sc) })
		})
		nc := r.N(150, 3000)
		vkit.Parallel(nc, 8, func(i int) {
			try(r, func() interface{} { return map[string]interface{}{"concurrent_case": i} }, func() { c06Concurrent(e, i) })
		})
	}
	// every backend has been released by now: drain
	deadline := time.Now().Add(10 * time.Second)
	left, sample := 0, ""
	for {
		left, sample = c06CheckerGoroutines()
		if left == 0 || time.Now().After(deadline) {
			break
		}
		time.Sleep(50 * time.Millisecond)
	}
	if left > 0 {
		r.Violation("checker-alive-after-release", fmt.Sprintf("%d goroutines still in backend.check 10 s after every backend was released", left), map[string]interface{}{"count": left, "stack": sample})
	}
	time.Sleep(100 * time.Millisecond)
	srv.mu.Lock()
	totalProbes, lateOne := 0, 0
	for _, b := range srv.bks {
		b.mu.Lock()
		totalProbes += b.total
		if b.late == 1 {
			lateOne++
		}
		if b.late > 1 {
			r.Violation("checked-after-release", fmt.Sprintf("%d health checks arrived for backend %s after its release returned", b.late, b.ip), map[string]interface{}{"backend_ip": b.ip, "late_probes": b.late})
		}
		if b.maxInfl > 1 {
			r.Violation("two-checkers", fmt.Sprintf("%d health checks outstanding at once for backend %s", b.maxInfl, b.ip), map[string]interface{}{"backend_ip": b.ip})
		}
		if b.overflow > 0 {
			r.Inconclusive("probe queue overflow for " + b.ip)
		}
		b.mu.Unlock()
	}
	srv.mu.Unlock()
	r.Count("probes_received", int64(totalProbes))
	r.Count("backends_with_one_late_probe", int64(lateOne))
	r.Count("stray_requests", atomic.LoadInt64(&srv.stray))
	hs.Close()
	if r.Replay == "" {
		for _, k := range []string{"episodes_out_of_rotation", "probes_answered", "released_while_out_of_rotation", "via_rr", "concurrent_cases"} {
			if r.Counter(k) == 0 {
				r.Inconclusive("the workload never reached " + k)
			}
		}
	}
}
