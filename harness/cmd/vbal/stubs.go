package main

import "verifharness/vkit"

func c06(r *vkit.Run) {}
func c09(r *vkit.Run) {}
