package main

import (
	"fmt"
	"os"
	"regexp"
	"runtime"
	"sort"
	"strconv"
	"strings"
	"sync"
	"sync/atomic"
	"time"

	"github.com/bfenetworks/bfe/bfe_balance/backend"
	"github.com/bfenetworks/bfe/bfe_balance/bal_gslb"
	"github.com/bfenetworks/bfe/bfe_balance/bal_slb"
	"github.com/bfenetworks/bfe/bfe_config/bfe_cluster_conf/cluster_conf"
	"github.com/bfenetworks/bfe/bfe_config/bfe_cluster_conf/cluster_table_conf"
	"github.com/bfenetworks/bfe/bfe_config/bfe_cluster_conf/gslb_conf"

	"verifharness/vkit"
)

// C05: every balancing call returns (backend or error) without panicking,
// blocking or looping forever under concurrent Balance / SetAvail / Update /
// Reload / SetSlowStart, for all five algorithms; no data race.
//
// Monitors: (1) the race detector (scope bfe_balance/); (2) recovered panics;
// (3) termination: a call that has not returned long after every mutator has
// stopped, re-checked at the very end of the run when nothing else is running
// and sampled 5 times in the same bfe frame, is a violation. Hang-prone
// workloads run on their own balancer and are abandoned when they hang, so a
// mutex that is never released cannot wedge the rest of the run.

// ---- goroutine bookkeeping ----

func goid() int64 {
	var b [64]byte
	n := runtime.Stack(b[:], false)
	f := strings.Fields(string(b[:n]))
	if len(f) < 2 {
		return -1
	}
	id, _ := strconv.ParseInt(f[1], 10, 64)
	return id
}

type c05Suspect struct {
	Class   string
	Witness map[string]interface{}
	done    chan struct{}
	gids    []int64
	frozen  func() interface{}
	// progress counts completed calls of the suspected workload; a hang is
	// only confirmed if it does not move during the whole confirmation window
	progress func() int64
}

type c05State struct {
	r        *vkit.Run
	mu       sync.Mutex
	suspects []*c05Suspect
	hung     map[string]bool // class -> a hang is already suspected; skip the rest of the class
}

func (st *c05State) isHung(class string) bool {
	st.mu.Lock()
	defer st.mu.Unlock()
	return st.hung[class]
}

func (st *c05State) suspect(s *c05Suspect) {
	st.mu.Lock()
	st.hung[s.Class] = true
	st.suspects = append(st.suspects, s)
	st.mu.Unlock()
	st.r.Count("suspected_hangs", 1)
	fmt.Fprintf(os.Stderr, "c05: suspected hang, class %s\n", s.Class)
}

var c05GoHdr = regexp.MustCompile(`^goroutine (\d+) \[([^\]]*)\]`)

type c05GoInfo struct {
	state  string
	frames []string // bfe frames, innermost first
}

func c05Goroutines() map[int64]c05GoInfo {
	buf := make([]byte, 8<<20)
	n := runtime.Stack(buf, true)
	out := map[int64]c05GoInfo{}
	for _, blk := range strings.Split(string(buf[:n]), "\n\n") {
		lines := strings.Split(blk, "\n")
		m := c05GoHdr.FindStringSubmatch(lines[0])
		if m == nil {
			continue
		}
		id, _ := strconv.ParseInt(m[1], 10, 64)
		gi := c05GoInfo{state: m[2]}
		for _, l := range lines[1:] {
			if strings.HasPrefix(l, "github.com/bfenetworks/bfe/") {
				f := strings.TrimPrefix(l, "github.com/bfenetworks/bfe/")
				if i := strings.LastIndex(f, "("); i > 0 {
					f = f[:i]
				}
				gi.frames = append(gi.frames, f)
			}
		}
		out[id] = gi
	}
	return out
}

// c05Callee is the function that Balance dispatched to (the frame just inside
// the outermost bfe_balance Balance frame), or the innermost bfe frame.
func c05Callee(frames []string) string {
	if len(frames) == 0 {
		return ""
	}
	for i := len(frames) - 1; i >= 0; i-- {
		if strings.HasSuffix(frames[i], ".Balance") && i > 0 {
			// walk inwards over nested Balance frames (gslb -> sub -> rr)
			j := i - 1
			for j > 0 && (strings.HasSuffix(frames[j], ".Balance") || strings.HasSuffix(frames[j], ".balance")) {
				j--
			}
			return frames[j]
		}
	}
	return frames[0]
}

// confirm is run at the very end, when no other workload is running.
func (st *c05State) confirm() {
	r := st.r
	if len(st.suspects) == 0 {
		return
	}
	time.Sleep(1 * time.Second)
	before := map[*c05Suspect]int64{}
	for _, s := range st.suspects {
		before[s] = s.progress()
	}
	type obs struct {
		callee string
		n      int
	}
	seen := map[int64]*obs{}
	const samples = 5
	for k := 0; k < samples; k++ {
		gs := c05Goroutines()
		for _, s := range st.suspects {
			for _, id := range s.gids {
				gi, ok := gs[id]
				if !ok || len(gi.frames) == 0 {
					continue
				}
				if !(gi.state == "running" || gi.state == "runnable" || strings.HasPrefix(gi.state, "running") || strings.HasPrefix(gi.state, "runnable")) {
					continue // parked on the mutex behind the spinner: collateral
				}
				c := c05Callee(gi.frames)
				o := seen[id]
				if o == nil {
					o = &obs{callee: c}
					seen[id] = o
				}
				if o.callee == c {
					o.n++
				}
			}
		}
		time.Sleep(800 * time.Millisecond)
	}
	for _, s := range st.suspects {
		select {
		case <-s.done:
			r.Count("suspects_finished_late", 1)
			fmt.Fprintf(os.Stderr, "c05: suspect finished late, class %s\n", s.Class)
			continue
		default:
		}
		if s.progress() != before[s] {
			// still completing calls: slow (loaded machine), not hung
			r.Count("suspects_still_progressing", 1)
			fmt.Fprintf(os.Stderr, "c05: suspect still progressing, class %s\n", s.Class)
			continue
		}
		spin := ""
		blocked := 0
		for _, id := range s.gids {
			if o := seen[id]; o != nil && o.n == samples {
				spin = o.callee
			}
		}
		gs := c05Goroutines()
		for _, id := range s.gids {
			if gi, ok := gs[id]; ok && len(gi.frames) > 0 {
				blocked++
			}
		}
		w := s.Witness
		if s.frozen != nil {
			w["frozen_state"] = s.frozen()
		}
		w["goroutines_still_inside_bfe"] = blocked
		if spin != "" {
			w["spinning_in"] = spin
			short := spin[strings.LastIndex(spin, ".")+1:]
			r.Violation("hang:"+short+":"+s.Class,
				fmt.Sprintf("a Balance call never returned: after all mutators stopped, a goroutine was seen running in %s in 5 of 5 stack samples and had still not returned at the end of the run", spin), w)
		} else if blocked > 0 {
			r.Violation("blocked:"+s.Class, "calls into the balancer never returned although no goroutine is running inside it", w)
		} else {
			r.Count("suspects_finished_late", 1)
		}
	}
}

// ---- part 1: sequential totality probes ----

type c05Probe struct {
	Alg      int     `json:"alg"`
	AlgName  string  `json:"alg_name"`
	Build    string  `json:"build"` // init | update
	Backends []bspec `json:"backends"`
	Down     []bool  `json:"down"`
	Calls    int     `json:"calls"`
}

func (p *c05Probe) class() string {
	neg, pick := false, false
	for i, b := range p.Backends {
		if !p.Down[i] && b.Weight < 0 {
			neg = true
		}
		if !p.Down[i] && b.Weight > 0 {
			pick = true
		}
	}
	s := p.AlgName
	switch {
	case len(p.Backends) == 0:
		s += ":empty-list"
	case neg && !pick:
		s += ":available-negative-weight-and-nothing-pickable"
	case neg:
		s += ":available-negative-weight"
	case pick:
		s += ":pickable"
	default:
		s += ":nothing-pickable"
	}
	return s
}

func (p *c05Probe) run(r *vkit.Run, calls *int64) {
	brr := bal_slb.NewBalanceRR("s")
	if p.Build == "update" {
		brr.Update(confOf(p.Backends))
	} else {
		brr.Init(confOf(p.Backends))
	}
	if s, ok := brr.VerifTrySnapshot(); ok {
		down := map[string]bool{}
		for i, b := range p.Backends {
			down[b.Name] = p.Down[i]
		}
		for _, b := range s.Backends {
			if down[b.Backend.Name] {
				b.Backend.SetAvail(false)
			}
		}
	}
	for k := 0; k < p.Calls; k++ {
		if try(r, func() interface{} { return p }, func() { brr.Balance(p.Alg, []byte{byte(k), 7}) }) {
			return
		}
		atomic.AddInt64(calls, 1)
	}
}

func c05Probes() []*c05Probe {
	type bw struct {
		w    int
		down bool
	}
	var opts []bw
	for _, w := range []int{-1, 0, 1, 2} {
		opts = append(opts, bw{w, false}, bw{w, true})
	}
	var shapes [][]bw
	shapes = append(shapes, nil)
	for _, a := range opts {
		shapes = append(shapes, []bw{a})
		for _, b := range opts {
			shapes = append(shapes, []bw{a, b})
			for _, c := range opts {
				shapes = append(shapes, []bw{a, b, c})
			}
		}
	}
	var out []*c05Probe
	for _, sh := range shapes {
		for alg := 0; alg < 5; alg++ {
			for _, build := range []string{"init", "update"} {
				if build == "update" && len(sh) == 3 {
					continue
				}
				p := &c05Probe{Alg: alg, AlgName: algNames[alg], Build: build, Calls: 50}
				for _, x := range sh {
					if x.w > 0 && !x.down {
						p.Calls += 100 * x.w // WrrSimple rescans when the credits (100 per weight unit) are used up
					}
				}
				for i, x := range sh {
					p.Backends = append(p.Backends, bspec{Name: fmt.Sprintf("b%d", i), Addr: fmt.Sprintf("10.3.0.%d", i+1), Port: 80, Weight: x.w})
					p.Down = append(p.Down, x.down)
				}
				out = append(out, p)
			}
		}
	}
	return out
}

// c05Sequential starts one goroutine per probe class and returns the function
// that waits for them (a class whose goroutine makes no progress for 10 s is
// recorded as a suspected hang and left behind).
func c05Sequential(st *c05State, probes []*c05Probe) (wait func()) {
	r := st.r
	byClass := map[string][]*c05Probe{}
	var classes []string
	for _, p := range probes {
		c := p.class()
		if byClass[c] == nil {
			classes = append(classes, c)
		}
		byClass[c] = append(byClass[c], p)
	}
	sort.Strings(classes)
	type batch struct {
		class string
		ps    []*c05Probe
		prog  int64
		calls int64
		gid   int64
		done  chan struct{}
	}
	var bs []*batch
	for _, c := range classes {
		b := &batch{class: c, ps: byClass[c], done: make(chan struct{})}
		bs = append(bs, b)
		go func() {
			atomic.StoreInt64(&b.gid, goid())
			for i, p := range b.ps {
				atomic.StoreInt64(&b.prog, int64(i))
				p.run(r, &b.calls)
				r.CaseS(fmt.Sprintf("probe|%d|%s|%v|%v", p.Alg, p.Build, p.Backends, p.Down), len(p.Backends) >= 2)
				r.Count("sequential_probes", 1)
				r.Count("sequential_calls", int64(p.Calls))
			}
			atomic.StoreInt64(&b.prog, int64(len(b.ps)))
			close(b.done)
		}()
	}
	return func() {
		for _, b := range bs {
			last, stale := int64(-1), 0
			for {
				select {
				case <-b.done:
				case <-time.After(500 * time.Millisecond):
					cur := atomic.LoadInt64(&b.prog)
					if cur != last {
						last, stale = cur, 0
					} else {
						stale++
					}
					if stale < 20 {
						continue
					}
					p := b.ps[cur]
					st.suspect(&c05Suspect{Class: "sequential:" + b.class, done: b.done, gids: []int64{atomic.LoadInt64(&b.gid)},
						progress: func() int64 { return atomic.LoadInt64(&b.calls) },
						Witness:  map[string]interface{}{"probe": p, "single_threaded": true, "skipped_probes_of_class": len(b.ps) - int(cur) - 1}})
					r.Count("sequential_probes_behind_a_suspected_hang", int64(len(b.ps)-int(cur)-1))
				}
				break
			}
		}
	}
}

// ---- part 2: concurrent histories ----

type c05Hist struct {
	Family string  `json:"family"` // gslb | rr | rr-simple
	G      int     `json:"goroutines"`
	Ops    int     `json:"ops_per_goroutine"`
	Index  int     `json:"index"`
	Init   []bspec `json:"initial_backends"`
}

var c05Pool = func() []bspec {
	var out []bspec
	for i := 0; i < 8; i++ {
		out = append(out, bspec{Name: fmt.Sprintf("p%d", i), Addr: fmt.Sprintf("10.4.0.%d", i+1), Port: 80})
	}
	return out
}()

func c05RandList(g *vkit.Rand, n int, positive bool) []bspec {
	perm := g.Perm(len(c05Pool))
	var out []bspec
	for i := 0; i < n && i < len(perm); i++ {
		b := c05Pool[perm[i]]
		b.Weight = g.Range(1, 3)
		if !positive && g.Chance(1, 6) {
			b.Weight = 0
		}
		out = append(out, b)
	}
	return out
}

type c05Ptrs struct {
	mu sync.Mutex
	l  []*backend.BfeBackend
	m  map[*backend.BfeBackend]bool
}

func (p *c05Ptrs) add(b *backend.BfeBackend) {
	if b == nil {
		return
	}
	p.mu.Lock()
	if !p.m[b] {
		p.m[b] = true
		p.l = append(p.l, b)
	}
	p.mu.Unlock()
}

func (p *c05Ptrs) pick(g *vkit.Rand) *backend.BfeBackend {
	p.mu.Lock()
	defer p.mu.Unlock()
	if len(p.l) == 0 {
		return nil
	}
	// prefer recent pointers (the live ones)
	n := len(p.l)
	k := n - 1 - g.Intn(minInt(n, 8))
	return p.l[k]
}

func (p *c05Ptrs) view() interface{} {
	p.mu.Lock()
	defer p.mu.Unlock()
	type v struct {
		Name  string
		Avail bool
		Conn  int
	}
	var out []v
	for _, b := range p.l {
		out = append(out, v{b.Name, b.Avail(), b.ConnNum()})
	}
	return out
}

func minInt(a, b int) int {
	if a < b {
		return a
	}
	return b
}

// c05Run executes one concurrent history. It returns false if the history is
// suspected to hang (its goroutines are then abandoned).
func c05Run(st *c05State, h *c05Hist) bool {
	r := st.r
	class := "concurrent:" + h.Family
	ptrs := &c05Ptrs{m: map[*backend.BfeBackend]bool{}}
	var brr *bal_slb.BalanceRR
	var bal *bal_gslb.BalanceGslb
	subs := []string{"s.a", "s.b", "s.c"}
	g0 := r.Rng("c05-hist", h.Index)
	positive := h.Family == "rr-simple"
	if h.Family == "gslb" {
		bal = bal_gslb.NewBalanceGslb("cl")
		bal.Init(gslb_conf.GslbClusterConf{"s.a": 60, "s.b": 40, "s.c": 0, "GSLB_BLACKHOLE": 0})
		bal.BackendInit(cluster_table_conf.ClusterBackend{"s.a": confOf(h.Init), "s.b": confOf(c05RandList(g0, 2, false)), "s.c": confOf(c05RandList(g0, 1, true))})
		s := bal.VerifSnapshot()
		for _, sub := range s.Subs {
			for _, b := range sub.RR.Backends {
				ptrs.add(b.Backend)
			}
		}
	} else {
		brr = bal_slb.NewBalanceRR("s")
		brr.Init(confOf(h.Init))
		for _, b := range brr.VerifSnapshot().Backends {
			ptrs.add(b.Backend)
		}
	}
	algs := []int{bal_slb.WrrSmooth, bal_slb.WrrSticky, bal_slb.WlcSimple, bal_slb.WlcSmooth}
	if h.Family == "rr-simple" {
		algs = []int{bal_slb.WrrSimple, bal_slb.WrrSimple, bal_slb.WrrSmooth, bal_slb.WlcSimple}
	}
	var seq int64
	type stamp struct {
		s    int64
		kind byte
	}
	stamps := make([][]stamp, h.G)
	gids := make([]int64, h.G)
	cur := make([]atomic.Value, h.G)
	var wg sync.WaitGroup
	var mutatorsLeft int64
	nMut := h.G / 4
	if nMut == 0 {
		nMut = 1
	}
	mutatorsLeft = int64(nMut)
	opCount := map[string]*int64{}
	for _, k := range []string{"balance", "flip", "update", "reload", "slowstart", "basic", "state", "conn"} {
		opCount[k] = new(int64)
	}
	start := make(chan struct{})
	for w := 0; w < h.G; w++ {
		wg.Add(1)
		go func(w int) {
			defer wg.Done()
			atomic.StoreInt64(&gids[w], goid())
			g := r.Rng("c05-worker", h.Index, w)
			mutator := w < nMut
			local := make([]stamp, 0, h.Ops)
			<-start
			for i := 0; i < h.Ops; i++ {
				kind := "balance"
				if mutator {
					x := g.Intn(100)
					switch {
					case x < 45:
						kind = "flip"
					case x < 60:
						kind = "update"
					case x < 68:
						kind = "slowstart"
					case x < 76:
						kind = "conn"
					case x < 84:
						kind = "state"
					case x < 92:
						kind = "basic"
					default:
						kind = "balance"
					}
				} else if g.Chance(1, 12) {
					kind = "flip"
				}
				if bal == nil && (kind == "basic" || kind == "state") {
					kind = "balance"
				}
				cur[w].Store(kind)
				try(r, func() interface{} {
					return map[string]interface{}{"history": h, "worker": w, "op_index": i, "op": kind, "backends": ptrs.view()}
				}, func() {
					switch kind {
					case "balance":
						if bal != nil {
							q := reqSpec{IP: []byte{10, byte(w), byte(i >> 8), byte(i)}, Retry: g.Intn(4)}
							b, _ := bal.Balance(q.build(gbasic{Strategy: 1}))
							ptrs.add(b)
						} else {
							b, _ := brr.Balance(algs[g.Intn(len(algs))], []byte{byte(i), byte(w)})
							ptrs.add(b)
						}
					case "flip":
						if b := ptrs.pick(g); b != nil {
							b.SetAvail(g.Chance(2, 5))
						}
					case "conn":
						if b := ptrs.pick(g); b != nil {
							if g.Bool() {
								b.IncConnNum()
							} else {
								b.DecConnNum()
							}
						}
					case "update":
						n := []int{0, 1, 2, 8}[g.Intn(4)]
						if positive && n == 0 {
							n = 1
						}
						if bal != nil {
							if g.Chance(1, 3) {
								gc := gslb_conf.GslbClusterConf{"GSLB_BLACKHOLE": 0}
								for _, s := range subs {
									if g.Chance(3, 4) {
										gc[s] = g.Intn(3) * 30
									}
								}
								gc[subs[g.Intn(3)]] = g.Range(1, 100)
								bal.Reload(gc)
								atomic.AddInt64(opCount["reload"], 1)
							}
							bal.BackendReload(cluster_table_conf.ClusterBackend{subs[g.Intn(3)]: confOf(c05RandList(g, n, false))})
							s := bal.VerifSnapshot()
							for _, sub := range s.Subs {
								for _, b := range sub.RR.Backends {
									ptrs.add(b.Backend)
								}
							}
						} else {
							brr.Update(confOf(c05RandList(g, n, positive)))
							if s, ok := brr.VerifTrySnapshot(); ok {
								for _, b := range s.Backends {
									ptrs.add(b.Backend)
								}
							}
						}
					case "slowstart":
						t := []int{0, 0, 1, 30}[g.Intn(4)]
						if bal != nil {
							bal.SetSlowStart(cluster_conf.BackendBasic{SlowStartTime: &t})
						} else {
							brr.SetSlowStart(t)
						}
					case "basic":
						gb := gbasic{RetryMax: g.Intn(3), CrossRetry: g.Intn(2), Mode: []string{"WRR", "WLC"}[g.Intn(2)], Sticky: g.Chance(1, 3), Strategy: 1}
						bal.SetGslbBasic(gb.conf())
					case "state":
						bal_gslb.State(bal)
					}
				})
				atomic.AddInt64(opCount[kind], 1)
				local = append(local, stamp{atomic.AddInt64(&seq, 1), kind[0]})
			}
			stamps[w] = local
			cur[w].Store("done")
			if mutator {
				atomic.AddInt64(&mutatorsLeft, -1)
			}
		}(w)
	}
	done := make(chan struct{})
	go func() { wg.Wait(); close(done) }()
	close(start)
	deadline := time.After(40 * time.Second)
	select {
	case <-done:
	case <-deadline:
		// everything in a history is bounded work of microseconds per op
		inflight := map[string]int{}
		var ids []int64
		for w := 0; w < h.G; w++ {
			k, _ := cur[w].Load().(string)
			if k != "done" {
				inflight[k]++
				ids = append(ids, atomic.LoadInt64(&gids[w]))
			}
		}
		st.suspect(&c05Suspect{Class: class, done: done, gids: ids, frozen: ptrs.view, progress: func() int64 { return atomic.LoadInt64(&seq) },
			Witness: map[string]interface{}{"history": h, "ops_in_flight": inflight, "mutators_still_running": atomic.LoadInt64(&mutatorsLeft)}})
		return false
	}
	// interleaving fingerprint: which worker completed the k-th op
	total := int(seq)
	order := make([]byte, total+1)
	for w, l := range stamps {
		for _, s := range l {
			order[s.s] = byte(w) ^ s.kind
		}
	}
	fp := vkit.Hash64(h.Family, fmt.Sprint(h.G), string(order))
	r.Case(fp, h.G >= 2)
	for k, v := range opCount {
		r.Count("ops_"+k, atomic.LoadInt64(v))
	}
	r.Count(fmt.Sprintf("histories_%s_G%d", h.Family, h.G), 1)
	return true
}

// ---- part 3: steered drain trials for simpleBalance's rescan ----

// c05Drain: one goroutine picks with WrrSimple until the credits run out; a
// second one marks every backend unavailable at about the moment the rescan
// happens. Afterwards nothing changes any more, so every call must return.
func c05Drain(st *c05State, idx int) bool {
	r := st.r
	g := r.Rng("c05-drain", idx)
	nb := g.Range(1, 2)
	var specs []bspec
	for i := 0; i < nb; i++ {
		specs = append(specs, bspec{Name: fmt.Sprintf("d%d", i), Addr: fmt.Sprintf("10.5.0.%d", i+1), Port: 80, Weight: 1})
	}
	brr := bal_slb.NewBalanceRR("s")
	brr.Init(confOf(specs))
	var bks []*backend.BfeBackend
	for _, b := range brr.VerifSnapshot().Backends {
		bks = append(bks, b.Backend)
	}
	trigger := int64(100*nb - 3 + g.Intn(5))
	total := 100*nb + 40
	var prog int64
	var gidA int64
	done := make(chan struct{})
	flipped := make(chan struct{})
	go func() {
		defer close(done)
		atomic.StoreInt64(&gidA, goid())
		for k := 0; k < total; k++ {
			if try(r, func() interface{} { return map[string]interface{}{"drain": specs, "pick": k} }, func() { brr.Balance(bal_slb.WrrSimple, nil) }) {
				return
			}
			atomic.StoreInt64(&prog, int64(k+1))
		}
	}()
	go func() {
		defer close(flipped)
		for atomic.LoadInt64(&prog) < trigger {
			select {
			case <-done:
				return
			default:
			}
		}
		for _, b := range bks {
			b.SetAvail(false)
		}
	}()
	<-flipped
	select {
	case <-done:
		r.Count("drain_trials", 1)
		return true
	case <-time.After(6 * time.Second):
		st.suspect(&c05Suspect{Class: "concurrent:WrrSimple:all-backends-marked-unavailable-during-rescan", done: done, gids: []int64{atomic.LoadInt64(&gidA)},
			progress: func() int64 { return atomic.LoadInt64(&prog) },
			frozen: func() interface{} {
				var out []string
				for _, b := range bks {
					out = append(out, fmt.Sprintf("%s avail=%v", b.Name, b.Avail()))
				}
				return out
			},
			Witness: map[string]interface{}{"backends": specs, "picks_completed": atomic.LoadInt64(&prog), "flip_when_picks_reach": trigger,
				"schedule": "goroutine A: Balance(WrrSimple) in a loop; goroutine B: SetAvail(false) on every backend once A has completed flip_when_picks_reach picks; nothing runs afterwards"}})
		return false
	}
}

// ---- part 4: steered trials for the two-pass candidate scan of least-connections ----

// c05WlcTies: all backends tie on conn/weight, one goroutine keeps picking with
// WlcSimple / WlcSmooth while another keeps flipping every backend's
// availability, so that the second pass of the candidate scan can see a
// different state than the first. Returns false once a panic was recorded.
func c05WlcTies(st *c05State, idx int) bool {
	r := st.r
	g := r.Rng("c05-wlc", idx)
	nb := g.Range(2, 3)
	var specs []bspec
	for i := 0; i < nb; i++ {
		specs = append(specs, bspec{Name: fmt.Sprintf("t%d", i), Addr: fmt.Sprintf("10.6.0.%d", i+1), Port: 80, Weight: 1})
	}
	brr := bal_slb.NewBalanceRR("s")
	brr.Init(confOf(specs))
	var bks []*backend.BfeBackend
	for _, b := range brr.VerifSnapshot().Backends {
		bks = append(bks, b.Backend)
	}
	alg := []int{bal_slb.WlcSimple, bal_slb.WlcSimple, bal_slb.WlcSmooth}[g.Intn(3)]
	stop := make(chan struct{})
	flips := make(chan struct{})
	go func() {
		defer close(flips)
		for {
			for _, up := range []bool{false, true} {
				for _, b := range bks {
					b.SetAvail(up)
				}
				select {
				case <-stop:
					return
				default:
				}
			}
		}
	}()
	panicked := false
	for k := 0; k < 3000 && !panicked; k++ {
		panicked = try(r, func() interface{} {
			return map[string]interface{}{"backends": specs, "alg": algNames[alg],
				"schedule": "goroutine A: Balance(alg) in a loop on backends that all tie on conn/weight; goroutine B: SetAvail(false) on every backend, then SetAvail(true) on every backend, repeatedly"}
		}, func() { brr.Balance(alg, nil) })
	}
	close(stop)
	<-flips
	r.Count("wlc_tie_trials", 1)
	return !panicked
}

func c05(r *vkit.Run) {
	r.RaceScope("bfe_balance/")
	r.SetRule("part 1 (sequential totality): every list of 0-3 backends with weight in {-1,0,1,2} x available/unavailable, built by Init or Update, x all 5 algorithms x (50 + 100*sum of pickable weights) calls, each class (algorithm, list shape) in its own watchdogged goroutine. part 2 (concurrent): histories with G in {4,16,64} goroutines on one shared balancer: family gslb (BalanceGslb: Balance, SetAvail, Inc/DecConnNum, Reload, BackendReload with lists of 0/1/2/8, SetSlowStart, SetGslbBasic, State), family rr (BalanceRR: Balance with WrrSmooth/WrrSticky/WlcSimple/WlcSmooth, SetAvail, Inc/DecConnNum, Update, SetSlowStart), family rr-simple (adds WrrSimple; lists non-empty, weights positive); a quarter of the goroutines are mutators. part 3: steered trials where every backend is marked unavailable while WrrSimple rescans after its credits ran out. part 4: steered trials where all backends tie on conn/weight and their availability is flipped while WlcSimple/WlcSmooth picks. Monitors: race detector (scope bfe_balance/), recovered panics, termination after quiescence (all mutators finished; at the end of the run the call has still not returned, completes nothing during the confirmation window and is seen running in the same bfe frame in 5/5 stack samples). Non-trivial = history with >=2 goroutines or probe with >=2 backends; distinct = interleaving fingerprint (completion order of all ops) / probe")
	r.Assume("interleavings are sampled, not enumerated; a hang is only reported for a state that no goroutine changes any more")
	st := &c05State{r: r, hung: map[string]bool{}}
	if r.Replay != "" {
		var w struct {
			Probe   *c05Probe `json:"probe"`
			History *c05Hist  `json:"history"`
			Case    *struct {
				Alg string `json:"alg"`
			} `json:"case"`
		}
		if err := r.LoadReplay(&w); err != nil {
			r.Inconclusive(err.Error())
			return
		}
		switch {
		case w.Probe != nil:
			c05Sequential(st, []*c05Probe{w.Probe})()
		case w.History != nil:
			c05Run(st, w.History)
		case w.Case != nil && w.Case.Alg != "":
			for i := 0; i < 400 && c05WlcTies(st, i); i++ {
			}
		default:
			for i := 0; i < 3000 && c05Drain(st, i); i++ {
			}
		}
		st.confirm()
		r.SetMinDistinct(0)
		return
	}
	waitSequential := c05Sequential(st, c05Probes())

	perCell := r.N(4, 40)
	ops := r.N(1500, 3000)
	idx := 0
	for _, fam := range []string{"gslb", "rr", "rr-simple"} {
		for _, G := range []int{4, 16, 64} {
			for k := 0; k < perCell; k++ {
				idx++
				class := "concurrent:" + fam
				if st.isHung(class) {
					r.Count("histories_skipped_after_hang", 1)
					continue
				}
				g := r.Rng("c05-init", idx)
				n := []int{0, 1, 2, 8}[g.Intn(4)]
				if fam == "rr-simple" && n == 0 {
					n = 1
				}
				h := &c05Hist{Family: fam, G: G, Ops: ops * 16 / (G + 12), Index: idx, Init: c05RandList(g, n, fam == "rr-simple")}
				r.WriteAhead(h)
				c05Run(st, h)
			}
		}
	}
	nd := r.N(1500, 20000)
	for i := 0; i < nd; i++ {
		if !c05Drain(st, i) {
			r.Count("drain_trials_skipped_after_hang", int64(nd-i-1))
			break
		}
	}
	nw := r.N(400, 4000)
	for i := 0; i < nw; i++ {
		if !c05WlcTies(st, i) {
			r.Count("wlc_tie_trials_skipped_after_panic", int64(nw-i-1))
			break
		}
	}
	waitSequential()
	st.confirm()
	if r.Counter("ops_balance") == 0 || r.Counter("ops_update") == 0 || r.Counter("ops_flip") == 0 {
		r.Inconclusive("concurrent workload did not run")
	}
}
