// vbal decides the balancer properties C01-C04 (plain build) and C05, C06,
// C09 (race build) against bfe_balance/**.
package main

import (
	"fmt"
	"os"
	"runtime/pprof"

	"verifharness/vkit"
)

func main() {
	r := vkit.Start("exploration")
	if p := os.Getenv("VBAL_CPUPROFILE"); p != "" { // developer aid only
		if f, err := os.Create(p); err == nil {
			pprof.StartCPUProfile(f)
			defer pprof.StopCPUProfile()
		}
	}
	switch r.Prop {
	case "C01":
		c01(r)
	case "C02":
		c02(r)
	case "C03":
		c03(r)
	case "C04":
		c04(r)
	case "C05":
		c05(r)
	case "C06":
		c06(r)
	case "C09":
		c09(r)
	default:
		fmt.Fprintln(os.Stderr, "vbal: unknown property", r.Prop)
		os.Exit(vkit.ExitInconclusive)
	}
	pprof.StopCPUProfile()
	r.Finish()
}
