package main

import (
	"encoding/json"
	"fmt"
	"runtime"
	"sync"
	"sync/atomic"
	"time"

	"github.com/bfenetworks/bfe/bfe_balance/backend"
	"github.com/bfenetworks/bfe/bfe_balance/bal_gslb"
	"github.com/bfenetworks/bfe/bfe_balance/bal_slb"
	"github.com/bfenetworks/bfe/bfe_basic"
	"github.com/bfenetworks/bfe/bfe_config/bfe_cluster_conf/cluster_table_conf"
	"github.com/bfenetworks/bfe/bfe_config/bfe_cluster_conf/gslb_conf"

	"verifharness/vkit"
)

// C01, CONCURRENT PICK PHASES: the selections of one sub-cluster are made by
// request goroutines that run at the same time. The statement speaks of
// "consecutive instance selections" of a sub-cluster whose backends and
// weights stay unchanged; it does not restrict who makes them. Whatever the
// interleaving, the selections made between two quiescent points are
// consecutive selections of that balancer, so:
//
//	a phase in which G goroutines issue exactly k*W selections in total (no
//	reload, no availability change, slow start off) consists of k whole
//	windows: each backend is selected exactly k*weight times, the balancer
//	is afterwards where a balancer is that made the same NUMBER of
//	selections one after the other (period W, deterministic sequence), and
//	the next W selections, made sequentially, are an exact window and equal
//	the sequential twin's.
//
// All four are counting / equality checks over recorded selections and over
// the credit state read with the VerifSnapshot hook at quiescence; nothing
// depends on timing. A twin balancer with the same ordered weight list makes
// the same number of selections sequentially.

type c01CPhase struct {
	G     int  `json:"goroutines"`
	K     int  `json:"periods"` // the phase makes exactly K*W selections in total
	Yield bool `json:"yield"`   // goroutines yield the processor now and then
}

type c01CCase struct {
	Via     string      `json:"via"` // rr = BalanceRR.Balance(WrrSmooth), gslb = BalanceGslb.Balance on one sub-cluster
	Weights []int       `json:"weights"`
	Down    []bool      `json:"down,omitempty"`
	Pre     int         `json:"sequential_picks_before"`
	Phases  []c01CPhase `json:"phases"`
	Seed    uint64      `json:"rng"` // splits the selections of a phase between the goroutines
}

func (c *c01CCase) key() string {
	b, _ := json.Marshal(c)
	return string(b)
}

func (c *c01CCase) elig(i int) int {
	if c.Weights[i] <= 0 || (c.Down != nil && c.Down[i]) {
		return 0
	}
	return c.Weights[i]
}

func (c *c01CCase) total() (W, eligible int) {
	for i := range c.Weights {
		if w := c.elig(i); w > 0 {
			W += w
			eligible++
		}
	}
	return
}

// c01CDrv is one balancer that several goroutines may select from.
type c01CDrv struct {
	rr *bal_slb.BalanceRR
	gs *bal_gslb.BalanceGslb
	n  int
}

func c01CNew(c *c01CCase) (*c01CDrv, error) {
	d := &c01CDrv{n: len(c.Weights)}
	conf := confOf(specsFromWeights(c.Weights, false))
	if c.Via == "gslb" {
		d.gs = bal_gslb.NewBalanceGslb("cl")
		if err := d.gs.Init(gslb_conf.GslbClusterConf{"sub": 100, "GSLB_BLACKHOLE": 0}); err != nil {
			return nil, err
		}
		if err := d.gs.BackendInit(cluster_table_conf.ClusterBackend{"sub": conf}); err != nil {
			return nil, err
		}
	} else {
		d.rr = bal_slb.NewBalanceRR("sub")
		d.rr.Init(conf)
	}
	if c.Down != nil {
		for i, b := range d.snap().Backends {
			if i < len(c.Down) && c.Down[i] {
				b.Backend.SetAvail(false)
			}
		}
	}
	return d, nil
}

func (d *c01CDrv) snap() bal_slb.VerifRR {
	if d.gs != nil {
		s := d.gs.VerifSnapshot()
		if vs := subByName(&s, "sub"); vs != nil {
			return vs.RR
		}
		return bal_slb.VerifRR{}
	}
	return d.rr.VerifSnapshot()
}

// picker returns a selection function for ONE goroutine (id distinguishes the
// client addresses of the request objects; WRR ignores them).
func (d *c01CDrv) picker(id int) func() (int, error) {
	if d.gs == nil {
		return func() (int, error) {
			b, err := d.rr.Balance(bal_slb.WrrSmooth, nil)
			if err != nil {
				return -1, err
			}
			return c01Index(b), nil
		}
	}
	ip := []byte{10, 2, byte(id), 0}
	var req *bfe_basic.Request = reqSpec{IP: ip}.build(c01GslbBasic)
	k := 0
	return func() (int, error) {
		k++
		ip[3] = byte(k)
		req.RetryTime = 0
		var b *backend.BfeBackend
		b, err := d.gs.Balance(req)
		if err != nil {
			return -1, err
		}
		return c01Index(b), nil
	}
}

type c01CStat struct {
	mu            sync.Mutex
	Balancers     int           `json:"balancers"`
	Phases        int           `json:"phases"`
	Overlapped    int           `json:"phases_with_two_or_more_goroutines_inside_Balance_at_once"`
	MaxInside     int           `json:"max_goroutines_observed_inside_Balance_at_once"`
	PicksInPhases int64         `json:"selections_made_in_concurrent_phases"`
	MaxW          int           `json:"max_W"`
	MaxBackends   int           `json:"max_backends"`
	WallS         float64       `json:"wall_s"`
	Samples       []interface{} `json:"samples"`
}

func c01CGBucket(g int) string {
	switch {
	case g <= 3:
		return "G2-3"
	case g <= 6:
		return "G4-6"
	case g <= 11:
		return "G7-11"
	}
	return "G12-16"
}

// c01CSplit splits total selections between g goroutines, every goroutine
// getting at least one (a function of the case's rng only).
func c01CSplit(rng *vkit.Rand, total, g int) []int {
	if g > total {
		g = total
	}
	q := make([]int, g)
	for i := range q {
		q[i] = 1
	}
	rest := total - g
	switch rng.Intn(3) {
	case 0: // even
		for i := range q {
			q[i] += rest / g
		}
		q[0] += rest % g
	case 1: // one goroutine makes half of them
		q[rng.Intn(g)] += rest / 2
		rest -= rest / 2
		for i := range q {
			q[i] += rest / g
		}
		q[g-1] += rest % g
	default: // random cut points
		left := rest
		for i := 0; i < g-1; i++ {
			x := 0
			if left > 0 {
				x = rng.Intn(2*left/(g-i) + 1)
				if x > left {
					x = left
				}
			}
			q[i] += x
			left -= x
		}
		q[g-1] += left
	}
	return q
}

// c01CCRun executes one case. It returns false when a violation was reported.
func c01CCRun(r *vkit.Run, c *c01CCase, st *c01CStat) bool {
	W, eligible := c.total()
	n := len(c.Weights)
	if W == 0 || n == 0 {
		return true
	}
	rng := vkit.NewRand(c.Seed)
	wit := func(phase int, more map[string]interface{}) map[string]interface{} {
		m := map[string]interface{}{"cc": c, "W": W, "failing_phase": phase}
		for k, v := range more {
			m[k] = v
		}
		return m
	}
	var main, twin *c01CDrv
	var berr error
	if try(r, func() interface{} { return wit(-1, nil) }, func() {
		if main, berr = c01CNew(c); berr != nil {
			return
		}
		twin, berr = c01CNew(c)
	}) {
		return false
	}
	if berr != nil {
		r.Violation("concurrent:build-rejected:"+c.Via, "a valid configuration was rejected: "+berr.Error(), wit(-1, nil))
		return false
	}
	pickMain, pickTwin := main.picker(255), twin.picker(255)
	seqPicks := func(k, phase int, what string) (a, b []int, ok bool) {
		a, b = make([]int, 0, k), make([]int, 0, k)
		var err error
		if try(r, func() interface{} { return wit(phase, nil) }, func() {
			for i := 0; i < k && err == nil; i++ {
				var x, y int
				if x, err = pickMain(); err != nil {
					return
				}
				if y, err = pickTwin(); err != nil {
					return
				}
				a, b = append(a, x), append(b, y)
			}
		}) {
			return a, b, false
		}
		if err != nil {
			r.Violation("concurrent:error-with-eligible:"+c.Via, what+": Balance failed although an eligible backend exists: "+err.Error(), wit(phase, nil))
			return a, b, false
		}
		return a, b, true
	}
	if _, _, ok := seqPicks(c.Pre, -1, "sequential selections before the first phase"); !ok {
		return false
	}
	sawOverlap := false
	for pi, ph := range c.Phases {
		total := ph.K * W
		quota := c01CSplit(rng, total, ph.G)
		G := len(quota)
		counts := make([][]int, G)
		maxIn := make([]int32, G)
		errs := make([]error, G)
		panicked := make([]bool, G)
		var inside, ready int32
		var wg sync.WaitGroup
		for w := 0; w < G; w++ {
			counts[w] = make([]int, n+1)
			wg.Add(1)
			go func(w int) {
				defer wg.Done()
				pick := main.picker(w)
				cnt := counts[w]
				// all goroutines of the phase start selecting together
				// (spinning keeps this goroutine on a processor of its own; it
				// yields only now and then, for the case that there are fewer
				// free processors than goroutines)
				atomic.AddInt32(&ready, 1)
				for spin := 1; atomic.LoadInt32(&ready) < int32(G); spin++ {
					if spin%(1<<20) == 0 {
						runtime.Gosched()
					}
				}
				panicked[w] = try(r, func() interface{} { return wit(pi, nil) }, func() {
					for i := 0; i < quota[w]; i++ {
						if v := atomic.AddInt32(&inside, 1); v > maxIn[w] {
							maxIn[w] = v
						}
						x, err := pick()
						atomic.AddInt32(&inside, -1)
						if err != nil {
							errs[w] = err
							return
						}
						if x < 0 || x >= n {
							x = n
						}
						cnt[x]++
						if ph.Yield && i%7 == w%7 {
							runtime.Gosched()
						}
					}
				})
			}(w)
		}
		wg.Wait()
		// ---- quiescence ----
		got := make([]int, n+1)
		var mi int32
		for w := 0; w < G; w++ {
			if panicked[w] {
				return false
			}
			if errs[w] != nil {
				r.Violation("concurrent:error-with-eligible:"+c.Via, fmt.Sprintf("phase %d: Balance failed although an eligible backend exists: %v", pi, errs[w]), wit(pi, nil))
				return false
			}
			for i, v := range counts[w] {
				got[i] += v
			}
			if maxIn[w] > mi {
				mi = maxIn[w]
			}
		}
		st.mu.Lock()
		st.Phases++
		st.PicksInPhases += int64(total)
		if mi >= 2 {
			st.Overlapped++
			sawOverlap = true
		}
		if int(mi) > st.MaxInside {
			st.MaxInside = int(mi)
		}
		st.mu.Unlock()
		r.Count("cc_phases", 1)
		r.Count("cc_phases_"+c.Via+"_"+c01CGBucket(G), 1)
		if mi >= 2 {
			r.Count("cc_phases_overlapped_"+c.Via, 1)
			r.Count("cc_phases_overlapped_"+c01CGBucket(G), 1)
		}
		if n >= 24 {
			r.Count("cc_phases_24_or_more_backends", 1)
		}
		r.Count("cc_selections_in_phases", int64(total))
		if got[n] > 0 {
			r.Violation("concurrent:unknown-backend:"+c.Via, fmt.Sprintf("phase %d: %d selections returned a backend that is not in the list", pi, got[n]), wit(pi, nil))
			return false
		}
		// (a) exact shares over the k whole windows of the phase
		for i := 0; i < n; i++ {
			if got[i] != ph.K*c.elig(i) {
				r.Violation("concurrent:share-not-exact:"+c.Via,
					fmt.Sprintf("phase %d: %d goroutines made exactly %d = %d*W selections (W=%d, backends and weights unchanged, no reload); backend b%d was selected %d times, %d*weight = %d", pi, G, total, ph.K, W, i, got[i], ph.K, ph.K*c.elig(i)),
					wit(pi, map[string]interface{}{"quota_per_goroutine": quota, "selected_per_backend": got[:n], "max_goroutines_inside_Balance": mi}))
				return false
			}
		}
		// (b) credit state = state after the same number of sequential selections
		var sm, stw bal_slb.VerifRR
		ok := true
		if try(r, func() interface{} { return wit(pi, nil) }, func() {
			for i := 0; i < total; i++ {
				if _, err := pickTwin(); err != nil {
					ok = false
					return
				}
			}
			sm, stw = main.snap(), twin.snap()
		}) || !ok {
			return false
		}
		if len(sm.Backends) != n || len(stw.Backends) != n {
			r.Violation("concurrent:list-changed:"+c.Via, fmt.Sprintf("phase %d: the backend list has %d entries (twin %d), configured %d", pi, len(sm.Backends), len(stw.Backends), n), wit(pi, nil))
			return false
		}
		for i := 0; i < n; i++ {
			a, b := sm.Backends[i], stw.Backends[i]
			if a.Current != b.Current || a.Weight != b.Weight {
				cur, curT := make([]int, n), make([]int, n)
				for j := 0; j < n; j++ {
					cur[j], curT[j] = sm.Backends[j].Current, stw.Backends[j].Current
				}
				r.Violation("concurrent:state-differs-from-sequential:"+c.Via,
					fmt.Sprintf("after phase %d (%d selections by %d goroutines, shares were exact) backend b%d has credit %d / effective weight %d; a balancer that made the same number of selections sequentially has %d / %d", pi, total, G, i, a.Current, a.Weight, b.Current, b.Weight),
					wit(pi, map[string]interface{}{"current": cur, "current_sequential_twin": curT, "quota_per_goroutine": quota}))
				return false
			}
		}
		// (c) the next W selections, sequential: exact window, equal to the twin's
		sa, sb, ok := seqPicks(W, pi, fmt.Sprintf("window after phase %d", pi))
		if !ok {
			return false
		}
		win := make([]int, n)
		for _, x := range sa {
			if x >= 0 && x < n {
				win[x]++
			}
		}
		for i := 0; i < n; i++ {
			if win[i] != c.elig(i) {
				r.Violation("concurrent:following-window-count:"+c.Via,
					fmt.Sprintf("the window of W=%d sequential selections after phase %d selects backend b%d %d times, weight %d", W, pi, i, win[i], c.elig(i)),
					wit(pi, map[string]interface{}{"window": sa, "window_sequential_twin": sb}))
				return false
			}
		}
		if !c01Equal(sa, sb) {
			r.Violation("concurrent:following-sequence-differs:"+c.Via,
				fmt.Sprintf("the W=%d sequential selections after phase %d differ from those of a balancer that made the same number of selections sequentially (deterministic sequence, period W)", W, pi),
				wit(pi, map[string]interface{}{"window": sa, "window_sequential_twin": sb}))
			return false
		}
		r.Count("cc_following_windows_exact", 1)
	}
	st.mu.Lock()
	st.Balancers++
	if W > st.MaxW {
		st.MaxW = W
	}
	if n > st.MaxBackends {
		st.MaxBackends = n
	}
	if len(st.Samples) < 3 && eligible >= 3 && n <= 8 {
		st.Samples = append(st.Samples, map[string]interface{}{"cc": c, "W": W})
	}
	st.mu.Unlock()
	r.Case(vkit.Hash64("cc", c.key()), eligible >= 2 && sawOverlap)
	r.Count("cc_balancers_"+c.Via, 1)
	if c.Down != nil {
		r.Count("cc_balancers_some_ineligible", 1)
	}
	return true
}

var c01CGs = []int{2, 2, 3, 4, 4, 6, 8, 8, 12, 16}

func c01CCGen(r *vkit.Run, i int) *c01CCase {
	g := r.Rng("cc", i)
	c := &c01CCase{Via: "rr", Seed: g.U64()}
	if g.Chance(1, 5) {
		c.Via = "gslb"
	}
	switch i % 4 {
	case 0: // many backends: one selection walks a long list
		n := g.Range(24, 64)
		c.Weights = make([]int, n)
		for k := range c.Weights {
			c.Weights[k] = g.Range(1, 8)
		}
	case 1: // medium
		n := g.Range(9, 23)
		c.Weights = make([]int, n)
		for k := range c.Weights {
			c.Weights[k] = g.Range(1, 12)
		}
	default:
		c.Weights = c01RandWeights(g)
		for len(c.Weights) < 2 {
			c.Weights = append(c.Weights, g.Range(1, 12))
		}
	}
	if g.Chance(1, 4) && len(c.Weights) >= 3 {
		c.Down = make([]bool, len(c.Weights))
		for k := range c.Weights {
			switch g.Intn(5) {
			case 0:
				c.Down[k] = true
			case 1:
				c.Weights[k] = 0
			}
		}
		// keep at least two eligible backends
		for k := 0; k < 2; k++ {
			c.Down[k] = false
			if c.Weights[k] == 0 {
				c.Weights[k] = g.Range(1, 8)
			}
		}
	}
	W, _ := c.total()
	c.Pre = g.Intn(2*W + 1)
	for k := g.Range(2, 5); k > 0; k-- {
		ph := c01CPhase{G: c01CGs[g.Intn(len(c01CGs))], Yield: g.Chance(1, 4)}
		target := g.Range(1500, 10000)
		if target < 150*ph.G {
			target = 150 * ph.G
		}
		ph.K = (target + W/2) / W
		if ph.K < 1 {
			ph.K = 1
		}
		c.Phases = append(c.Phases, ph)
	}
	return c
}

// c01Concurrent runs the concurrent pick phases, one balancer at a time: the
// goroutines of a phase need processors of their own to be inside Balance at
// the same time.
func c01Concurrent(r *vkit.Run) {
	st := &c01CStat{}
	n := r.N(240, 2400)
	t0 := time.Now()
	vkit.Parallel(n, 1, func(i int) {
		c01CCRun(r, c01CCGen(r, i), st)
	})
	st.WallS = time.Since(t0).Seconds() // reported only
	r.Extra("concurrent_phases", st)
	for _, k := range []string{"cc_phases_overlapped_rr", "cc_phases_overlapped_gslb", "cc_phases_24_or_more_backends", "cc_balancers_some_ineligible",
		"cc_phases_rr_G2-3", "cc_phases_rr_G4-6", "cc_phases_rr_G7-11", "cc_phases_rr_G12-16", "cc_following_windows_exact"} {
		if r.Counter(k) == 0 {
			r.Inconclusive("concurrent phases: counter " + k + " is zero")
		}
	}
	// how many phases overlap depends on the load of the machine; a tenth of them (and 50) is the least that counts as "the workload was concurrent"
	if ph, ov := r.Counter("cc_phases"), r.Counter("cc_phases_overlapped_rr"); ov < 50 || ov < ph/10 {
		r.Inconclusive(fmt.Sprintf("concurrent phases: two goroutines were observed inside BalanceRR.Balance at the same time in only %d of %d phases (need >= 50 and >= a tenth)", ov, ph))
	}
}
