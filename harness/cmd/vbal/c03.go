package main

import (
	"encoding/json"
	"fmt"

	"github.com/bfenetworks/bfe/bfe_balance/backend"
	"github.com/bfenetworks/bfe/bfe_balance/bal_gslb"
	"github.com/bfenetworks/bfe/bfe_balance/bal_slb"
	"github.com/bfenetworks/bfe/bfe_config/bfe_cluster_conf/cluster_table_conf"
	"github.com/bfenetworks/bfe/bfe_config/bfe_cluster_conf/gslb_conf"

	"verifharness/vkit"
)

// C03: a balancing decision never returns an unavailable / non-positive-weight
// backend, never gives first-choice traffic to a sub-cluster with weight <= 0,
// rejects requests assigned to GSLB_BLACKHOLE, and errs exactly when no
// eligible target exists.
//
// Oracle: eligibility predicate over the snapshot taken (under the balancer's
// own locks) immediately before each single-threaded Balance call.

type c03Op struct {
	Kind  string             `json:"kind"` // balance | avail | reload | basic
	Req   *reqSpec           `json:"req,omitempty"`
	Alg   int                `json:"alg,omitempty"`  // rr level
	Key   []byte             `json:"key,omitempty"`  // rr level
	Sub   string             `json:"sub,omitempty"`  // avail
	Name  string             `json:"name,omitempty"` // avail: backend name
	Up    bool               `json:"up,omitempty"`
	Gslb  map[string]int     `json:"gslb,omitempty"`  // reload
	Table map[string][]bspec `json:"table,omitempty"` // reload
	Basic *gbasic            `json:"basic,omitempty"`
}

type c03Case struct {
	Level string             `json:"level"` // gslb | rr
	Gslb  map[string]int     `json:"gslb,omitempty"`
	Table map[string][]bspec `json:"table"`
	Basic gbasic             `json:"basic"`
	Ops   []c03Op            `json:"ops"`
}

func c03TableConf(t map[string][]bspec) cluster_table_conf.ClusterBackend {
	out := cluster_table_conf.ClusterBackend{}
	for k, v := range t {
		out[k] = confOf(v)
	}
	return out
}

func c03Mode(g gbasic) string {
	if g.Sticky {
		return "sticky"
	}
	if g.Mode == "WLC" {
		return "wlc"
	}
	return "wrr"
}

func inRR(rr *bal_slb.VerifRR, b *backend.BfeBackend) *bal_slb.VerifBackend {
	for i := range rr.Backends {
		if rr.Backends[i].Backend == b {
			return &rr.Backends[i]
		}
	}
	return nil
}

// c03GslbStep evaluates one BalanceGslb.Balance call against the reference.
// It returns false when a violation was reported.
func c03GslbStep(r *vkit.Run, c *c03Case, step int, bal *bal_gslb.BalanceGslb, basic gbasic, q reqSpec) bool {
	snap := bal.VerifSnapshot()
	key := q.hashKey(basic)
	pname, pok := bal.VerifPrimary(key)
	req := q.build(basic)
	b, err := bal.Balance(req)
	obs := req.Backend.SubclusterName
	mode := c03Mode(basic)
	wit := func() map[string]interface{} {
		m := map[string]interface{}{"case": c, "step": step, "primary": pname, "reported_sub": obs, "retry": q.Retry,
			"retry_max": snap.RetryMax, "cross_retry": snap.CrossRetry, "mode": mode, "snapshot": c03SnapView(&snap)}
		if b != nil {
			m["returned"] = b.Name + "@" + b.SubCluster
		}
		if err != nil {
			m["error"] = err.Error()
		}
		return m
	}
	viol := func(sig, what string) bool {
		r.Violation(sig+":"+mode, fmt.Sprintf("step %d: %s", step, what), wit())
		return false
	}
	// safety of whatever came back
	if b != nil {
		var vb *bal_slb.VerifBackend
		var vs *bal_gslb.VerifSub
		for i := range snap.Subs {
			if x := inRR(&snap.Subs[i].RR, b); x != nil {
				vb, vs = x, &snap.Subs[i]
			}
		}
		if vb == nil {
			return viol("unknown-backend", "Balance returned a backend that is in no sub-cluster of the snapshot")
		}
		if err == nil {
			if !vb.Avail {
				return viol("unavailable-backend", "Balance returned backend "+b.Name+" which is marked unavailable")
			}
			if vb.Weight <= 0 {
				return viol("nonpositive-weight-backend", fmt.Sprintf("Balance returned backend %s with weight %d", b.Name, vb.Weight))
			}
			if vs.Blackhole {
				return viol("blackhole-forwarded", "Balance returned a backend of the GSLB_BLACKHOLE sub-cluster")
			}
			if vs.Name != obs {
				return viol("sub-name-mismatch", "returned backend is in sub-cluster "+vs.Name+" but req.Backend.SubclusterName="+obs)
			}
		} else {
			if !vb.Avail || vb.Weight <= 0 {
				return viol("ineligible-backend-with-error", "Balance returned an error together with an ineligible backend")
			}
		}
	} else if err == nil {
		return viol("nil-without-error", "Balance returned neither a backend nor an error")
	}
	if q.Retry > snap.RetryMax+snap.CrossRetry {
		r.Count("phase_retries_exhausted", 1)
		if err == nil {
			r.Count("success_after_retries_exhausted", 1)
		}
		return true // bounded retries are C08's subject; only safety above
	}
	if !pok {
		r.Count("phase_no_primary", 1)
		if err == nil {
			return viol("success-without-subcluster", "no sub-cluster could be assigned but Balance succeeded")
		}
		return true
	}
	P := subByName(&snap, pname)
	if P == nil {
		return viol("unknown-primary", "assigned sub-cluster not in snapshot")
	}
	if P.Weight <= 0 {
		return viol("first-choice-nonpositive-weight", fmt.Sprintf("first-choice sub-cluster %s has weight %d", P.Name, P.Weight))
	}
	if P.Blackhole {
		r.Count("phase_blackhole", 1)
		if err == nil {
			return viol("blackhole-forwarded", "request assigned to GSLB_BLACKHOLE was not rejected")
		}
		return true
	}
	if q.Retry <= snap.RetryMax && anyEligible(&P.RR) {
		r.Count("phase_in_cluster_eligible", 1)
		if err != nil {
			return viol("error-with-eligible:in-cluster", "primary sub-cluster "+P.Name+" has an eligible backend but Balance failed: "+err.Error())
		}
		if obs != P.Name {
			return viol("left-eligible-primary", "primary sub-cluster "+P.Name+" has an eligible backend but the request went to "+obs)
		}
		return true
	}
	// cross phase
	if snap.CrossRetry <= 0 {
		r.Count("phase_no_cross_allowed", 1)
		if err == nil {
			return viol("success-without-eligible:cross-disabled", "primary sub-cluster has no eligible backend (or in-cluster retries are used up) and cross retry is off, but Balance succeeded")
		}
		return true
	}
	nc, ne, nneg := 0, 0, 0
	for i := range snap.Subs {
		s := &snap.Subs[i]
		if s.Name == P.Name || s.Blackhole {
			continue
		}
		if s.Weight < 0 {
			if anyEligible(&s.RR) {
				nneg++
			}
			continue
		}
		nc++
		if anyEligible(&s.RR) {
			ne++
		}
	}
	switch {
	case nc == 0 || ne == 0:
		if nneg > 0 {
			r.Count("cross_skipped_negative_weight_subcluster", 1)
			return true // docs give sub-cluster weights as [0,100]; whether a negative one may take cross traffic is unspecified
		}
		r.Count("phase_cross_none_eligible", 1)
		if err == nil {
			return viol("success-without-eligible:cross", "no cross candidate has an eligible backend but Balance succeeded")
		}
	case ne == nc:
		r.Count("phase_cross_all_eligible", 1)
		if err != nil {
			return viol("error-with-eligible:cross", "every cross candidate has an eligible backend but Balance failed: "+err.Error())
		}
	default:
		// the candidate is drawn at random by design; judge by the one the call reports
		r.Count("phase_cross_mixed", 1)
		S := subByName(&snap, obs)
		if S == nil || S.Name == P.Name {
			if err == nil {
				return viol("cross-landed-in-primary", "cross selection reports sub-cluster "+obs)
			}
			return true
		}
		if err != nil && anyEligible(&S.RR) {
			return viol("error-with-eligible:cross-chosen", "chosen cross sub-cluster "+S.Name+" has an eligible backend but Balance failed: "+err.Error())
		}
		if err != nil {
			r.Count("cross_error_while_other_candidate_eligible", 1)
		}
	}
	return true
}

func c03SnapView(s *bal_gslb.VerifGslb) interface{} {
	type bv struct {
		Name  string
		W     int
		Avail bool
		Conn  int
		Cur   int
	}
	type sv struct {
		Name string
		W    int
		BH   bool
		B    []bv
	}
	var out []sv
	for _, x := range s.Subs {
		v := sv{Name: x.Name, W: x.Weight, BH: x.Blackhole}
		for _, b := range x.RR.Backends {
			v.B = append(v.B, bv{b.Backend.Name, b.Weight, b.Avail, b.ConnNum, b.Current})
		}
		out = append(out, v)
	}
	return out
}

func c03RRView(s *bal_slb.VerifRR) interface{} {
	type bv struct {
		Name  string
		W     int
		Avail bool
		Conn  int
		Cur   int
	}
	var out []bv
	for _, b := range s.Backends {
		out = append(out, bv{b.Backend.Name, b.Weight, b.Avail, b.ConnNum, b.Current})
	}
	return out
}

// c03SimpleCanSpin tells whether simpleBalance on this snapshot is in the
// class that C05 covers (empty list -> index panic; an available backend with
// negative weight and no pickable backend -> endless loop).
func c03SimpleExcluded(s *bal_slb.VerifRR) bool {
	if len(s.Backends) == 0 {
		return true
	}
	for _, b := range s.Backends {
		if b.Avail && b.Weight < 0 {
			return true
		}
	}
	return false
}

func c03RRStep(r *vkit.Run, c *c03Case, step int, brr *bal_slb.BalanceRR, alg int, key []byte) bool {
	snap := brr.VerifSnapshot()
	if alg == bal_slb.WrrSimple && c03SimpleExcluded(&snap) {
		r.Count("rr_simple_skipped_c05_class", 1)
		return true
	}
	b, err := brr.Balance(alg, key)
	an := algNames[alg]
	wit := func() map[string]interface{} {
		m := map[string]interface{}{"case": c, "step": step, "alg": an, "snapshot": c03RRView(&snap)}
		if b != nil {
			m["returned"] = b.Name
		}
		if err != nil {
			m["error"] = err.Error()
		}
		return m
	}
	viol := func(sig, what string) bool {
		r.Violation(sig+":"+an, fmt.Sprintf("step %d: %s", step, what), wit())
		return false
	}
	el := anyEligible(&snap)
	if b != nil {
		vb := inRR(&snap, b)
		if vb == nil {
			return viol("unknown-backend", "returned backend is not in the list")
		}
		if !vb.Avail || vb.Weight <= 0 {
			if err != nil {
				return viol("ineligible-backend-with-error", fmt.Sprintf("Balance returned an error together with backend %s (avail=%v weight=%d)", b.Name, vb.Avail, vb.Weight))
			}
			if !vb.Avail {
				return viol("unavailable-backend", "Balance returned backend "+b.Name+" which is marked unavailable")
			}
			return viol("nonpositive-weight-backend", fmt.Sprintf("Balance returned backend %s with weight %d", b.Name, vb.Weight))
		}
	} else if err == nil {
		return viol("nil-without-error", "neither backend nor error")
	}
	if el {
		r.Count("rr_eligible", 1)
		if err != nil {
			return viol("error-with-eligible", "an eligible backend exists but Balance failed: "+err.Error())
		}
	} else {
		r.Count("rr_none_eligible", 1)
		if err == nil {
			return viol("success-without-eligible", "no eligible backend exists but Balance succeeded")
		}
	}
	return true
}

func c03Run(r *vkit.Run, c *c03Case) {
	desc := func() interface{} { return c }
	nbal, elig, inelig := 0, false, false
	try(r, desc, func() {
		if c.Level == "rr" {
			brr := bal_slb.NewBalanceRR("s")
			brr.Init(confOf(c.Table["s"]))
			for i, op := range c.Ops {
				switch op.Kind {
				case "balance":
					nbal++
					s := brr.VerifSnapshot()
					for _, b := range s.Backends {
						if eligible(b) {
							elig = true
						} else {
							inelig = true
						}
					}
					if !c03RRStep(r, c, i, brr, op.Alg, op.Key) {
						return
					}
				case "avail":
					for _, b := range brr.VerifSnapshot().Backends {
						if b.Backend.Name == op.Name {
							b.Backend.SetAvail(op.Up)
						}
					}
				case "reload":
					brr.Update(confOf(op.Table["s"]))
				}
			}
			return
		}
		bal := bal_gslb.NewBalanceGslb("cl")
		if err := bal.Init(gslb_conf.GslbClusterConf(c.Gslb)); err != nil {
			// every generated gslb conf has a positive total weight
			r.Violation("init-rejected-valid", err.Error(), c)
			return
		}
		bal.BackendInit(c03TableConf(c.Table))
		basic := c.Basic
		bal.SetGslbBasic(basic.conf())
		for i, op := range c.Ops {
			switch op.Kind {
			case "balance":
				nbal++
				s := bal.VerifSnapshot()
				for _, sub := range s.Subs {
					for _, b := range sub.RR.Backends {
						if eligible(b) {
							elig = true
						} else {
							inelig = true
						}
					}
				}
				if !c03GslbStep(r, c, i, bal, basic, *op.Req) {
					return
				}
			case "avail":
				s := bal.VerifSnapshot()
				if sub := subByName(&s, op.Sub); sub != nil {
					for _, b := range sub.RR.Backends {
						if b.Backend.Name == op.Name {
							b.Backend.SetAvail(op.Up)
						}
					}
				}
			case "reload":
				if err := bal.Reload(gslb_conf.GslbClusterConf(op.Gslb)); err != nil {
					r.Violation("reload-rejected-valid", err.Error(), c)
					return
				}
				bal.BackendReload(c03TableConf(op.Table))
			case "basic":
				basic = *op.Basic
				bal.SetGslbBasic(basic.conf())
			}
		}
	})
	kb, _ := json.Marshal(c)
	r.CaseS(string(kb), nbal > 0 && elig && inelig)
	r.Count("balance_calls", int64(nbal))
	r.Count("level_"+c.Level, 1)
	if r.WantSample() && len(c.Table) >= 3 {
		r.Sample(c)
	}
}

var c03SubNames = []string{"s.a", "s.b", "s.c", "s.d"}

func c03GenBackends(g *vkit.Rand, sub string, loaderValid bool) []bspec {
	n := g.Intn(7)
	if loaderValid && n == 0 {
		n = 1
	}
	bs := make([]bspec, 0, n)
	for i := 0; i < n; i++ {
		w := g.Range(1, 5)
		switch g.Intn(8) {
		case 0:
			w = 0
		case 1:
			w = -g.Range(1, 3)
		}
		bs = append(bs, bspec{Name: fmt.Sprintf("%s-%d", sub, i), Addr: fmt.Sprintf("10.1.%d.%d", g.Intn(2), i+1), Port: 80, Weight: w})
	}
	if loaderValid {
		ok := false
		for _, b := range bs {
			if b.Weight > 0 {
				ok = true
			}
		}
		if !ok {
			bs[g.Intn(len(bs))].Weight = g.Range(1, 5)
		}
	}
	return bs
}

func c03GenGslb(g *vkit.Rand) (map[string]int, map[string][]bspec) {
	n := g.Range(1, 4)
	gs := map[string]int{}
	tb := map[string][]bspec{}
	pos := 0
	for i := 0; i < n; i++ {
		w := g.Range(1, 60)
		switch g.Intn(6) {
		case 0, 1:
			w = 0
		case 2:
			if g.Bool() {
				w = -g.Range(1, 10)
			}
		}
		if w > 0 {
			pos++
		}
		gs[c03SubNames[i]] = w
		if !g.Chance(1, 10) { // a sub-cluster without table entry has an empty list
			tb[c03SubNames[i]] = c03GenBackends(g, c03SubNames[i], true)
		}
	}
	if g.Chance(1, 2) {
		w := 0
		if g.Chance(1, 3) {
			w = g.Range(1, 50)
			pos++
		}
		gs["GSLB_BLACKHOLE"] = w
		if g.Chance(1, 4) {
			tb["GSLB_BLACKHOLE"] = c03GenBackends(g, "bh", true)
		}
	}
	if pos == 0 {
		gs[c03SubNames[0]] = g.Range(1, 60)
	}
	return gs, tb
}

func c03GenBasic(g *vkit.Rand) gbasic {
	b := gbasic{RetryMax: g.Intn(4), CrossRetry: g.Intn(3), Mode: "WRR", Strategy: 1, Header: "X-Id"}
	switch g.Intn(3) {
	case 0:
		b.Mode = "WLC"
	case 1:
		b.Sticky = true
	}
	if g.Chance(1, 4) {
		b.Strategy = g.Intn(4)
	}
	return b
}

// c03Regen generates history i; it is a pure function of (seed, i).
func c03Regen(r *vkit.Run, i int, nops int) *c03Case {
	g := r.Rng("hist2", i)
	c := &c03Case{}
	if g.Chance(1, 3) {
		c.Level = "rr"
		cur := c03GenBackends(g, "s", false)
		c.Table = map[string][]bspec{"s": cur}
		for k := 0; k < nops; k++ {
			switch {
			case g.Chance(6, 10) || len(cur) == 0:
				c.Ops = append(c.Ops, c03Op{Kind: "balance", Alg: g.Intn(5), Key: g.Bytes(g.Range(1, 8))})
			case g.Chance(3, 4):
				c.Ops = append(c.Ops, c03Op{Kind: "avail", Name: cur[g.Intn(len(cur))].Name, Up: g.Chance(1, 3)})
			default:
				cur = c03GenBackends(g, "s", false)
				c.Ops = append(c.Ops, c03Op{Kind: "reload", Table: map[string][]bspec{"s": cur}})
			}
		}
		return c
	}
	c.Level = "gslb"
	c.Gslb, c.Table = c03GenGslb(g)
	c.Basic = c03GenBasic(g)
	basic := c.Basic
	table := c.Table
	for k := 0; k < nops; k++ {
		switch x := g.Intn(20); {
		case x < 11:
			q := reqSpec{IP: g.Bytes(4), Header: fmt.Sprintf("h%d", g.Intn(50)), URI: fmt.Sprintf("/u%d", g.Intn(50))}
			q.Retry = g.Intn(basic.RetryMax + basic.CrossRetry + 2)
			if q.hashKey(basic) == nil {
				q.Header = "hx"
			}
			c.Ops = append(c.Ops, c03Op{Kind: "balance", Req: &q})
		case x < 17:
			var subs []string
			for s, bs := range table {
				if len(bs) > 0 {
					subs = append(subs, s)
				}
			}
			if len(subs) == 0 {
				continue
			}
			sortStrings(subs)
			s := subs[g.Intn(len(subs))]
			if g.Chance(1, 3) { // whole sub-cluster down
				for _, b := range table[s] {
					c.Ops = append(c.Ops, c03Op{Kind: "avail", Sub: s, Name: b.Name, Up: false})
				}
			} else {
				b := table[s][g.Intn(len(table[s]))]
				c.Ops = append(c.Ops, c03Op{Kind: "avail", Sub: s, Name: b.Name, Up: g.Chance(1, 3)})
			}
		case x < 19:
			gs, tb := c03GenGslb(g)
			c.Ops = append(c.Ops, c03Op{Kind: "reload", Gslb: gs, Table: tb})
			// sub-clusters missing in tb keep their old list
			nt := map[string][]bspec{}
			for s := range gs {
				if v, ok := tb[s]; ok {
					nt[s] = v
				} else if v, ok := table[s]; ok {
					nt[s] = v
				}
			}
			table = nt
		default:
			nb := c03GenBasic(g)
			basic = nb
			c.Ops = append(c.Ops, c03Op{Kind: "basic", Basic: &nb})
		}
	}
	return c
}

func sortStrings(xs []string) {
	for i := 1; i < len(xs); i++ {
		for j := i; j > 0 && xs[j] < xs[j-1]; j-- {
			xs[j], xs[j-1] = xs[j-1], xs[j]
		}
	}
}

func c03(r *vkit.Run) {
	r.SetRule("single-threaded histories of 20 ops. gslb level (2/3): 1-4 sub-clusters (weights incl. 0 and negative, GSLB_BLACKHOLE with weight 0 or positive, with or without backends), 0-6 backends each (weights incl. 0 and negative as ClusterTableLoad accepts them), WRR / WLC / sticky, RetryMax 0..3, CrossRetry 0..2, RetryTime 0..RetryMax+CrossRetry+1; ops = Balance / SetAvail (single backend or whole sub-cluster) / Reload+BackendReload with a valid conf / SetGslbBasic. rr level (1/3): BalanceRR with all five algorithms, lists of 0-6 backends. Before each Balance a snapshot is taken through the verif accessor; the reference decides: eligible backend = available and weight>0; first choice = the sub-cluster the balancer's own sub-cluster selection assigns to the key (must have weight>0, blackhole must be rejected); in-cluster phase (RetryTime<=RetryMax) must succeed iff the primary has an eligible backend, otherwise cross phase: no success unless CrossRetry>0 and a non-blackhole other sub-cluster with weight>=0 has an eligible backend; if all such candidates are eligible it must succeed; if only some are, the randomly drawn candidate reported in req.Backend.SubclusterName decides. Excluded: RetryTime beyond the retry budget (C08), negative-weight sub-clusters as cross candidates (undocumented), WrrSimple on an empty list or with an available negative-weight backend (C05 totality class). Non-trivial = history with >=1 Balance that saw both eligible and ineligible backends; distinct = whole history. " +
		"SLOW START ENABLED (c03ss.go; 4000 histories, thorough 80000; half BalanceRR with WrrSmooth / WlcSmooth / WlcSimple / WrrSimple / WrrSticky, half BalanceGslb with one weighted sub-cluster + blackhole 0 in WRR / WLC / sticky mode, slow_start_time 1/5/30/60 s set through SetSlowStart): 1-4 initial backends (weights 0..3), then 3-6 rounds of [connections held on the positive-weight backends (WLC: mostly)] + one event + 1-3 decisions, the FIRST decision directly after the event (no warm-up). Events: backend reload adding 1-2 backends (half of them configured with weight 0; a third of the time after all other backends went down); a backend taken down and brought back as the health checker does (SetRestart(true), SetAvail(true)), preferably one with weight 0, a third of the time with all others down; reload changing the weight of a present backend to / from 0; reload replacing every backend; with slow_start_time 1 s a sixth of the rounds sleeps 12-25 ms and decides 1-4 more times (ramping backends then have a positive effective weight). Oracle on the harness' model of the configuration: a returned backend is in the current list, available and has a CONFIGURED weight > 0; an error is a violation when an available backend with configured weight > 0 exists that is not ramping (restart flag pending or InSlowStart before the call). Excluded: an error while every such backend is ramping (effective weight starts at 0; property and docs do not say what weight a ramping backend has) - counted, not judged. No verdict depends on time. Non-trivial = history with a first decision taken while a restart-flagged backend of configured weight 0 was present; distinct = whole history")
	r.Assume("the first-choice sub-cluster is observed through the verif accessor VerifPrimary, which runs the balancer's own subClusterBalance on the same key and state")
	nops := 20
	if r.Replay != "" {
		var w struct {
			Case c03Case    `json:"case"`
			SS   *c03SSCase `json:"sscase"`
		}
		if err := r.LoadReplay(&w); err != nil {
			r.Inconclusive(err.Error())
			return
		}
		if w.SS != nil {
			c03SSRun(r, w.SS, &c03SSStat{})
		} else {
			c03Run(r, &w.Case)
		}
		r.SetMinDistinct(0)
		return
	}
	n := r.N(3000, 60000)
	vkit.Parallel(n, 0, func(i int) {
		c03Run(r, c03Regen(r, i, nops))
	})
	for _, k := range []string{"phase_in_cluster_eligible", "phase_blackhole", "phase_no_cross_allowed", "phase_cross_none_eligible", "phase_cross_all_eligible", "phase_cross_mixed", "rr_eligible", "rr_none_eligible"} {
		if r.Counter(k) == 0 {
			r.Inconclusive("the workload never reached " + k)
		}
	}
	c03SlowStart(r)
}
