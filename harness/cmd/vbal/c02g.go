package main

import (
	"encoding/json"
	"fmt"
	"sort"
	"sync"
	"time"

	"github.com/spaolacci/murmur3"

	"github.com/bfenetworks/bfe/bfe_balance/bal_gslb"
	"github.com/bfenetworks/bfe/bfe_config/bfe_cluster_conf/gslb_conf"

	"verifharness/vkit"
)

// C02, GSLB-CONF RELOAD HISTORIES: the sub-cluster SET and the sub-cluster
// weights are reached through BalanceGslb.Reload / ReloadAll (the histories of
// c02.go keep the sub-cluster set fixed and reload backend lists only).
//
// Shapes aimed at: exactly ONE sub-cluster with a positive weight next to 1-3
// sub-clusters of weight 0 (GSLB_BLACKHOLE at 0 among them), reached by a
// reload that adds / removes zero-weight sub-clusters whose names sort before
// / after the weighted one; transitions between one and several weighted
// sub-clusters; weights moving from one sub-cluster to another.
//
// Oracle (the one of the other histories): every key gets the same target on
// the balancer with the history as on a balancer freshly initialised with the
// final configuration, the target is an eligible one, every residue class of
// murmur3_64(key) mod M has one target and each target owns M*w/W classes.

type c02GStep struct {
	Gslb     map[string]int     `json:"gslb"`
	Backends map[string][]bspec `json:"backends"`
	All      bool               `json:"reload_all"` // ReloadAll instead of Reload + BackendReload
	Picks    int                `json:"picks_after"`
}

type c02GHist struct {
	Case  c02Case    `json:"case"`  // final configuration; the fresh instance is Init'ed with it
	Steps []c02GStep `json:"steps"` // Steps[0] is Init + BackendInit
}

func (h *c02GHist) key() string {
	b, _ := json.Marshal(struct {
		C string
		S []c02GStep
	}{h.Case.key(), h.Steps})
	return string(b)
}

var c02GNames = []string{"A.bj", "GSLB_BLACKHOLE", "a.bj", "b.gz", "c10", "c9", "sub_x"}

const c02GBlackhole = "GSLB_BLACKHOLE"

func c02GPositive(gs map[string]int) []string {
	var out []string
	for n, w := range gs {
		if w > 0 {
			out = append(out, n)
		}
	}
	sort.Strings(out)
	return out
}

func c02GSorted(gs map[string]int) []string {
	out := make([]string, 0, len(gs))
	for n := range gs {
		out = append(out, n)
	}
	sort.Strings(out)
	return out
}

// c02GKind classifies the reload prev -> next by what it does to the
// sub-cluster set, relative to the weighted sub-cluster(s) of next.
func c02GKind(prev, next map[string]int) string {
	pos := c02GPositive(next)
	shape := "multi"
	if len(pos) == 1 {
		shape = "single"
	}
	ref := pos[len(pos)-1] // single: the weighted one; multi: the last weighted one in name order
	addB, addA, remB, remA, addW, remW, wchg := 0, 0, 0, 0, 0, 0, 0
	for n, w := range next {
		pw, ok := prev[n]
		switch {
		case !ok && w > 0:
			addW++
		case !ok && n < ref:
			addB++
		case !ok:
			addA++
		case pw != w:
			wchg++
		}
	}
	for n, pw := range prev {
		if _, ok := next[n]; ok {
			continue
		}
		switch {
		case pw > 0:
			remW++
		case n < ref:
			remB++
		default:
			remA++
		}
	}
	k := ""
	zeroSet := addB+addA+remB+remA > 0
	switch {
	case addW > 0 && remW == 0 && !zeroSet:
		k = "add-weighted"
	case remW > 0 && addW == 0 && !zeroSet:
		k = "remove-weighted"
	case addW+remW > 0:
		k = "mixed"
	case addB+addA > 0 && remB+remA > 0:
		k = "add-and-remove-zero"
	case addB > 0 && addA > 0:
		k = "add-zero-both-sides"
	case addB > 0:
		k = "add-zero-before"
	case addA > 0:
		k = "add-zero-after"
	case remB > 0 && remA > 0:
		k = "remove-zero-both-sides"
	case remB > 0:
		k = "remove-zero-before"
	case remA > 0:
		k = "remove-zero-after"
	case wchg > 0:
		k = "weights-only"
	default:
		k = "noop"
	}
	if wchg > 0 && k != "weights-only" && k != "mixed" {
		k += "+weights"
	}
	return shape + ":" + k
}

func c02GCopy(gs map[string]int) map[string]int {
	out := make(map[string]int, len(gs))
	for k, v := range gs {
		out[k] = v
	}
	return out
}

// c02GAbsent draws a name that is not in gs; side <0 / >0 asks for one that
// sorts before / after ref (0 = any). ok=false when there is none.
func c02GAbsent(g *vkit.Rand, gs map[string]int, ref string, side int) (string, bool) {
	var cand []string
	for _, n := range c02GNames {
		if _, ok := gs[n]; ok {
			continue
		}
		if (side < 0 && n > ref) || (side > 0 && n < ref) {
			continue
		}
		cand = append(cand, n)
	}
	if len(cand) == 0 {
		return "", false
	}
	return cand[g.Intn(len(cand))], true
}

func c02GZeroNames(gs map[string]int, ref string, side int) []string {
	var out []string
	for _, n := range c02GSorted(gs) {
		if gs[n] != 0 {
			continue
		}
		if (side < 0 && n > ref) || (side > 0 && n < ref) {
			continue
		}
		out = append(out, n)
	}
	return out
}

// c02GMutate makes the sub-cluster conf of the next reload. want is one of
// add-zero-before / add-zero-after / remove-zero-before / remove-zero-after /
// weights / move-weight / add-weighted / remove-weighted / to-single /
// noop. The result always has a positive weight on a non-blackhole
// sub-cluster (a configuration that ClusterCheck accepts).
func c02GMutate(g *vkit.Rand, cur map[string]int, want string) map[string]int {
	next := c02GCopy(cur)
	pos := c02GPositive(next)
	ref := pos[len(pos)-1]
	if len(pos) > 1 && g.Bool() {
		ref = pos[0]
	}
	switch want {
	case "add-zero-before", "add-zero-after":
		side := -1
		if want == "add-zero-after" {
			side = 1
		}
		for k := g.Range(1, 2); k > 0; k-- {
			if n, ok := c02GAbsent(g, next, ref, side); ok {
				next[n] = 0
			}
		}
	case "remove-zero-before", "remove-zero-after":
		side := -1
		if want == "remove-zero-after" {
			side = 1
		}
		if zs := c02GZeroNames(next, ref, side); len(zs) > 0 {
			delete(next, zs[g.Intn(len(zs))])
		}
	case "weights":
		for _, n := range pos {
			if g.Bool() {
				next[n] = g.Range(1, 30)
			}
		}
		if zs := c02GZeroNames(next, "", 0); len(zs) > 0 && g.Chance(1, 3) {
			if n := zs[g.Intn(len(zs))]; n != c02GBlackhole || g.Chance(1, 4) {
				next[n] = g.Range(1, 20)
			}
		}
	case "move-weight": // the weight goes from one sub-cluster to another one
		var zs []string
		for _, n := range c02GZeroNames(next, "", 0) {
			if n != c02GBlackhole {
				zs = append(zs, n)
			}
		}
		if len(zs) > 0 {
			from := pos[g.Intn(len(pos))]
			to := zs[g.Intn(len(zs))]
			next[to], next[from] = next[from], 0
		}
	case "add-weighted":
		if n, ok := c02GAbsent(g, next, "", 0); ok && n != c02GBlackhole {
			next[n] = g.Range(1, 30)
		}
	case "remove-weighted":
		if len(pos) > 1 {
			delete(next, pos[g.Intn(len(pos))])
		}
	case "to-single": // all weighted sub-clusters but one go to 0
		keep := pos[g.Intn(len(pos))]
		if keep == c02GBlackhole && len(pos) > 1 {
			keep = pos[len(pos)-1]
		}
		for _, n := range pos {
			if n != keep {
				next[n] = 0
			}
		}
	}
	// a valid conf: some non-blackhole sub-cluster carries a positive weight
	ok := false
	for n, w := range next {
		if w > 0 && n != c02GBlackhole {
			ok = true
		}
	}
	if !ok {
		for _, n := range c02GSorted(next) {
			if n != c02GBlackhole {
				next[n] = g.Range(1, 30)
				ok = true
				break
			}
		}
		if !ok {
			next["sub_x"] = g.Range(1, 30)
		}
	}
	return next
}

var c02GWants = []string{"add-zero-before", "add-zero-after", "remove-zero-before", "remove-zero-after", "weights", "move-weight", "add-weighted", "remove-weighted", "to-single", "noop"}

func c02GenGHist(r *vkit.Run, i int) *c02GHist {
	g := r.Rng("ghist", i)
	h := &c02GHist{}
	c := &h.Case
	c.Seed = g.U64()
	c.Build = "gslb-history"
	c.Basic = gbasic{RetryMax: 2, CrossRetry: 0, Mode: c02DrawMode(g), Strategy: g.Intn(4), Sticky: g.Bool()}
	if g.Bool() {
		c.Basic.Header = "X-Client-Id"
	} else {
		c.Basic.Header = "Cookie:UID"
	}
	// one fixed backend list per sub-cluster name (backend-list histories are
	// the subject of c02.go)
	backs := map[string][]bspec{}
	for _, n := range c02GNames {
		if n == c02GBlackhole {
			continue
		}
		hg := c02HistGen(n)
		var bs []bspec
		for k := g.Range(1, 2); k > 0; k-- {
			b, _ := hg.fresh(g, bs)
			b.Weight = g.Range(1, 2)
			bs = append(bs, b)
		}
		backs[n] = bs
	}
	table := func(gs map[string]int) map[string][]bspec {
		t := map[string][]bspec{}
		for n := range gs {
			if bs, ok := backs[n]; ok {
				t[n] = bs
			}
		}
		return t
	}
	// initial conf: 1-3 weighted, 0-2 zero-weight sub-clusters
	cur := map[string]int{}
	p := g.Perm(len(c02GNames))
	nw := g.Range(1, 3)
	if g.Chance(1, 2) {
		nw = 1
	}
	for _, k := range p {
		n := c02GNames[k]
		if n == c02GBlackhole {
			continue
		}
		if nw > 0 {
			cur[n] = g.Range(1, 30)
			nw--
		}
	}
	for k := g.Intn(3); k > 0; k-- {
		if n, ok := c02GAbsent(g, cur, "", 0); ok {
			cur[n] = 0
		}
	}
	h.Steps = append(h.Steps, c02GStep{Gslb: cur, Backends: table(cur), Picks: g.Intn(4)})
	// two thirds of the histories end in the single-weighted shape
	single := g.Chance(2, 3)
	nsteps := g.Range(1, 4)
	for k := 0; k < nsteps; k++ {
		want := c02GWants[g.Intn(len(c02GWants))]
		last := k == nsteps-1
		var next map[string]int
		if last && single {
			// make the conf BEFORE the last reload single-weighted with at least
			// one zero-weight neighbour where the wanted last step needs it, then
			// add / remove zero-weight sub-clusters around the weighted one
			want = []string{"add-zero-before", "add-zero-after", "remove-zero-before", "remove-zero-after", "add-zero-before", "add-zero-after", "weights", "move-weight"}[g.Intn(8)]
			{
				pre := c02GMutate(g, cur, "to-single")
				// at most 3 zero-weight sub-clusters next to the weighted one after the last step
				maxZero := 3
				switch want {
				case "add-zero-before", "add-zero-after":
					maxZero = 1
				case "remove-zero-before":
					pre = c02GMutate(g, pre, "add-zero-before")
				case "remove-zero-after":
					pre = c02GMutate(g, pre, "add-zero-after")
				}
				for {
					zs := c02GZeroNames(pre, "", 0)
					if len(zs) <= maxZero {
						break
					}
					delete(pre, zs[g.Intn(len(zs))])
				}
				if c02GDiffers(cur, pre) {
					h.Steps = append(h.Steps, c02GStep{Gslb: pre, Backends: table(pre), All: g.Bool(), Picks: g.Intn(4)})
					cur = pre
				}
			}
			next = c02GMutate(g, cur, want)
			if !c02GDiffers(cur, next) {
				// e.g. no free name sorts before the weighted sub-cluster
				next = c02GMutate(g, cur, []string{"add-zero-after", "add-zero-before", "weights"}[g.Intn(3)])
			}
		} else {
			next = c02GMutate(g, cur, want)
			if last && len(c02GPositive(next)) < 2 {
				// the other third ends with several weighted sub-clusters
				next = c02GMutate(g, next, "add-weighted")
			}
		}
		h.Steps = append(h.Steps, c02GStep{Gslb: next, Backends: table(next), All: g.Bool(), Picks: g.Intn(4)})
		cur = next
	}
	h.Steps[len(h.Steps)-1].Picks = 0
	// final configuration as a c02Case
	pos := c02GPositive(cur)
	c.Level = "gslb-sub"
	if len(pos) == 1 && c.Basic.Sticky {
		c.Level = "gslb-sticky" // targets are the backends of the one weighted sub-cluster
	}
	for _, n := range c02GSorted(cur) {
		bs := backs[n]
		c.Subs = append(c.Subs, c02Sub{Name: n, Weight: cur[n], Backends: bs, Down: make([]bool, len(bs))})
	}
	return h
}

// c02GDiffers tells whether two sub-cluster confs differ.
func c02GDiffers(a, b map[string]int) bool {
	if len(a) != len(b) {
		return true
	}
	for k, v := range a {
		if w, ok := b[k]; !ok || w != v {
			return true
		}
	}
	return false
}

func c02BuildGHist(h *c02GHist, g *vkit.Rand) (*c02Instance, error) {
	c := &h.Case
	inst := &c02Instance{c: c, conn: newC02Conn(vkit.Hash64("conn-ghist", fmt.Sprint(c.Seed)))}
	inst.bal = bal_gslb.NewBalanceGslb("cl")
	gb, err := c02BasicConf(c.Basic)
	if err != nil {
		return nil, err
	}
	for i, st := range h.Steps {
		gc := gslb_conf.GslbClusterConf(c02GCopy(st.Gslb))
		tc := c02TableOf(st.Backends)
		switch {
		case i == 0:
			if err := inst.bal.Init(gc); err != nil {
				return nil, err
			}
			inst.bal.BackendInit(tc)
			inst.bal.SetGslbBasic(gb)
			inst.preloadConns()
		case st.All:
			if err := inst.bal.ReloadAll(gc, tc); err != nil {
				return nil, err
			}
		default:
			if err := inst.bal.Reload(gc); err != nil {
				return nil, err
			}
			inst.bal.BackendReload(tc)
		}
		for n := st.Picks; n > 0; n-- {
			q, key := c02GenKey(c, g)
			inst.ask(key, q)
		}
	}
	return inst, nil
}

var c02GHistSamples struct {
	sync.Mutex
	s []interface{}
}

func c02GHistCheck(r *vkit.Run, h *c02GHist) {
	c := &h.Case
	g := vkit.NewRand(c.Seed)
	exp, M := c02Expected(c)
	if M == 0 || len(h.Steps) < 2 {
		return
	}
	desc := func() interface{} { return map[string]interface{}{"ghist": h} }
	n := len(h.Steps)
	kind := c02GKind(h.Steps[n-2].Gslb, h.Steps[n-1].Gslb)
	var kinds []string
	for i := 1; i < n; i++ {
		kinds = append(kinds, c02GKind(h.Steps[i-1].Gslb, h.Steps[i].Gslb))
	}
	var hist, fresh *c02Instance
	var berr error
	if try(r, desc, func() {
		if hist, berr = c02BuildGHist(h, g); berr != nil {
			return
		}
		fc := *c
		fc.Build = "init"
		fresh, berr = c02Build(&fc, c02MakeOrdering(&fc, g, true), "ghist")
	}) {
		return
	}
	if berr != nil {
		r.Violation("gslb-reload:build-rejected:"+c.Level, "a valid configuration was rejected: "+berr.Error(), desc())
		return
	}
	r.Count("ghist_last_"+kind, 1) // shapes are counted whether or not the comparison below fails
	classes, covered := c02CollectKeys(c, g, M)
	nkeys := 0
	for _, cl := range classes {
		nkeys += len(cl)
	}
	for nkeys < 200 {
		q, key := c02GenKey(c, g)
		res := int(murmur3.Sum64(key) % uint64(M))
		classes[res] = append(classes[res], c02KQ{q, key})
		nkeys++
	}
	weightOf := map[string]int{}
	for _, s := range c.Subs {
		weightOf[s.Name] = s.Weight
	}
	owner := make([]string, M)
	owned := map[string]int{}
	failed := false
	if try(r, desc, func() {
		for res := 0; res < M && !failed; res++ {
			for j, x := range classes[res] {
				tf := fresh.ask(x.key, x.q)
				th := hist.ask(x.key, x.q)
				if th2 := hist.ask(x.key, x.q); th2 != th {
					r.Violation("gslb-reload:repetition-differs:"+c.Level+":"+c02CanonMode(c.Basic.Mode),
						fmt.Sprintf("key %x maps to %s and, asked again on the same balancer (BalanceMode %q, only connection counts changed), to %s", x.key, th, c.Basic.Mode, th2),
						map[string]interface{}{"ghist": h, "key": x.key, "req": x.q, "target_first": th, "target_again": th2})
					failed = true
					return
				}
				if th != tf {
					r.Violation("gslb-reload:history-dependent:"+kind+":"+c.Level,
						fmt.Sprintf("key %x maps to %s (sub-cluster weight %d) on a balancer that reached the sub-cluster configuration through reloads (last reload: %s) but to %s on a freshly initialised balancer with the same configuration", x.key, th, weightOf[th.Sub], kind, tf),
						map[string]interface{}{"ghist": h, "key": x.key, "req": x.q, "target_after_history": th, "target_fresh": tf, "reload_kinds": kinds})
					failed = true
					return
				}
				tgt := th.Addr
				if c.Level == "gslb-sub" {
					tgt = th.Sub
				}
				if _, ok := exp[tgt]; !ok {
					r.Violation("gslb-reload:ineligible-target:"+kind+":"+c.Level, fmt.Sprintf("key %x maps to %s which is not an eligible target of the final configuration", x.key, th),
						map[string]interface{}{"ghist": h, "key": x.key, "req": x.q, "target": th, "reload_kinds": kinds})
					failed = true
					return
				}
				if j == 0 {
					owner[res] = tgt
					owned[tgt]++
				} else if owner[res] != tgt {
					r.Violation("gslb-reload:residue-two-targets:"+c.Level,
						fmt.Sprintf("after the reload history two keys with murmur3_64 mod %d = %d map to %s and %s", M, res, owner[res], tgt),
						map[string]interface{}{"ghist": h, "residue": res, "M": M, "key_a": classes[res][0].key, "key_b": x.key})
					failed = true
					return
				}
			}
		}
	}) || failed {
		return
	}
	if covered == M {
		names := make([]string, 0, len(exp))
		for t := range exp {
			names = append(names, t)
		}
		sort.Strings(names)
		for _, t := range names {
			if owned[t] != exp[t] {
				r.Violation("gslb-reload:residue-share:"+c.Level,
					fmt.Sprintf("after the reload history target %s owns %d of %d residue classes, its weight share is %d", t, owned[t], M, exp[t]),
					map[string]interface{}{"ghist": h, "M": M, "owned": owned, "expected": exp})
				break
			}
		}
	}
	// non-trivial: the final configuration has >= 2 sub-clusters (a wrong choice
	// is possible), all classes covered, and the history really changed the
	// sub-cluster configuration
	changed := false
	for _, k := range kinds {
		if k != "single:noop" && k != "multi:noop" {
			changed = true
		}
	}
	r.Case(vkit.Hash64("ghist", h.key()), len(c.Subs) >= 2 && covered == M && changed)
	r.Count("ghist_keys_compared", int64(nkeys))
	r.Count("ghist_level_"+c.Level, 1)
	pos, zero, bh0 := 0, 0, false
	for _, s := range c.Subs {
		if s.Weight > 0 {
			pos++
		} else {
			zero++
			if s.Name == c02GBlackhole {
				bh0 = true
			}
		}
	}
	if pos == 1 && zero >= 1 {
		r.Count(fmt.Sprintf("ghist_final_single_weighted_with_%d_zero", zero), 1)
		if bh0 {
			r.Count("ghist_final_single_weighted_with_blackhole_0", 1)
		}
	}
	if c.Basic.Sticky {
		r.Count("ghist_sticky", 1)
	} else {
		r.Count("ghist_not_sticky", 1)
	}
	if h.Steps[n-1].All {
		r.Count("ghist_last_via_ReloadAll", 1)
	} else {
		r.Count("ghist_last_via_Reload", 1)
	}
	if pos == 1 && zero >= 1 && n <= 3 {
		c02GHistSamples.Lock()
		if len(c02GHistSamples.s) < 3 {
			c02GHistSamples.s = append(c02GHistSamples.s, map[string]interface{}{"ghist": h, "reload_kinds": kinds, "M": M, "owned_after_history": owned})
		}
		c02GHistSamples.Unlock()
	}
}

func c02GHistories(r *vkit.Run) {
	n := r.N(800, 16000)
	t0 := time.Now()
	vkit.Parallel(n, 0, func(i int) {
		c02GHistCheck(r, c02GenGHist(r, i))
	})
	r.Extra("gslb_reload_histories_wall_s", time.Since(t0).Seconds()) // reported only
	r.Extra("gslb_reload_history_samples", c02GHistSamples.s)
	for _, k := range []string{
		"ghist_last_single:add-zero-before", "ghist_last_single:add-zero-after", "ghist_last_single:remove-zero-before", "ghist_last_single:remove-zero-after",
		"ghist_last_single:weights-only", "ghist_last_multi:add-weighted", "ghist_last_multi:weights-only",
		"ghist_final_single_weighted_with_1_zero", "ghist_final_single_weighted_with_2_zero", "ghist_final_single_weighted_with_3_zero",
		"ghist_final_single_weighted_with_blackhole_0", "ghist_level_gslb-sub", "ghist_level_gslb-sticky",
		"ghist_sticky", "ghist_not_sticky", "ghist_last_via_ReloadAll", "ghist_last_via_Reload"} {
		if r.Counter(k) == 0 {
			r.Inconclusive("gslb-conf reload histories: counter " + k + " is zero")
		}
	}
}
