package main

import (
	"encoding/json"
	"fmt"
	"strconv"
	"strings"
	"sync"

	"github.com/bfenetworks/bfe/bfe_balance/backend"
	"github.com/bfenetworks/bfe/bfe_balance/bal_gslb"
	"github.com/bfenetworks/bfe/bfe_balance/bal_slb"
	"github.com/bfenetworks/bfe/bfe_basic"
	"github.com/bfenetworks/bfe/bfe_config/bfe_cluster_conf/cluster_table_conf"
	"github.com/bfenetworks/bfe/bfe_config/bfe_cluster_conf/gslb_conf"

	"verifharness/vkit"
)

// C01: smooth WRR gives exact weight shares in every window of W picks, the
// sequence has period W and is a function of the ordered weight list.
// Oracle: pure counting over recorded pick sequences (no re-implementation of
// the algorithm).

type c01Case struct {
	Weights  []int  `json:"weights"`
	Down     []bool `json:"down,omitempty"` // unavailable from before the first pick
	Variant  string `json:"variant"`        // init | noop-update | gslb
	UpdateAt int    `json:"update_at"`      // noop-update: number of picks before the Update
	Periods  int    `json:"periods"`
}

func (c *c01Case) key() string {
	return fmt.Sprintf("%v|%v|%s|%d", c.Weights, c.Down, c.Variant, c.UpdateAt)
}

func (c *c01Case) elig(i int) int {
	if c.Weights[i] <= 0 || (c.Down != nil && c.Down[i]) {
		return 0
	}
	return c.Weights[i]
}

func (c *c01Case) total() int {
	w := 0
	for i := range c.Weights {
		w += c.elig(i)
	}
	return w
}

func c01Index(b *backend.BfeBackend) int {
	if b == nil || !strings.HasPrefix(b.Name, "b") {
		return -1
	}
	n, err := strconv.Atoi(b.Name[1:])
	if err != nil {
		return -1
	}
	return n
}

// c01Direct records n picks from a fresh BalanceRR. If updateAt >= 0 an Update
// with the same (address, weight) multiset in order perm is applied after
// updateAt picks.
func c01Direct(c *c01Case, rev bool, n int, updateAt int, perm []int) ([]int, error) {
	specs := specsFromWeights(c.Weights, rev)
	brr := bal_slb.NewBalanceRR("sub")
	brr.Init(confOf(specs))
	if c.Down != nil {
		for i, b := range brr.VerifSnapshot().Backends {
			if c.Down[i] {
				b.Backend.SetAvail(false)
			}
		}
	}
	seq := make([]int, 0, n)
	for k := 0; k < n; k++ {
		if k == updateAt {
			brr.Update(confOf(permuted(specs, perm)))
		}
		b, err := brr.Balance(bal_slb.WrrSmooth, nil)
		if err != nil {
			return seq, fmt.Errorf("pick %d: %v", k, err)
		}
		seq = append(seq, c01Index(b))
	}
	return seq, nil
}

// c01Gslb records n picks through BalanceGslb.Balance on a cluster with a
// single sub-cluster (plus a zero-weight blackhole entry).
func c01Gslb(c *c01Case, n int) ([]int, error) {
	specs := specsFromWeights(c.Weights, false)
	bal := bal_gslb.NewBalanceGslb("cl")
	if err := bal.Init(gslb_conf.GslbClusterConf{"sub": 100, "GSLB_BLACKHOLE": 0}); err != nil {
		return nil, err
	}
	bal.BackendInit(cluster_table_conf.ClusterBackend{"sub": confOf(specs)})
	if c.Down != nil {
		snap := bal.VerifSnapshot()
		for i, b := range subByName(&snap, "sub").RR.Backends {
			if c.Down[i] {
				b.Backend.SetAvail(false)
			}
		}
	}
	g := gbasic{RetryMax: 2, CrossRetry: 0, Strategy: 1}
	seq := make([]int, 0, n)
	for k := 0; k < n; k++ {
		req := reqSpec{IP: []byte{10, 1, byte(k >> 8), byte(k)}}.build(g)
		b, err := bal.Balance(req)
		if err != nil {
			return seq, fmt.Errorf("pick %d: %v", k, err)
		}
		seq = append(seq, c01Index(b))
	}
	return seq, nil
}

func c01Shape(c *c01Case) string {
	eq, dup := true, false
	seen := map[int]bool{}
	for i := range c.Weights {
		w := c.elig(i)
		if w == 0 {
			continue
		}
		if seen[w] {
			dup = true
		}
		seen[w] = true
	}
	eq = len(seen) == 1
	s := c.Variant
	if c.Down != nil {
		s += ":some-ineligible"
	}
	switch {
	case eq:
		s += ":equal-weights"
	case dup:
		s += ":dup-weights"
	default:
		s += ":distinct-weights"
	}
	return s
}

// c01Windows checks every window of W picks and the period.
func c01Windows(r *vkit.Run, c *c01Case, seq []int, what string) bool {
	W := c.total()
	n := len(c.Weights)
	cnt := make([]int, n)
	for t, x := range seq {
		if x < 0 || x >= n {
			r.Violation("unknown-backend:"+c01Shape(c), fmt.Sprintf("%s: pick %d returned a backend that is not in the list", what, t),
				map[string]interface{}{"case": c, "seq": seq})
			return false
		}
		cnt[x]++
		if t >= W {
			cnt[seq[t-W]]--
		}
		if t >= W-1 {
			for i := 0; i < n; i++ {
				if cnt[i] != c.elig(i) {
					r.Violation("window-count:"+c01Shape(c),
						fmt.Sprintf("%s: window of W=%d picks starting at pick %d selects backend %d %d times, weight %d", what, W, t-W+1, i, cnt[i], c.elig(i)),
						map[string]interface{}{"case": c, "seq": seq, "window_start": t - W + 1, "backend": i, "count": cnt[i]})
					return false
				}
			}
		}
	}
	for t := 0; t+W < len(seq); t++ {
		if seq[t] != seq[t+W] {
			r.Violation("period:"+c01Shape(c), fmt.Sprintf("%s: pick %d = backend %d but pick %d+W = backend %d (W=%d)", what, t, seq[t], t, seq[t+W], W),
				map[string]interface{}{"case": c, "seq": seq})
			return false
		}
	}
	r.Count("windows_checked", int64(len(seq)-W+1))
	return true
}

func c01Equal(a, b []int) bool {
	if len(a) != len(b) {
		return false
	}
	for i := range a {
		if a[i] != b[i] {
			return false
		}
	}
	return true
}

func c01Check(r *vkit.Run, c *c01Case, g *vkit.Rand) {
	W := c.total()
	if W == 0 {
		return
	}
	n := (c.Periods + 1) * W
	neligible := 0
	for i := range c.Weights {
		if c.elig(i) > 0 {
			neligible++
		}
	}
	desc := func() interface{} { return c }
	var seq []int
	var err error
	switch c.Variant {
	case "init":
		var seq2 []int
		var err2 error
		if try(r, desc, func() {
			seq, err = c01Direct(c, false, n, -1, nil)
			seq2, err2 = c01Direct(c, true, n, -1, nil)
		}) {
			return
		}
		if err == nil && err2 == nil && !c01Equal(seq, seq2) {
			r.Violation("determinism:"+c01Shape(c), "two fresh balancers with the same ordered weight list (different names/addresses) produce different sequences",
				map[string]interface{}{"case": c, "seq_a": seq, "seq_b": seq2})
		}
	case "noop-update":
		perm := g.Perm(len(c.Weights))
		if try(r, desc, func() { seq, err = c01Direct(c, false, n, c.UpdateAt, perm) }) {
			return
		}
	case "gslb":
		var seq2 []int
		if try(r, desc, func() {
			seq, err = c01Gslb(c, n)
			seq2, _ = c01Direct(c, false, n, -1, nil)
		}) {
			return
		}
		if err == nil && !c01Equal(seq, seq2) {
			r.Violation("gslb-differs-from-direct:"+c01Shape(c), "BalanceGslb.Balance on a single sub-cluster cluster and BalanceRR.Balance(WrrSmooth) disagree for the same ordered weight list",
				map[string]interface{}{"case": c, "seq_gslb": seq, "seq_direct": seq2})
		}
	}
	if err != nil {
		r.Violation("error-with-eligible:"+c01Shape(c), "Balance failed although an eligible backend exists: "+err.Error(), map[string]interface{}{"case": c})
		return
	}
	c01Windows(r, c, seq, c.Variant)
	r.CaseS(c.key(), neligible >= 2)
	r.Count("picks", int64(len(seq)))
	r.Count("variant_"+c.Variant, 1)
	if r.WantSample() && neligible >= 3 && c.Variant != "init" {
		k := len(seq)
		if k > 2*W {
			k = 2 * W
		}
		r.Sample(map[string]interface{}{"case": c, "W": W, "first_picks": seq[:k]})
	}
}

// c01Transient is reported, not asserted: after an Update that CHANGES weights
// the credits are off the exact orbit; how many picks until every later window
// of W' picks is exact again?
type c01TransientStat struct {
	mu        sync.Mutex
	Cases     int     `json:"cases"`
	ExactAt0  int     `json:"exact_from_the_update_on"`
	NeverSeen int     `json:"not_exact_again_within_10_periods"`
	MaxOverW  float64 `json:"max_transient_picks_over_W"`
}

func c01Transient(r *vkit.Run, st *c01TransientStat, g *vkit.Rand) {
	ws := c01RandWeights(g)
	ws2 := make([]int, len(ws))
	W2 := 0
	for i := range ws {
		ws2[i] = g.Range(1, 12)
		W2 += ws2[i]
	}
	specs := specsFromWeights(ws, false)
	specs2 := specsFromWeights(ws2, false)
	brr := bal_slb.NewBalanceRR("sub")
	var seq []int
	if try(r, func() interface{} { return map[string]interface{}{"weights": ws, "new_weights": ws2} }, func() {
		brr.Init(confOf(specs))
		for k := g.Intn(3 * len(ws) * 12); k > 0; k-- {
			brr.Balance(bal_slb.WrrSmooth, nil)
		}
		brr.Update(confOf(specs2))
		for k := 0; k < 11*W2; k++ {
			b, err := brr.Balance(bal_slb.WrrSmooth, nil)
			if err != nil {
				return
			}
			seq = append(seq, c01Index(b))
		}
	}) || len(seq) < 11*W2 {
		return
	}
	// last window start whose count vector is wrong
	lastBad := -1
	cnt := make([]int, len(ws2))
	for t, x := range seq {
		cnt[x]++
		if t >= W2 {
			cnt[seq[t-W2]]--
		}
		if t >= W2-1 {
			for i := range cnt {
				if cnt[i] != ws2[i] {
					lastBad = t - W2 + 1
					break
				}
			}
		}
	}
	st.mu.Lock()
	st.Cases++
	switch {
	case lastBad < 0:
		st.ExactAt0++
	case lastBad >= 9*W2:
		st.NeverSeen++
	default:
		if v := float64(lastBad+1) / float64(W2); v > st.MaxOverW {
			st.MaxOverW = v
		}
	}
	st.mu.Unlock()
}

func c01RandWeights(g *vkit.Rand) []int {
	n := g.Range(1, 8)
	ws := make([]int, n)
	switch g.Intn(6) {
	case 0: // all equal
		w := g.Range(1, 12)
		for i := range ws {
			ws[i] = w
		}
	case 1: // one dominant
		for i := range ws {
			ws[i] = g.Range(1, 2)
		}
		ws[g.Intn(n)] = g.Range(8, 12)
	case 2: // co-prime-ish primes
		ps := []int{1, 2, 3, 5, 7, 11}
		for i := range ws {
			ws[i] = ps[g.Intn(len(ps))]
		}
	case 3: // many duplicates
		a, b := g.Range(1, 12), g.Range(1, 12)
		for i := range ws {
			if g.Bool() {
				ws[i] = a
			} else {
				ws[i] = b
			}
		}
	default:
		for i := range ws {
			ws[i] = g.Range(1, 12)
		}
	}
	return ws
}

func c01(r *vkit.Run) {
	r.SetRule("weight vectors: every vector with N<=4, w in 1..5 (780, each as init / noop-update at EVERY offset 0..W-1 / gslb) plus random vectors N 1..8, w 1..12 (equal, dominant, primes, duplicates, uniform), a quarter of them with some backends unavailable or weight 0 from before the first pick. Each run records (periods+1)*W picks and checks every window of W picks, seq[t]==seq[t+W], and equality of two fresh instances with different names/addresses. Windows are asserted from Init and across Updates that keep the (address, weight) multiset (slow start off); sequences after weight-changing reloads are not asserted. Non-trivial = >=2 eligible backends; distinct = (weights, down mask, variant, update offset). " +
		"RELOAD HISTORIES (BalanceRR direct, a quarter through BalanceGslb.BackendReload): 15000 (thorough 300000) random histories Init(A), 1-5 reloads of kind weight (survivors' weights change, incl. to 0) / add / remove / replace (same length) / mixed / noop-same / noop-reorder (same (addr,weight) multiset in another order), each followed by 0..3W picks, then 0..8W picks and 1-4 no-op reloads each followed by 1..3W picks, so that no-op reloads land on every phase; plus systematically every ordered pair A->B of weight vectors (quick: N=2 w<=5, N=3 w<=3) x every phase u in 0..W_B-1: Init(A), Update(B), 4W_B+u picks, Update(B), 2W_B+1 picks, Update(B reversed), 2W_B picks. Asserted: (1) the pick sequence equals that of a twin balancer that runs the same history without the no-op reloads (noop-reload-disturbs-sequence); (2) in the steady segment after the LAST configuration-changing reload, from the first exact window of W picks (starting >=1 pick after the change; the real code needs up to ~3 periods after a change, reported in reload_histories, not asserted) every later window of W picks is exact and seq[t]==seq[t+W], across all no-op reloads (steady-window-count, steady-period). History non-trivial = >=2 eligible backends in the final list and >=1 no-op reload with a full exact window before it and a pick after it; distinct = hash of the history. " +
		"SLOW-START HISTORIES (c01ss.go; 80, thorough 400, all running at the same time, BalanceRR direct and a third through BalanceGslb; slow_start_time = 1 s, real waits because bal_slb reads the clock directly): backends enter slow start by being added by a reload or by recovery (SetRestart(true)+SetAvail(true)); scenarios idle-gap (1-3 newcomers, 1-3 selections, then nothing for 1.5-2.4 s: the first selection after the ramp's end is late), traffic-during-ramp (1-3 selections every 5-40 ms for >=1.5 s), reload-during-ramp (a second reload 150-600 ms into the ramp: another newcomer / a backend leaves / a weight changes / reorder / identical), recovery (a present backend down and back, optionally reloaded or re-weighted meanwhile, optionally another one down during the steady segment), late-first-pick (nothing selected for 200-700 ms after the reload). The driver then waits until >= 1.5 x slow_start_time have passed since the last selection that started a ramp, makes 3W..4W settle selections and records a steady segment of 8W..10W selections. Asserted (time-independent): (a) in the snapshots after the settle and after the steady selections every backend has effective weight = configured weight x unit (unit measured from a fresh Init; sig slowstart:finished-weight-not-configured:<weight-unchanged|weight-reloaded>-since-creation), (b) the steady segment satisfies the conditional exact-window property and the period with the configured weights of the available backends. Not judged (counted): histories where a backend is still in slow start after the wait. Non-trivial = >=2 eligible backends, >=1 backend went through slow start, an exact window was seen; distinct = hash of the history. " +
		"CONCURRENT PICK PHASES (c01cc.go; 240 balancers, thorough 2400, one at a time; BalanceRR.Balance(WrrSmooth) direct, a fifth through BalanceGslb.Balance on one sub-cluster): weight vectors with 2-8 backends (as above), 9-23 backends (w 1..12) and 24-64 backends (w 1..8, a selection walks a long list), a quarter with some backends unavailable / weight 0 from before the first selection; 0..2W sequential selections, then 2-5 phases: G in {2,3,4,6,8,12,16} goroutines start together and make exactly k*W selections in total on the one balancer (split evenly / one goroutine half / random, 1500-10000 selections per phase and at least 150 per goroutine, a quarter of the phases with goroutines yielding), no reload and no availability change during a phase. At quiescence after every phase, asserted (counting and equality only, no timing): (a) each backend was selected exactly k*weight times (concurrent:share-not-exact); (b) credit state and effective weights read with VerifSnapshot equal those of a twin balancer (same ordered weight list) that made the same number of selections sequentially (concurrent:state-differs-from-sequential); (c) the next W selections, made sequentially, are an exact window (concurrent:following-window-count) and equal the twin's next W selections (concurrent:following-sequence-differs). Observed per phase: the largest number of goroutines inside Balance at the same time (atomic counter around the call); a phase counts as overlapped when it is >= 2; the run is inconclusive if fewer than 50 or fewer than a tenth of the phases overlapped on BalanceRR, or a G class / the >=24-backend class never occurred. Non-trivial = >=2 eligible backends and >=1 overlapped phase; distinct = the case")
	r.Assume("W = sum of configured weights of the eligible backends (the x100 scaling cancels)")
	periods := r.N(4, 50)
	if r.Replay != "" {
		var w struct {
			Case c01Case    `json:"case"`
			Hist *c01Hist   `json:"hist"`
			SS   *c01SSHist `json:"sshist"`
			CC   *c01CCase  `json:"cc"`
		}
		if err := r.LoadReplay(&w); err != nil {
			r.Inconclusive(err.Error())
			return
		}
		if w.CC != nil {
			// concurrent phases: the interleaving is not part of the witness; repeat the case a few times
			for k := 0; k < 20 && c01CCRun(r, w.CC, &c01CStat{}); k++ {
			}
		} else if w.SS != nil {
			c01SSCheck(r, w.SS, &c01SSStat{})
		} else if w.Hist != nil {
			c01HistCheck(r, w.Hist, &c01HistStat{})
		} else {
			c01Check(r, &w.Case, r.Rng("replay"))
		}
		r.SetMinDistinct(0)
		return
	}
	// slow-start histories mostly wait (real time); they run next to everything else
	waitSlowStart := c01SlowStart(r)
	// exhaustive small vectors
	var small [][]int
	var rec func(cur []int)
	rec = func(cur []int) {
		if len(cur) > 0 {
			small = append(small, append([]int{}, cur...))
		}
		if len(cur) == 4 {
			return
		}
		for w := 1; w <= 5; w++ {
			rec(append(cur, w))
		}
	}
	rec(nil)
	r.Count("exhaustive_vectors", int64(len(small)))
	vkit.Parallel(len(small), 0, func(i int) {
		ws := small[i]
		g := r.Rng("small", i)
		c := &c01Case{Weights: ws, Variant: "init", UpdateAt: -1, Periods: 4}
		c01Check(r, c, g)
		W := c.total()
		for u := 0; u < W; u++ {
			c01Check(r, &c01Case{Weights: ws, Variant: "noop-update", UpdateAt: u, Periods: 4}, g)
		}
		c01Check(r, &c01Case{Weights: ws, Variant: "gslb", UpdateAt: -1, Periods: 4}, g)
	})
	// random larger vectors
	n := r.N(2000, 40000)
	vkit.Parallel(n, 0, func(i int) {
		g := r.Rng("vec", i)
		ws := c01RandWeights(g)
		var down []bool
		if g.Chance(1, 4) && len(ws) >= 2 {
			down = make([]bool, len(ws))
			for k := range ws {
				switch g.Intn(4) {
				case 0:
					down[k] = true
				case 1:
					ws[k] = 0
				}
			}
		}
		c := &c01Case{Weights: ws, Down: down, Variant: "init", UpdateAt: -1, Periods: periods}
		W := c.total()
		if W == 0 {
			r.Count("skipped_no_eligible", 1)
			return
		}
		c01Check(r, c, g)
		c01Check(r, &c01Case{Weights: ws, Down: down, Variant: "noop-update", UpdateAt: g.Intn(2 * W), Periods: periods}, g)
		if g.Chance(1, 2) {
			c01Check(r, &c01Case{Weights: ws, Down: down, Variant: "gslb", UpdateAt: -1, Periods: 4}, g)
		}
	})
	// reported only (see the scope decision in the rule)
	st := &c01TransientStat{}
	vkit.Parallel(r.N(500, 5000), 0, func(i int) { c01Transient(r, st, r.Rng("transient", i)) })
	r.Extra("after_weight_changing_update_reported_not_asserted", st)
	c01Histories(r)
	c01Concurrent(r)
	waitSlowStart()
}

// ---------------------------------------------------------------------------
// Reload histories: Init(A) -> reloads (weight changes of survivors, adds,
// removes, replacements, mixtures, no-op repeats of the current list in the
// same or another order) interleaved with runs of picks of arbitrary length.
//
// Two things are asserted, both on recorded pick sequences only:
//  (1) differential: a twin balancer runs the same history WITHOUT the no-op
//      reloads; both pick sequences must be equal (a reload that leaves
//      backends and weights unchanged must not disturb the sequence);
//  (2) steady segment = the picks after the LAST configuration-changing reload
//      (any number of no-op reloads inside it). After a configuration change
//      the real code needs up to a few periods until windows are exact again
//      (reported, not asserted, see c01Transient). So (2) is conditional: from
//      the first window of W picks in the steady segment (starting at least
//      one pick after the change) that is exact, EVERY later window of W picks
//      of the segment must be exact and seq[t]==seq[t+W], across all no-op
//      reloads.

type c01Op struct {
	Op   string  `json:"op"` // init | update | picks
	Conf []bspec `json:"conf,omitempty"`
	N    int     `json:"n,omitempty"`
}

type c01Hist struct {
	Via string  `json:"via"` // rr = BalanceRR direct, gslb = BalanceGslb with one sub-cluster
	Gen string  `json:"gen"` // random | systematic
	Ops []c01Op `json:"ops"`
}

func (h *c01Hist) key() string {
	b, _ := json.Marshal(h)
	return string(b)
}

const c01Pool = 16

func c01Spec(id, w int) bspec {
	// address order is scrambled against the id
	k := (id * 7) % c01Pool
	return bspec{Name: fmt.Sprintf("b%d", id), Addr: fmt.Sprintf("10.0.0.%d", 1+k), Port: 8000 + k, Weight: w}
}

func c01ID(b bspec) int {
	n, err := strconv.Atoi(strings.TrimPrefix(b.Name, "b"))
	if err != nil || n < 0 || n >= c01Pool {
		return -1
	}
	return n
}

var c01HistGen = &histGen{
	maxN: 7,
	fresh: func(g *vkit.Rand, cur []bspec) (bspec, bool) {
		used := map[int]bool{}
		for _, b := range cur {
			used[c01ID(b)] = true
		}
		if len(used) >= c01Pool {
			return bspec{}, false
		}
		for {
			id := g.Intn(c01Pool)
			if !used[id] {
				return c01Spec(id, g.Range(1, 12)), true
			}
		}
	},
	newWeight: func(g *vkit.Rand, old int) int {
		if old != 0 && g.Chance(1, 12) {
			return 0
		}
		for {
			if w := g.Range(1, 12); w != old {
				return w
			}
		}
	},
}

func c01ConfW(conf []bspec) int {
	W := 0
	for _, b := range conf {
		if b.Weight > 0 {
			W += b.Weight
		}
	}
	return W
}

// c01Bal drives one balancer through a history.
type c01Bal struct {
	rr  *bal_slb.BalanceRR
	gs  *bal_gslb.BalanceGslb
	k   int
	ip  []byte
	req *bfe_basic.Request
}

func (b *c01Bal) init(via string, conf []bspec) error {
	if via == "gslb" {
		b.gs = bal_gslb.NewBalanceGslb("cl")
		if err := b.gs.Init(gslb_conf.GslbClusterConf{"sub": 100, "GSLB_BLACKHOLE": 0}); err != nil {
			return err
		}
		return b.gs.BackendInit(cluster_table_conf.ClusterBackend{"sub": confOf(conf)})
	}
	b.rr = bal_slb.NewBalanceRR("sub")
	b.rr.Init(confOf(conf))
	return nil
}

func (b *c01Bal) update(conf []bspec) {
	if b.gs != nil {
		b.gs.BackendReload(cluster_table_conf.ClusterBackend{"sub": confOf(conf)})
		return
	}
	b.rr.Update(confOf(conf))
}

var c01GslbBasic = gbasic{RetryMax: 2, CrossRetry: 0, Strategy: 1}

func (b *c01Bal) pick() (int, error) {
	var be *backend.BfeBackend
	var err error
	if b.gs != nil {
		// one request object per balancer, client address varied in place
		// (allocation of a bfe_basic.Request per pick dominated the run time)
		b.k++
		if b.req == nil {
			b.ip = []byte{10, 1, 0, 0}
			b.req = reqSpec{IP: b.ip}.build(c01GslbBasic)
		}
		b.ip[2], b.ip[3] = byte(b.k>>8), byte(b.k)
		b.req.RetryTime = 0
		be, err = b.gs.Balance(b.req)
	} else {
		be, err = b.rr.Balance(bal_slb.WrrSmooth, nil)
	}
	if err != nil {
		return -1, err
	}
	return c01Index(be), nil
}

// c01Mark is one reload of a history, positioned in the pick sequence.
type c01Mark struct {
	Pos  int    `json:"before_pick"` // number of picks recorded before the reload
	Kind string `json:"kind"`
}

// c01Marks classifies the reloads of a history (a function of the history,
// not of any run).
func c01Marks(h *c01Hist) (marks []c01Mark, final []bspec) {
	pos := 0
	var cur []bspec
	for _, op := range h.Ops {
		switch op.Op {
		case "init":
			cur = op.Conf
		case "update":
			marks = append(marks, c01Mark{Pos: pos, Kind: histKind(cur, op.Conf)})
			cur = op.Conf
		case "picks":
			pos += op.N
		}
	}
	return marks, cur
}

func c01RunHist(h *c01Hist, marks []c01Mark, skipNoop bool) ([]int, error) {
	b := &c01Bal{}
	n := 0
	for _, op := range h.Ops {
		n += op.N
	}
	seq := make([]int, 0, n)
	u := 0
	for _, op := range h.Ops {
		switch op.Op {
		case "init":
			if err := b.init(h.Via, op.Conf); err != nil {
				return seq, err
			}
		case "update":
			kind := marks[u].Kind
			u++
			if skipNoop && histIsNoop(kind) {
				continue
			}
			b.update(op.Conf)
		case "picks":
			for k := 0; k < op.N; k++ {
				x, err := b.pick()
				if err != nil {
					return seq, fmt.Errorf("pick %d: %v", len(seq), err)
				}
				seq = append(seq, x)
			}
		}
	}
	return seq, nil
}

type c01HistStat struct {
	mu           sync.Mutex
	Segments     int          `json:"steady_segments"`
	ExactAt1     int          `json:"exact_from_the_second_pick_after_the_change"`
	NeverExact   int          `json:"no_exact_window_observed_in_segment"`
	MaxT0OverW   float64      `json:"max_picks_before_first_exact_window_over_W"`
	PhasesSeen   map[int]bool `json:"-"`
	PhasesSeenN  int          `json:"distinct_W_phase_pairs_of_noop_reloads_in_exact_regime"`
	PhasesTotalN int          `json:"distinct_W_values_times_phases_possible"`
	wSeen        map[int]bool
	Samples      []interface{} `json:"samples"`
}

func c01HistCheck(r *vkit.Run, h *c01Hist, st *c01HistStat) {
	if len(h.Ops) == 0 || h.Ops[0].Op != "init" {
		return
	}
	desc := func() interface{} { return map[string]interface{}{"hist": h} }
	marks, final := c01Marks(h)
	var seqA, seqB []int
	var errA, errB error
	if try(r, desc, func() {
		seqA, errA = c01RunHist(h, marks, false)
		seqB, errB = c01RunHist(h, marks, true)
	}) {
		return
	}
	if errA != nil || errB != nil {
		r.Violation("history:error-with-eligible:"+h.Via, fmt.Sprintf("Balance failed although an eligible backend exists: %v / %v", errA, errB), desc())
		return
	}
	nNoop, lastChange, lastChangeKind := 0, 0, "init"
	for _, m := range marks {
		r.Count("hist_reload_"+m.Kind, 1)
		if histIsNoop(m.Kind) {
			nNoop++
		} else {
			lastChange, lastChangeKind = m.Pos, m.Kind
		}
	}
	// (1) differential against the twin without the no-op reloads
	for t := range seqA {
		if seqA[t] != seqB[t] {
			kind := "none"
			for _, m := range marks {
				if m.Pos <= t && histIsNoop(m.Kind) {
					kind = m.Kind
				}
			}
			r.Violation("noop-reload-disturbs-sequence:"+kind+":"+h.Via,
				fmt.Sprintf("pick %d is backend b%d, but b%d in the twin with the same history without the no-op reloads (last no-op reload before it: %s)", t, seqA[t], seqB[t], kind),
				map[string]interface{}{"hist": h, "reloads": marks, "first_difference_at_pick": t, "seq": seqA, "seq_without_noop_reloads": seqB})
			break
		}
	}
	// (2) steady segment after the last configuration-changing reload
	W := c01ConfW(final)
	want := [c01Pool]int{}
	elig := 0
	for _, b := range final {
		if id := c01ID(b); id >= 0 && b.Weight > 0 {
			want[id] = b.Weight
			elig++
		}
	}
	S := seqA[lastChange:]
	var noopPos []c01Mark // in S coordinates
	for _, m := range marks {
		if m.Pos >= lastChange && histIsNoop(m.Kind) {
			noopPos = append(noopPos, c01Mark{Pos: m.Pos - lastChange, Kind: m.Kind})
		}
	}
	t0 := -1
	noopInRegime := 0
	cnt := [c01Pool]int{}
	ok := true
	for t, x := range S {
		if x < 0 || x >= c01Pool || want[x] == 0 {
			r.Violation("history:unknown-backend:"+h.Via, fmt.Sprintf("pick %d after the last configuration change returned b%d which is not an eligible backend of the final list", t, x),
				map[string]interface{}{"hist": h, "reloads": marks, "steady_segment": S})
			ok = false
			break
		}
		cnt[x]++
		if t >= W {
			cnt[S[t-W]]--
		}
		s := t - W + 1 // window start
		if s < 1 {
			continue
		}
		exact := cnt == want
		if t0 < 0 {
			if exact {
				t0 = s
			}
			continue
		}
		if !exact {
			cause := "no-reload"
			for _, m := range noopPos {
				if m.Pos >= t0 && m.Pos <= t {
					cause = "after-" + m.Kind
				}
			}
			bad := 0
			for i := range cnt {
				if cnt[i] != want[i] {
					bad = i
					break
				}
			}
			r.Violation("steady-window-count:"+cause+":"+h.Via,
				fmt.Sprintf("backends and weights unchanged since pick %d (exact windows from pick %d on), yet the window of W=%d picks starting at pick %d selects b%d %d times, weight %d", lastChange, lastChange+t0, W, lastChange+s, bad, cnt[bad], want[bad]),
				map[string]interface{}{"hist": h, "reloads": marks, "last_change_before_pick": lastChange, "first_exact_window": t0, "window_start": s, "W": W, "steady_segment": S})
			ok = false
			break
		}
	}
	if ok && t0 >= 0 {
		for t := t0; t+W < len(S); t++ {
			if S[t] != S[t+W] {
				r.Violation("steady-period:"+h.Via, fmt.Sprintf("steady pick %d = b%d but pick %d+W = b%d (W=%d)", t, S[t], t, S[t+W], W),
					map[string]interface{}{"hist": h, "reloads": marks, "steady_segment": S})
				break
			}
		}
		r.Count("hist_windows_asserted", int64(len(S)-W+1-t0))
	}
	for _, m := range noopPos {
		// only no-op reloads that have at least one full window behind them
		// and one pick after them test anything in (2)
		if t0 >= 0 && m.Pos >= t0+W && m.Pos < len(S) {
			noopInRegime++
			ph := (m.Pos - t0) % W
			if ph == 0 {
				r.Count("hist_noop_in_exact_regime_phase0", 1)
			} else {
				r.Count("hist_noop_in_exact_regime_phase_nonzero", 1)
			}
			st.mu.Lock()
			if st.PhasesSeen == nil {
				st.PhasesSeen, st.wSeen = map[int]bool{}, map[int]bool{}
			}
			st.PhasesSeen[W*1000+ph] = true
			st.wSeen[W] = true
			st.mu.Unlock()
		}
	}
	st.mu.Lock()
	st.Segments++
	switch {
	case t0 < 0:
		st.NeverExact++
	case t0 == 1:
		st.ExactAt1++
	}
	if t0 >= 0 {
		if v := float64(t0) / float64(W); v > st.MaxT0OverW {
			st.MaxT0OverW = v
		}
	}
	st.mu.Unlock()
	r.Case(vkit.Hash64("hist", h.key()), elig >= 2 && nNoop > 0 && noopInRegime > 0)
	r.Count("picks", int64(len(seqA)+len(seqB)))
	r.Count("hist_"+h.Gen+"_"+h.Via, 1)
	r.Count("hist_last_change_"+lastChangeKind, 1)
	if noopInRegime > 0 {
		r.Count("hist_with_noop_in_exact_regime_after_"+lastChangeKind, 1)
	}
	if t0 < 0 {
		r.Count("hist_steady_segment_without_exact_window", 1)
	}
	if h.Gen == "random" && elig >= 3 && noopInRegime > 0 && lastChangeKind == hkWeight && len(seqA) < 300 {
		// vkit's sample slots are used up by the fresh-balancer cases; history
		// samples go into the evidence under reload_histories.samples
		st.mu.Lock()
		if len(st.Samples) < 3 {
			st.Samples = append(st.Samples, map[string]interface{}{"hist": h, "reloads": marks, "W": W, "first_exact_window_in_steady_segment": t0, "picks": seqA})
		}
		st.mu.Unlock()
	}
}

func c01RandHist(g *vkit.Rand) *c01Hist {
	h := &c01Hist{Via: "rr", Gen: "random"}
	if g.Chance(1, 4) {
		h.Via = "gslb"
	}
	ws := c01RandWeights(g)
	if len(ws) > 6 {
		ws = ws[:6]
	}
	ids := g.Perm(c01Pool)
	cur := make([]bspec, len(ws))
	for i, w := range ws {
		cur[i] = c01Spec(ids[i], w)
	}
	h.Ops = append(h.Ops, c01Op{Op: "init", Conf: cur})
	run := func(maxPeriods int) {
		W := c01ConfW(cur)
		if n := g.Intn(maxPeriods*W + 1); n > 0 {
			h.Ops = append(h.Ops, c01Op{Op: "picks", N: n})
		}
	}
	run(3)
	for k := g.Range(1, 5); k > 0; k-- {
		next := histMutate(g, c01HistGen, cur, histWant(g))
		h.Ops = append(h.Ops, c01Op{Op: "update", Conf: next})
		cur = next
		run(3)
	}
	// steady block: more picks, then no-op reloads at arbitrary phases
	run(8)
	for k := g.Range(1, 4); k > 0; k-- {
		want := hkNoopSame
		if g.Chance(1, 3) {
			want = hkNoopReorder
		}
		next := histMutate(g, c01HistGen, cur, want)
		h.Ops = append(h.Ops, c01Op{Op: "update", Conf: next})
		cur = next
		h.Ops = append(h.Ops, c01Op{Op: "picks", N: 1 + g.Intn(3*c01ConfW(cur))})
	}
	return h
}

// c01SysHists: for an ordered pair of weight vectors A -> B of the same
// backends, one history per phase u in 0..W_B-1: Init(A), a few picks,
// Update(B), 4*W_B+u picks, Update(B), 2*W_B+1 picks, Update(B reordered),
// 2*W_B picks.
func c01SysHists(a, b []int, pre int) []*c01Hist {
	confA := make([]bspec, len(a))
	confB := make([]bspec, len(b))
	for i := range a {
		confA[i] = c01Spec(i, a[i])
		confB[i] = c01Spec(i, b[i])
	}
	rev := make([]bspec, len(confB))
	for i := range confB {
		rev[len(confB)-1-i] = confB[i]
	}
	WB := c01ConfW(confB)
	var out []*c01Hist
	for u := 0; u < WB; u++ {
		h := &c01Hist{Via: "rr", Gen: "systematic"}
		h.Ops = []c01Op{{Op: "init", Conf: confA}}
		if pre > 0 {
			h.Ops = append(h.Ops, c01Op{Op: "picks", N: pre})
		}
		h.Ops = append(h.Ops,
			c01Op{Op: "update", Conf: confB}, c01Op{Op: "picks", N: 4*WB + u},
			c01Op{Op: "update", Conf: confB}, c01Op{Op: "picks", N: 2*WB + 1},
			c01Op{Op: "update", Conf: rev}, c01Op{Op: "picks", N: 2 * WB})
		out = append(out, h)
	}
	return out
}

func c01Vectors(n, maxW int) [][]int {
	var out [][]int
	var rec func(cur []int)
	rec = func(cur []int) {
		if len(cur) == n {
			out = append(out, append([]int{}, cur...))
			return
		}
		for w := 1; w <= maxW; w++ {
			rec(append(cur, w))
		}
	}
	rec(nil)
	return out
}

func c01Histories(r *vkit.Run) {
	st := &c01HistStat{}
	// systematic pairs, every phase
	type pair struct{ a, b []int }
	var pairs []pair
	dims := [][2]int{{2, 5}, {3, 3}}
	if !r.Quick() {
		dims = [][2]int{{2, 8}, {3, 4}, {4, 3}}
	}
	for _, d := range dims {
		vs := c01Vectors(d[0], d[1])
		for _, a := range vs {
			for _, b := range vs {
				if !c01Equal(a, b) {
					pairs = append(pairs, pair{a, b})
				}
			}
		}
	}
	r.Count("hist_systematic_pairs", int64(len(pairs)))
	vkit.Parallel(len(pairs), 0, func(i int) {
		p := pairs[i]
		WA := 0
		for _, w := range p.a {
			WA += w
		}
		for _, h := range c01SysHists(p.a, p.b, i%(WA+1)) {
			c01HistCheck(r, h, st)
		}
	})
	// random histories
	n := r.N(15000, 300000)
	vkit.Parallel(n, 0, func(i int) {
		c01HistCheck(r, c01RandHist(r.Rng("hist", i)), st)
	})
	st.PhasesSeenN = len(st.PhasesSeen)
	for W := range st.wSeen {
		st.PhasesTotalN += W
	}
	st.PhasesSeen = nil
	r.Extra("reload_histories", st)
	for _, k := range histKinds {
		if r.Counter("hist_reload_"+k) == 0 {
			r.Inconclusive("no reload of kind " + k + " occurred in any history")
		}
	}
	for _, k := range []string{hkWeight, hkAdd, hkRemove, hkReplace, hkMixed} {
		if r.Counter("hist_with_noop_in_exact_regime_after_"+k) == 0 {
			r.Inconclusive("no history had a no-op reload in the exact regime after a last change of kind " + k)
		}
	}
	for _, k := range []string{"hist_noop_in_exact_regime_phase_nonzero", "hist_noop_in_exact_regime_phase0", "hist_random_rr", "hist_random_gslb", "hist_systematic_rr"} {
		if r.Counter(k) == 0 {
			r.Inconclusive("counter " + k + " is zero")
		}
	}
}
