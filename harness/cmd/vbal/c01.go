package main

import (
	"fmt"
	"strconv"
	"strings"
	"sync"

	"github.com/bfenetworks/bfe/bfe_balance/backend"
	"github.com/bfenetworks/bfe/bfe_balance/bal_gslb"
	"github.com/bfenetworks/bfe/bfe_balance/bal_slb"
	"github.com/bfenetworks/bfe/bfe_config/bfe_cluster_conf/cluster_table_conf"
	"github.com/bfenetworks/bfe/bfe_config/bfe_cluster_conf/gslb_conf"

	"verifharness/vkit"
)

// C01: smooth WRR gives exact weight shares in every window of W picks, the
// sequence has period W and is a function of the ordered weight list.
// Oracle: pure counting over recorded pick sequences (no re-implementation of
// the algorithm).

type c01Case struct {
	Weights  []int  `json:"weights"`
	Down     []bool `json:"down,omitempty"` // unavailable from before the first pick
	Variant  string `json:"variant"`        // init | noop-update | gslb
	UpdateAt int    `json:"update_at"`      // noop-update: number of picks before the Update
	Periods  int    `json:"periods"`
}

func (c *c01Case) key() string {
	return fmt.Sprintf("%v|%v|%s|%d", c.Weights, c.Down, c.Variant, c.UpdateAt)
}

func (c *c01Case) elig(i int) int {
	if c.Weights[i] <= 0 || (c.Down != nil && c.Down[i]) {
		return 0
	}
	return c.Weights[i]
}

func (c *c01Case) total() int {
	w := 0
	for i := range c.Weights {
		w += c.elig(i)
	}
	return w
}

func c01Index(b *backend.BfeBackend) int {
	if b == nil || !strings.HasPrefix(b.Name, "b") {
		return -1
	}
	n, err := strconv.Atoi(b.Name[1:])
	if err != nil {
		return -1
	}
	return n
}

// c01Direct records n picks from a fresh BalanceRR. If updateAt >= 0 an Update
// with the same (address, weight) multiset in order perm is applied after
// updateAt picks.
func c01Direct(c *c01Case, rev bool, n int, updateAt int, perm []int) ([]int, error) {
	specs := specsFromWeights(c.Weights, rev)
	brr := bal_slb.NewBalanceRR("sub")
	brr.Init(confOf(specs))
	if c.Down != nil {
		for i, b := range brr.VerifSnapshot().Backends {
			if c.Down[i] {
				b.Backend.SetAvail(false)
			}
		}
	}
	seq := make([]int, 0, n)
	for k := 0; k < n; k++ {
		if k == updateAt {
			brr.Update(confOf(permuted(specs, perm)))
		}
		b, err := brr.Balance(bal_slb.WrrSmooth, nil)
		if err != nil {
			return seq, fmt.Errorf("pick %d: %v", k, err)
		}
		seq = append(seq, c01Index(b))
	}
	return seq, nil
}

// c01Gslb records n picks through BalanceGslb.Balance on a cluster with a
// single sub-cluster (plus a zero-weight blackhole entry).
func c01Gslb(c *c01Case, n int) ([]int, error) {
	specs := specsFromWeights(c.Weights, false)
	bal := bal_gslb.NewBalanceGslb("cl")
	if err := bal.Init(gslb_conf.GslbClusterConf{"sub": 100, "GSLB_BLACKHOLE": 0}); err != nil {
		return nil, err
	}
	bal.BackendInit(cluster_table_conf.ClusterBackend{"sub": confOf(specs)})
	if c.Down != nil {
		snap := bal.VerifSnapshot()
		for i, b := range subByName(&snap, "sub").RR.Backends {
			if c.Down[i] {
				b.Backend.SetAvail(false)
			}
		}
	}
	g := gbasic{RetryMax: 2, CrossRetry: 0, Strategy: 1}
	seq := make([]int, 0, n)
	for k := 0; k < n; k++ {
		req := reqSpec{IP: []byte{10, 1, byte(k >> 8), byte(k)}}.build(g)
		b, err := bal.Balance(req)
		if err != nil {
			return seq, fmt.Errorf("pick %d: %v", k, err)
		}
		seq = append(seq, c01Index(b))
	}
	return seq, nil
}

func c01Shape(c *c01Case) string {
	eq, dup := true, false
	seen := map[int]bool{}
	for i := range c.Weights {
		w := c.elig(i)
		if w == 0 {
			continue
		}
		if seen[w] {
			dup = true
		}
		seen[w] = true
	}
	eq = len(seen) == 1
	s := c.Variant
	if c.Down != nil {
		s += ":some-ineligible"
	}
	switch {
	case eq:
		s += ":equal-weights"
	case dup:
		s += ":dup-weights"
	default:
		s += ":distinct-weights"
	}
	return s
}

// c01Windows checks every window of W picks and the period.
func c01Windows(r *vkit.Run, c *c01Case, seq []int, what string) bool {
	W := c.total()
	n := len(c.Weights)
	cnt := make([]int, n)
	for t, x := range seq {
		if x < 0 || x >= n {
			r.Violation("unknown-backend:"+c01Shape(c), fmt.Sprintf("%s: pick %d returned a backend that is not in the list", what, t),
				map[string]interface{}{"case": c, "seq": seq})
			return false
		}
		cnt[x]++
		if t >= W {
			cnt[seq[t-W]]--
		}
		if t >= W-1 {
			for i := 0; i < n; i++ {
				if cnt[i] != c.elig(i) {
					r.Violation("window-count:"+c01Shape(c),
						fmt.Sprintf("%s: window of W=%d picks starting at pick %d selects backend %d %d times, weight %d", what, W, t-W+1, i, cnt[i], c.elig(i)),
						map[string]interface{}{"case": c, "seq": seq, "window_start": t - W + 1, "backend": i, "count": cnt[i]})
					return false
				}
			}
		}
	}
	for t := 0; t+W < len(seq); t++ {
		if seq[t] != seq[t+W] {
			r.Violation("period:"+c01Shape(c), fmt.Sprintf("%s: pick %d = backend %d but pick %d+W = backend %d (W=%d)", what, t, seq[t], t, seq[t+W], W),
				map[string]interface{}{"case": c, "seq": seq})
			return false
		}
	}
	r.Count("windows_checked", int64(len(seq)-W+1))
	return true
}

func c01Equal(a, b []int) bool {
	if len(a) != len(b) {
		return false
	}
	for i := range a {
		if a[i] != b[i] {
			return false
		}
	}
	return true
}

func c01Check(r *vkit.Run, c *c01Case, g *vkit.Rand) {
	W := c.total()
	if W == 0 {
		return
	}
	n := (c.Periods + 1) * W
	neligible := 0
	for i := range c.Weights {
		if c.elig(i) > 0 {
			neligible++
		}
	}
	desc := func() interface{} { return c }
	var seq []int
	var err error
	switch c.Variant {
	case "init":
		var seq2 []int
		var err2 error
		if try(r, desc, func() {
			seq, err = c01Direct(c, false, n, -1, nil)
			seq2, err2 = c01Direct(c, true, n, -1, nil)
		}) {
			return
		}
		if err == nil && err2 == nil && !c01Equal(seq, seq2) {
			r.Violation("determinism:"+c01Shape(c), "two fresh balancers with the same ordered weight list (different names/addresses) produce different sequences",
				map[string]interface{}{"case": c, "seq_a": seq, "seq_b": seq2})
		}
	case "noop-update":
		perm := g.Perm(len(c.Weights))
		if try(r, desc, func() { seq, err = c01Direct(c, false, n, c.UpdateAt, perm) }) {
			return
		}
	case "gslb":
		var seq2 []int
		if try(r, desc, func() {
			seq, err = c01Gslb(c, n)
			seq2, _ = c01Direct(c, false, n, -1, nil)
		}) {
			return
		}
		if err == nil && !c01Equal(seq, seq2) {
			r.Violation("gslb-differs-from-direct:"+c01Shape(c), "BalanceGslb.Balance on a single sub-cluster cluster and BalanceRR.Balance(WrrSmooth) disagree for the same ordered weight list",
				map[string]interface{}{"case": c, "seq_gslb": seq, "seq_direct": seq2})
		}
	}
	if err != nil {
		r.Violation("error-with-eligible:"+c01Shape(c), "Balance failed although an eligible backend exists: "+err.Error(), map[string]interface{}{"case": c})
		return
	}
	c01Windows(r, c, seq, c.Variant)
	r.CaseS(c.key(), neligible >= 2)
	r.Count("picks", int64(len(seq)))
	r.Count("variant_"+c.Variant, 1)
	if r.WantSample() && neligible >= 3 && c.Variant != "init" {
		k := len(seq)
		if k > 2*W {
			k = 2 * W
		}
		r.Sample(map[string]interface{}{"case": c, "W": W, "first_picks": seq[:k]})
	}
}

// c01Transient is reported, not asserted: after an Update that CHANGES weights
// the credits are off the exact orbit; how many picks until every later window
// of W' picks is exact again?
type c01TransientStat struct {
	mu        sync.Mutex
	Cases     int     `json:"cases"`
	ExactAt0  int     `json:"exact_from_the_update_on"`
	NeverSeen int     `json:"not_exact_again_within_10_periods"`
	MaxOverW  float64 `json:"max_transient_picks_over_W"`
}

func c01Transient(r *vkit.Run, st *c01TransientStat, g *vkit.Rand) {
	ws := c01RandWeights(g)
	ws2 := make([]int, len(ws))
	W2 := 0
	for i := range ws {
		ws2[i] = g.Range(1, 12)
		W2 += ws2[i]
	}
	specs := specsFromWeights(ws, false)
	specs2 := specsFromWeights(ws2, false)
	brr := bal_slb.NewBalanceRR("sub")
	var seq []int
	if try(r, func() interface{} { return map[string]interface{}{"weights": ws, "new_weights": ws2} }, func() {
		brr.Init(confOf(specs))
		for k := g.Intn(3 * len(ws) * 12); k > 0; k-- {
			brr.Balance(bal_slb.WrrSmooth, nil)
		}
		brr.Update(confOf(specs2))
		for k := 0; k < 11*W2; k++ {
			b, err := brr.Balance(bal_slb.WrrSmooth, nil)
			if err != nil {
				return
			}
			seq = append(seq, c01Index(b))
		}
	}) || len(seq) < 11*W2 {
		return
	}
	// last window start whose count vector is wrong
	lastBad := -1
	cnt := make([]int, len(ws2))
	for t, x := range seq {
		cnt[x]++
		if t >= W2 {
			cnt[seq[t-W2]]--
		}
		if t >= W2-1 {
			for i := range cnt {
				if cnt[i] != ws2[i] {
					lastBad = t - W2 + 1
					break
				}
			}
		}
	}
	st.mu.Lock()
	st.Cases++
	switch {
	case lastBad < 0:
		st.ExactAt0++
	case lastBad >= 9*W2:
		st.NeverSeen++
	default:
		if v := float64(lastBad+1) / float64(W2); v > st.MaxOverW {
			st.MaxOverW = v
		}
	}
	st.mu.Unlock()
}

func c01RandWeights(g *vkit.Rand) []int {
	n := g.Range(1, 8)
	ws := make([]int, n)
	switch g.Intn(6) {
	case 0: // all equal
		w := g.Range(1, 12)
		for i := range ws {
			ws[i] = w
		}
	case 1: // one dominant
		for i := range ws {
			ws[i] = g.Range(1, 2)
		}
		ws[g.Intn(n)] = g.Range(8, 12)
	case 2: // co-prime-ish primes
		ps := []int{1, 2, 3, 5, 7, 11}
		for i := range ws {
			ws[i] = ps[g.Intn(len(ps))]
		}
	case 3: // many duplicates
		a, b := g.Range(1, 12), g.Range(1, 12)
		for i := range ws {
			if g.Bool() {
				ws[i] = a
			} else {
				ws[i] = b
			}
		}
	default:
		for i := range ws {
			ws[i] = g.Range(1, 12)
		}
	}
	return ws
}

func c01(r *vkit.Run) {
	r.SetRule("weight vectors: every vector with N<=4, w in 1..5 (780, each as init / noop-update at EVERY offset 0..W-1 / gslb) plus random vectors N 1..8, w 1..12 (equal, dominant, primes, duplicates, uniform), a quarter of them with some backends unavailable or weight 0 from before the first pick. Each run records (periods+1)*W picks and checks every window of W picks, seq[t]==seq[t+W], and equality of two fresh instances with different names/addresses. Windows are asserted from Init and across Updates that keep the (address, weight) multiset (slow start off); sequences after weight-changing reloads are not asserted. Non-trivial = >=2 eligible backends; distinct = (weights, down mask, variant, update offset)")
	r.Assume("W = sum of configured weights of the eligible backends (the x100 scaling cancels)")
	periods := r.N(4, 50)
	if r.Replay != "" {
		var w struct {
			Case c01Case `json:"case"`
		}
		if err := r.LoadReplay(&w); err != nil {
			r.Inconclusive(err.Error())
			return
		}
		c01Check(r, &w.Case, r.Rng("replay"))
		r.SetMinDistinct(0)
		return
	}
	// exhaustive small vectors
	var small [][]int
	var rec func(cur []int)
	rec = func(cur []int) {
		if len(cur) > 0 {
			small = append(small, append([]int{}, cur...))
		}
		if len(cur) == 4 {
			return
		}
		for w := 1; w <= 5; w++ {
			rec(append(cur, w))
		}
	}
	rec(nil)
	r.Count("exhaustive_vectors", int64(len(small)))
	vkit.Parallel(len(small), 0, func(i int) {
		ws := small[i]
		g := r.Rng("small", i)
		c := &c01Case{Weights: ws, Variant: "init", UpdateAt: -1, Periods: 4}
		c01Check(r, c, g)
		W := c.total()
		for u := 0; u < W; u++ {
			c01Check(r, &c01Case{Weights: ws, Variant: "noop-update", UpdateAt: u, Periods: 4}, g)
		}
		c01Check(r, &c01Case{Weights: ws, Variant: "gslb", UpdateAt: -1, Periods: 4}, g)
	})
	// random larger vectors
	n := r.N(2000, 40000)
	vkit.Parallel(n, 0, func(i int) {
		g := r.Rng("vec", i)
		ws := c01RandWeights(g)
		var down []bool
		if g.Chance(1, 4) && len(ws) >= 2 {
			down = make([]bool, len(ws))
			for k := range ws {
				switch g.Intn(4) {
				case 0:
					down[k] = true
				case 1:
					ws[k] = 0
				}
			}
		}
		c := &c01Case{Weights: ws, Down: down, Variant: "init", UpdateAt: -1, Periods: periods}
		W := c.total()
		if W == 0 {
			r.Count("skipped_no_eligible", 1)
			return
		}
		c01Check(r, c, g)
		c01Check(r, &c01Case{Weights: ws, Down: down, Variant: "noop-update", UpdateAt: g.Intn(2 * W), Periods: periods}, g)
		if g.Chance(1, 2) {
			c01Check(r, &c01Case{Weights: ws, Down: down, Variant: "gslb", UpdateAt: -1, Periods: 4}, g)
		}
	})
	// reported only (see the scope decision in the rule)
	st := &c01TransientStat{}
	vkit.Parallel(r.N(500, 5000), 0, func(i int) { c01Transient(r, st, r.Rng("transient", i)) })
	r.Extra("after_weight_changing_update_reported_not_asserted", st)
}
