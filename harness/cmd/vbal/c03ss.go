package main

import (
	"encoding/json"
	"fmt"
	"sync"
	"time"

	"github.com/bfenetworks/bfe/bfe_balance/backend"
	"github.com/bfenetworks/bfe/bfe_balance/bal_gslb"
	"github.com/bfenetworks/bfe/bfe_balance/bal_slb"
	"github.com/bfenetworks/bfe/bfe_config/bfe_cluster_conf/cluster_conf"
	"github.com/bfenetworks/bfe/bfe_config/bfe_cluster_conf/cluster_table_conf"
	"github.com/bfenetworks/bfe/bfe_config/bfe_cluster_conf/gslb_conf"

	"verifharness/vkit"
)

// C03 with SLOW START ENABLED (slow_start_time > 0): backends that carry the
// "restarted" flag -- added by a backend reload (BalanceRR.Update; Init does
// not set it) or brought back the way the health checker does it
// (SetRestart(true), SetAvail(true)) -- among them backends CONFIGURED WITH
// WEIGHT 0, and the FIRST balancing decision after each such event is judged
// (no warm-up between the event and that decision).
//
// The oracle is the one of the property, evaluated on the harness' own model
// of the configuration (configured weight from the last reload, availability
// as set by the harness): a returned backend is available and has a
// configured weight > 0; an error is allowed only when no such backend
// exists. One corner is excluded because neither the property nor the docs
// say which weight a backend has while it ramps up: when Balance fails and
// every available backend with a configured weight > 0 is still ramping
// (restart flag pending or InSlowStart in the snapshot taken before the
// call), nothing is asserted (counted as ss_error_while_all_eligible_ramping;
// the effective weight starts at final*elapsed/period = 0).
// No wall clock in the oracle: no verdict depends on how far a ramp got (a few
// histories sleep 12-25 ms so that ramping backends get a positive weight).

type c03SSOp struct {
	Kind  string  `json:"kind"` // reload | down | up | conns | balance | sleep (N ms; lets ramps progress, no verdict depends on it)
	Table []bspec `json:"table,omitempty"`
	Name  string  `json:"name,omitempty"`
	N     int     `json:"n,omitempty"` // conns: connections to hold; balance: number of decisions
}

type c03SSCase struct {
	Level string    `json:"level"` // rr | gslb
	Alg   int       `json:"alg"`   // rr level
	Mode  string    `json:"mode"`  // gslb level: WRR | WLC | sticky
	SST   int       `json:"slow_start_time"`
	Init  []bspec   `json:"init"`
	Ops   []c03SSOp `json:"ops"`
}

func (c *c03SSCase) algName() string {
	if c.Level == "rr" {
		return algNames[c.Alg]
	}
	switch c.Mode {
	case "WLC":
		return "WlcSmooth"
	case "sticky":
		return "WrrSticky"
	}
	return "WrrSmooth"
}

func (c *c03SSCase) sticky() bool { return c.algName() == "WrrSticky" }

// c03SSB is the harness' model of one backend.
type c03SSB struct {
	cfg      int    // configured weight (last reload)
	created  int    // configured weight when the backend object was created
	avail    bool   // as set by the harness
	pending  bool   // restart flag set, not yet seen by a balancing decision
	ramped   bool   // went (or goes) through slow start
	origin   string // init | newcomer | recovered
	reloaded bool   // weight changed by a reload after creation
}

// staleShape: the backend's slow-start target was fixed when it was created,
// its configured weight was changed by a reload afterwards, and it went
// through a slow start.
func (b *c03SSB) staleShape() bool {
	return b.reloaded && b.created != b.cfg && (b.ramped || b.pending)
}

type c03SSDriver struct {
	c    *c03SSCase
	rr   *bal_slb.BalanceRR
	bal  *bal_gslb.BalanceGslb
	g    gbasic
	k    int
	mod  map[string]*c03SSB
	objs map[string]*backend.BfeBackend
}

const c03SSSub = "s.a"

func (d *c03SSDriver) snap() bal_slb.VerifRR {
	if d.rr != nil {
		return d.rr.VerifSnapshot()
	}
	s := d.bal.VerifSnapshot()
	if v := subByName(&s, c03SSSub); v != nil {
		return v.RR
	}
	return bal_slb.VerifRR{}
}

func (d *c03SSDriver) refresh() {
	d.objs = map[string]*backend.BfeBackend{}
	for _, b := range d.snap().Backends {
		d.objs[b.Backend.Name] = b.Backend
	}
}

func (d *c03SSDriver) init() error {
	c := d.c
	d.mod = map[string]*c03SSB{}
	for _, b := range c.Init {
		d.mod[b.Name] = &c03SSB{cfg: b.Weight, created: b.Weight, avail: true, origin: "init"}
	}
	if c.Level == "rr" {
		d.rr = bal_slb.NewBalanceRR(c03SSSub)
		d.rr.Init(confOf(c.Init))
		d.rr.SetSlowStart(c.SST)
	} else {
		d.bal = bal_gslb.NewBalanceGslb("cl")
		if err := d.bal.Init(gslb_conf.GslbClusterConf{c03SSSub: 100, "GSLB_BLACKHOLE": 0}); err != nil {
			return err
		}
		d.bal.BackendInit(cluster_table_conf.ClusterBackend{c03SSSub: confOf(c.Init)})
		d.g = gbasic{RetryMax: 2, CrossRetry: 0, Mode: "WRR", Strategy: 1, Header: "X-Id"}
		switch c.Mode {
		case "WLC":
			d.g.Mode = "WLC"
		case "sticky":
			d.g.Sticky = true
		}
		d.bal.SetGslbBasic(d.g.conf())
		sst := c.SST
		d.bal.SetSlowStart(cluster_conf.BackendBasic{SlowStartTime: &sst})
	}
	d.refresh()
	return nil
}

func (d *c03SSDriver) reload(t []bspec) {
	if d.rr != nil {
		d.rr.Update(confOf(t))
	} else {
		d.bal.BackendReload(cluster_table_conf.ClusterBackend{c03SSSub: confOf(t)})
	}
	nm := map[string]*c03SSB{}
	for _, b := range t {
		if m, ok := d.mod[b.Name]; ok {
			if m.cfg != b.Weight {
				m.cfg = b.Weight
				m.reloaded = true
			}
			nm[b.Name] = m
		} else {
			nm[b.Name] = &c03SSB{cfg: b.Weight, created: b.Weight, avail: true, pending: true, origin: "newcomer"}
		}
	}
	d.mod = nm
	d.refresh()
}

func (d *c03SSDriver) balance() (*backend.BfeBackend, error) {
	d.k++
	key := []byte{10, 9, byte(d.k >> 8), byte(d.k)}
	if d.rr != nil {
		return d.rr.Balance(d.c.Alg, key)
	}
	req := reqSpec{IP: key}.build(d.g)
	return d.bal.Balance(req)
}

type c03SSStat struct {
	sync.Mutex
	samples []interface{}
}

// c03SSRun executes one slow-start history and judges every decision.
func c03SSRun(r *vkit.Run, c *c03SSCase, st *c03SSStat) {
	desc := func() interface{} { return map[string]interface{}{"sscase": c} }
	an := c.algName()
	nbal, nfirst := 0, 0
	sawZeroFlagged := false
	try(r, desc, func() {
		d := &c03SSDriver{c: c}
		if err := d.init(); err != nil {
			r.Violation("slowstart:init-rejected-valid", err.Error(), desc())
			return
		}
		first := "" // "" | reload | recovery: the next decision is the first one after that event
		for step, op := range c.Ops {
			switch op.Kind {
			case "reload":
				d.reload(op.Table)
				first = "reload"
			case "down":
				if b, ok := d.objs[op.Name]; ok {
					b.SetAvail(false)
					d.mod[op.Name].avail = false
				}
			case "up":
				// what the health checker does when a backend is back
				if b, ok := d.objs[op.Name]; ok && !d.mod[op.Name].avail {
					b.SetRestart(true)
					b.SetAvail(true)
					m := d.mod[op.Name]
					m.avail, m.pending, m.origin = true, true, "recovered"
					first = "recovery"
				}
			case "sleep":
				time.Sleep(time.Duration(op.N) * time.Millisecond)
				r.Count("ss_sleep_ops", 1)
			case "conns":
				if b, ok := d.objs[op.Name]; ok {
					for b.ConnNum() < op.N {
						b.IncConnNum()
					}
					for b.ConnNum() > op.N {
						b.DecConnNum()
					}
				}
			case "balance":
				for k := 0; k < op.N; k++ {
					nbal++
					if !c03SSStep(r, c, d, step, k, first, an, &sawZeroFlagged) {
						return
					}
					if first != "" {
						nfirst++
					}
					first = ""
				}
			}
		}
	})
	kb, _ := json.Marshal(c)
	r.Case(vkit.Hash64("ss", string(kb)), nfirst > 0 && sawZeroFlagged)
	r.Count("ss_histories_"+c.Level, 1)
	r.Count("ss_balance_calls", int64(nbal))
	if sawZeroFlagged && len(c.Ops) <= 8 {
		st.Lock()
		if len(st.samples) < 3 {
			st.samples = append(st.samples, c)
		}
		st.Unlock()
	}
}

func c03SSStep(r *vkit.Run, c *c03SSCase, d *c03SSDriver, step, k int, first, an string, sawZeroFlagged *bool) bool {
	sticky := c.sticky()
	// state before the call
	snap := d.snap()
	ramping := map[string]bool{}
	for _, b := range snap.Backends {
		if !sticky && (b.InSlowStart || b.Backend.GetRestart()) {
			ramping[b.Backend.Name] = true
		}
	}
	nElig, nEligSettled, nEligSettledFresh := 0, 0, 0
	zeroFlagged, othersHoldConns := false, true
	for n, m := range d.mod {
		if m.avail && m.cfg > 0 {
			nElig++
			if !ramping[n] {
				nEligSettled++
				if !m.staleShape() {
					nEligSettledFresh++
				}
			}
			if b := d.objs[n]; b == nil || b.ConnNum() == 0 {
				othersHoldConns = false
			}
		}
		if m.avail && m.cfg <= 0 && m.pending {
			zeroFlagged = true
		}
	}
	if first != "" {
		r.Count("ss_first_decision_after_"+first+":"+an, 1)
		if zeroFlagged {
			*sawZeroFlagged = true
			r.Count("ss_first_decision_with_flagged_zero_weight_backend_after_"+first, 1)
			r.Count("ss_first_decision_with_flagged_zero_weight_backend:"+an, 1)
			if nElig == 0 {
				r.Count("ss_first_decision_flagged_zero_weight_and_nothing_eligible:"+an, 1)
			}
			if nElig > 0 && othersHoldConns && (an == "WlcSmooth" || an == "WlcSimple") {
				r.Count("ss_first_decision_flagged_zero_weight_wlc_others_hold_connections:"+an, 1)
			}
		}
	}
	b, err := d.balance()
	// the decision consumed the restart flags (slow start is skipped for sticky)
	if !sticky {
		for _, m := range d.mod {
			if m.pending {
				m.pending, m.ramped = false, true
			}
		}
	}
	wit := func() map[string]interface{} {
		type mv struct {
			Name            string
			Cfg, Created    int
			Avail           bool
			Origin          string
			RampingBefore   bool
			WeightReloaded  bool
			EffWeightBefore int
			CurrentBefore   int
			Conns           int
		}
		var ms []mv
		for _, sb := range snap.Backends {
			n := sb.Backend.Name
			if m, ok := d.mod[n]; ok {
				ms = append(ms, mv{n, m.cfg, m.created, m.avail, m.origin, ramping[n], m.reloaded, sb.Weight, sb.Current, sb.ConnNum})
			}
		}
		w := map[string]interface{}{"sscase": c, "op": step, "decision_in_op": k, "first_decision_after": first, "alg": an, "backends_before": ms}
		if b != nil {
			w["returned"] = b.Name
		}
		if err != nil {
			w["error"] = err.Error()
		}
		return w
	}
	viol := func(sig, what string) bool {
		when := "later decision"
		if first != "" {
			when = "FIRST decision after " + first
		}
		r.Violation(sig, fmt.Sprintf("op %d (%s, slow_start_time=%d, %s): %s", step, when, c.SST, an, what), wit())
		return false
	}
	if b != nil {
		m, ok := d.mod[b.Name]
		if !ok || d.objs[b.Name] != b {
			return viol("slowstart:unknown-backend:"+an, "returned backend "+b.Name+" is not in the current list")
		}
		if err != nil {
			return viol("slowstart:backend-with-error:"+an, "Balance returned an error together with backend "+b.Name)
		}
		if !m.avail {
			return viol("slowstart:unavailable-backend:"+an, "returned backend "+b.Name+" is marked unavailable")
		}
		if m.cfg <= 0 {
			if m.staleShape() && an != "WrrSimple" {
				return viol("slowstart:stale-target:zero-weight-backend-returned",
					fmt.Sprintf("returned backend %s whose configured weight is %d (created with weight %d, weight changed by a reload, then slow start)", b.Name, m.cfg, m.created))
			}
			return viol("slowstart:nonpositive-configured-weight-backend:"+an,
				fmt.Sprintf("returned backend %s (%s) whose configured weight is %d", b.Name, m.origin, m.cfg))
		}
		r.Count("ss_success", 1)
		if ramping[b.Name] {
			r.Count("ss_success_returned_ramping_backend", 1)
		}
		return true
	}
	if err == nil {
		return viol("slowstart:nil-without-error:"+an, "neither backend nor error")
	}
	switch {
	case nElig == 0:
		r.Count("ss_error_nothing_eligible", 1)
	case nEligSettledFresh > 0:
		return viol("slowstart:error-with-eligible:"+an, fmt.Sprintf("%d available backend(s) with configured weight > 0 that are not ramping exist, but Balance failed: %v", nEligSettled, err))
	case nEligSettled > 0:
		return viol("slowstart:stale-target:error-with-eligible",
			fmt.Sprintf("an available backend with configured weight > 0 exists (weight changed by a reload after creation, then slow start), but Balance failed: %v", err))
	default:
		r.Count("ss_error_while_all_eligible_ramping", 1) // excluded corner, see the rule
	}
	return true
}

const c03SSPool = 12

func c03SSSpec(id, w int) bspec {
	return bspec{Name: fmt.Sprintf("n%d", id), Addr: fmt.Sprintf("10.2.0.%d", id+1), Port: 80, Weight: w}
}

func c03SSGen(r *vkit.Run, i int) *c03SSCase {
	g := r.Rng("ss", i)
	c := &c03SSCase{Level: "rr", SST: []int{1, 5, 30, 60}[g.Intn(4)]}
	if g.Bool() {
		c.Level = "gslb"
		c.Mode = []string{"WRR", "WLC", "WRR", "WLC", "WRR", "sticky"}[g.Intn(6)]
	} else {
		c.Alg = []int{bal_slb.WrrSmooth, bal_slb.WlcSmooth, bal_slb.WlcSimple, bal_slb.WrrSimple, bal_slb.WrrSmooth, bal_slb.WlcSmooth, bal_slb.WrrSticky}[g.Intn(7)]
	}
	wlc := c.algName() == "WlcSmooth" || c.algName() == "WlcSimple"
	ids := g.Perm(c03SSPool)
	nextID := 0
	fresh := func(w int) bspec { b := c03SSSpec(ids[nextID%c03SSPool], w); nextID++; return b }
	weight := func() int {
		if g.Chance(1, 5) {
			return 0
		}
		return g.Range(1, 3)
	}
	var cur []bspec
	for k := g.Range(1, 4); k > 0; k-- {
		cur = append(cur, fresh(weight()))
	}
	c.Init = histCopy(cur)
	down := map[string]bool{}
	op := func(o c03SSOp) { c.Ops = append(c.Ops, o) }
	holdConns := func() {
		for _, b := range cur {
			if b.Weight > 0 {
				op(c03SSOp{Kind: "conns", Name: b.Name, N: g.Range(1, 3)})
			}
		}
	}
	allOthersDown := func(except string) {
		for _, b := range cur {
			if b.Name != except && !down[b.Name] {
				op(c03SSOp{Kind: "down", Name: b.Name})
				down[b.Name] = true
			}
		}
	}
	for round := g.Range(3, 6); round > 0; round-- {
		if g.Chance(1, 2) {
			op(c03SSOp{Kind: "balance", N: g.Range(1, 3)})
		}
		if wlc && g.Chance(3, 4) || g.Chance(1, 6) {
			holdConns()
		}
		switch x := g.Intn(16); {
		case x < 7 && nextID < c03SSPool-2: // reload adds 1-2 backends, half of them with weight 0
			if g.Chance(1, 3) {
				allOthersDown("")
			}
			next := histCopy(cur)
			for k := g.Range(1, 2); k > 0; k-- {
				w := 0
				if g.Bool() {
					w = g.Range(1, 3)
				}
				at := g.Intn(len(next) + 1)
				next = append(next, bspec{})
				copy(next[at+1:], next[at:])
				next[at] = fresh(w)
			}
			if g.Chance(1, 5) && len(next) > 2 { // and drops one
				at := g.Intn(len(next))
				delete(down, next[at].Name)
				next = append(next[:at], next[at+1:]...)
			}
			cur = next
			op(c03SSOp{Kind: "reload", Table: histCopy(cur)})
		case x < 12: // a backend goes down and is brought back (restart flag), preferably one with weight 0
			var zs []int
			for k, b := range cur {
				if b.Weight == 0 {
					zs = append(zs, k)
				}
			}
			k := g.Intn(len(cur))
			if len(zs) > 0 && g.Chance(2, 3) {
				k = zs[g.Intn(len(zs))]
			}
			name := cur[k].Name
			if !down[name] {
				op(c03SSOp{Kind: "down", Name: name})
				down[name] = true
				if g.Bool() {
					op(c03SSOp{Kind: "balance", N: g.Range(1, 2)})
				}
			}
			if g.Chance(1, 3) {
				allOthersDown(name)
			}
			op(c03SSOp{Kind: "up", Name: name})
			delete(down, name)
		case x < 14: // reload changes the weight of a present backend (to 0, or from 0 up)
			next := histCopy(cur)
			k := g.Intn(len(next))
			if next[k].Weight == 0 {
				next[k].Weight = g.Range(1, 3)
			} else if g.Bool() {
				next[k].Weight = 0
			} else {
				next[k].Weight = 1 + next[k].Weight%3
			}
			cur = next
			op(c03SSOp{Kind: "reload", Table: histCopy(cur)})
		case x < 15 && nextID < c03SSPool-3: // every backend replaced
			var next []bspec
			for k := g.Range(1, 3); k > 0; k-- {
				next = append(next, fresh(weight()))
			}
			cur = next
			down = map[string]bool{}
			op(c03SSOp{Kind: "reload", Table: histCopy(cur)})
		default: // some backend comes back without anything else
			for _, b := range cur {
				if down[b.Name] && g.Bool() {
					op(c03SSOp{Kind: "up", Name: b.Name})
					delete(down, b.Name)
				}
			}
		}
		// the FIRST decision after the event is judged: no warm-up in between
		op(c03SSOp{Kind: "balance", N: g.Range(1, 3)})
		if c.SST == 1 && g.Chance(1, 6) {
			// let the ramps get somewhere (slow_start_time 1 s: weight w reaches 1/100 of w after 10/w ms)
			op(c03SSOp{Kind: "sleep", N: g.Range(12, 25)})
			op(c03SSOp{Kind: "balance", N: g.Range(1, 4)})
		}
	}
	return c
}

func c03SlowStart(r *vkit.Run) {
	st := &c03SSStat{}
	n := r.N(4000, 80000)
	vkit.Parallel(n, 0, func(i int) {
		c03SSRun(r, c03SSGen(r, i), st)
	})
	r.Extra("slow_start_samples", st.samples)
	need := []string{"ss_histories_rr", "ss_histories_gslb", "ss_success", "ss_error_nothing_eligible",
		"ss_first_decision_with_flagged_zero_weight_backend_after_reload", "ss_first_decision_with_flagged_zero_weight_backend_after_recovery"}
	for _, an := range []string{"WrrSmooth", "WlcSmooth", "WlcSimple", "WrrSimple", "WrrSticky"} {
		need = append(need, "ss_first_decision_after_reload:"+an, "ss_first_decision_after_recovery:"+an, "ss_first_decision_with_flagged_zero_weight_backend:"+an)
	}
	for _, an := range []string{"WrrSmooth", "WlcSmooth", "WlcSimple", "WrrSimple"} {
		need = append(need, "ss_first_decision_flagged_zero_weight_and_nothing_eligible:"+an)
	}
	for _, an := range []string{"WlcSmooth", "WlcSimple"} {
		need = append(need, "ss_first_decision_flagged_zero_weight_wlc_others_hold_connections:"+an)
	}
	for _, k := range need {
		if r.Counter(k) == 0 {
			r.Inconclusive("slow-start workload never reached " + k)
		}
	}
}
