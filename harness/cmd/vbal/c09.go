package main

import (
	"encoding/json"
	"fmt"
	"os"
	"path/filepath"
	"sort"
	"strings"
	"sync"

	"github.com/bfenetworks/bfe/bfe_balance"
	"github.com/bfenetworks/bfe/bfe_balance/backend"
	"github.com/bfenetworks/bfe/bfe_balance/bal_gslb"
	"github.com/bfenetworks/bfe/bfe_config/bfe_cluster_conf/cluster_conf"

	"verifharness/balhist"
	"verifharness/vkit"
)

// C09: after any sequence of gslb / cluster-table reloads, backends whose name
// and address persist keep availability and counters; removed backends,
// sub-clusters and clusters are released exactly once and never selected
// again; added ones become selectable.
//
// Oracle: a reference model of the table keyed by (cluster, sub-cluster,
// addr:port) that tracks every *BfeBackend ever seen (through the verif
// snapshot accessor) with its recorded state and whether it must be released.
// All files go through BalTable.Init / BalTableConfLoad (the real loaders) and
// BalTableReload.

type c09Sub struct {
	Name     string  `json:"name"`
	GW       int     `json:"gslb_weight"`
	Backends []bspec `json:"backends"`
	// inconsistent pair of files, for this step only:
	NoList bool `json:"no_list,omitempty"` // gslb.data names the sub-cluster, cluster_table.data has no list for it
	NoGslb bool `json:"no_gslb,omitempty"` // cluster_table.data has the list, gslb.data does not name the sub-cluster
}

type c09Cluster struct {
	Name string   `json:"name"`
	Subs []c09Sub `json:"subs"`
	// inconsistent pair of files, for this step only:
	NoTable bool `json:"no_table,omitempty"` // gslb.data names the cluster, cluster_table.data has no entry for it
	NoGslb  bool `json:"no_gslb,omitempty"`  // cluster_table.data has the cluster, gslb.data does not
}

type c09Conf struct {
	Clusters []c09Cluster `json:"clusters"`
	Corrupt  string       `json:"corrupt,omitempty"`      // the files written from this conf are invalid in this way
	Incons   []string     `json:"inconsistent,omitempty"` // shapes of inconsistency between the two files (see c09MarkIncons)
}

type c09Mut struct {
	Cluster string `json:"c"`
	Sub     string `json:"s"`
	Addr    string `json:"a"`
	Kind    string `json:"k"` // down | up | conn+ | conn- | fail+
	N       int    `json:"n"`
}

type c09Step struct {
	Muts []c09Mut `json:"muts"`
	Conf c09Conf  `json:"conf"`
}

type c09Hist struct {
	Index int       `json:"index"`
	Init  c09Conf   `json:"init"`
	Steps []c09Step `json:"steps"`
}

func (c c09Conf) clone() c09Conf {
	b, _ := json.Marshal(c)
	var out c09Conf
	json.Unmarshal(b, &out)
	return out
}

// ---- file writing ----

func c09Files(c *c09Conf, g *vkit.Rand, gen int) (gslb, table string) {
	var gcl, tcl []string
	for _, ci := range g.Perm(len(c.Clusters)) {
		cl := c.Clusters[ci]
		var gs, ts []string
		zero := c.Corrupt == "gslb-total-zero" && ci == 0
		target := -1 // first real sub-cluster of the first cluster takes the table corruption
		if ci == 0 {
			target = c09RealSubs(&cl)[0]
		}
		for _, si := range g.Perm(len(cl.Subs)) {
			s := cl.Subs[si]
			w := s.GW
			if zero && w > 0 {
				w = 0
			}
			if !s.NoGslb {
				gs = append(gs, fmt.Sprintf("%q: %d", s.Name, w))
			}
			if s.Name == "GSLB_BLACKHOLE" || s.NoList {
				continue
			}
			var bs []string
			for _, bi := range g.Perm(len(s.Backends)) {
				b := s.Backends[bi]
				w := b.Weight
				if c.Corrupt == "table-sub-no-positive" && si == target && w > 0 {
					w = 0
				}
				if c.Corrupt == "missing-weight-field" && si == target && bi == 0 {
					bs = append(bs, fmt.Sprintf(`{"Name": %q, "Addr": %q, "Port": %d}`, b.Name, b.Addr, b.Port))
					continue
				}
				bs = append(bs, fmt.Sprintf(`{"Name": %q, "Addr": %q, "Port": %d, "Weight": %d}`, b.Name, b.Addr, b.Port, w))
			}
			ts = append(ts, fmt.Sprintf("%q: [%s]", s.Name, strings.Join(bs, ", ")))
		}
		if !cl.NoGslb {
			gcl = append(gcl, fmt.Sprintf("%q: {%s}", cl.Name, strings.Join(gs, ", ")))
		}
		if !cl.NoTable {
			tcl = append(tcl, fmt.Sprintf("%q: {%s}", cl.Name, strings.Join(ts, ", ")))
		}
	}
	ts := fmt.Sprintf(`, "Ts": "20260101%06d"`, gen) // one timestamp per written generation
	if c.Corrupt == "missing-ts" {
		ts = ""
	}
	gslb = fmt.Sprintf(`{"Clusters": {%s}, "Hostname": "gslb-sch.example"%s}`, strings.Join(gcl, ", "), ts)
	table = fmt.Sprintf(`{"Version": "v%d.%d", "Config": {%s}}`, gen, g.Intn(1000), strings.Join(tcl, ", "))
	if c.Corrupt == "bad-json" {
		table = table[:len(table)/2]
	}
	return
}

// ---- generator ----

var c09ClusterNames = []string{"cl_a", "cl_b", "cl_c"}
var c09SubNames = []string{"x.bj", "y.gz", "z.sh", "w.hk"}

func c09NewBackend(g *vkit.Rand, ctr *int) bspec {
	*ctr++
	return bspec{Name: fmt.Sprintf("n%d", *ctr), Addr: fmt.Sprintf("10.9.%d.%d", g.Intn(2), g.Range(1, 12)), Port: 8000 + g.Intn(3), Weight: g.Range(1, 5)}
}

func c09NewSub(g *vkit.Rand, name string, ctr *int, allowDup bool) c09Sub {
	s := c09Sub{Name: name, GW: []int{0, 10, 30, 50, 100}[g.Intn(5)]}
	n := g.Range(1, 4)
	seen := map[string]bool{}
	for k := 0; k < n; k++ {
		b := c09NewBackend(g, ctr)
		if seen[b.addrInfo()] && !allowDup {
			continue
		}
		seen[b.addrInfo()] = true
		s.Backends = append(s.Backends, b)
	}
	return s
}

func c09NewCluster(g *vkit.Rand, name string, ctr *int, allowDup bool) c09Cluster {
	cl := c09Cluster{Name: name}
	p := g.Perm(len(c09SubNames))
	n := g.Range(1, 3)
	for k := 0; k < n; k++ {
		cl.Subs = append(cl.Subs, c09NewSub(g, c09SubNames[p[k]], ctr, allowDup))
	}
	if g.Bool() {
		cl.Subs = append(cl.Subs, c09Sub{Name: "GSLB_BLACKHOLE", GW: []int{0, 0, 20}[g.Intn(3)]})
	}
	c09FixCluster(g, &cl)
	return cl
}

// c09FixCluster restores what the loaders demand: positive total gslb weight
// on a real sub-cluster and a positive-weight backend in every sub-cluster.
func c09FixCluster(g *vkit.Rand, cl *c09Cluster) {
	pos := false
	for i := range cl.Subs {
		s := &cl.Subs[i]
		if s.Name == "GSLB_BLACKHOLE" {
			continue
		}
		if s.GW > 0 {
			pos = true
		}
		ok := false
		for _, b := range s.Backends {
			if b.Weight > 0 {
				ok = true
			}
		}
		if !ok && len(s.Backends) > 0 {
			s.Backends[g.Intn(len(s.Backends))].Weight = g.Range(1, 5)
		}
	}
	if !pos {
		for i := range cl.Subs {
			if cl.Subs[i].Name != "GSLB_BLACKHOLE" {
				cl.Subs[i].GW = g.Range(1, 100)
				break
			}
		}
	}
}

func c09RealSubs(cl *c09Cluster) []int {
	var out []int
	for i, s := range cl.Subs {
		if s.Name != "GSLB_BLACKHOLE" {
			out = append(out, i)
		}
	}
	return out
}

func c09Edit(g *vkit.Rand, c *c09Conf, ctr *int) string {
	ci := g.Intn(len(c.Clusters))
	cl := &c.Clusters[ci]
	real := c09RealSubs(cl)
	si := real[g.Intn(len(real))]
	s := &cl.Subs[si]
	switch g.Intn(13) {
	case 0, 1:
		s.Backends = append(s.Backends, c09NewBackend(g, ctr))
		return "add-backend"
	case 2, 3:
		if len(s.Backends) >= 2 {
			k := g.Intn(len(s.Backends))
			s.Backends = append(s.Backends[:k:k], s.Backends[k+1:]...)
			c09FixCluster(g, cl)
			return "remove-backend"
		}
	case 4:
		k := g.Intn(len(s.Backends))
		s.Backends[k].Weight = []int{0, 0, -1, 1, 2, 7}[g.Intn(6)]
		c09FixCluster(g, cl)
		return "change-weight"
	case 5:
		k := g.Intn(len(s.Backends))
		*ctr++
		s.Backends[k].Name = fmt.Sprintf("r%d", *ctr)
		return "rename"
	case 6:
		k := g.Intn(len(s.Backends))
		*ctr++
		d := s.Backends[k]
		d.Name, d.Weight = fmt.Sprintf("d%d", *ctr), g.Range(1, 5)
		s.Backends = append(s.Backends, d)
		return "duplicate-address"
	case 7:
		if len(real) >= 2 {
			cl.Subs = append(cl.Subs[:si:si], cl.Subs[si+1:]...)
			c09FixCluster(g, cl)
			return "remove-sub"
		}
	case 8:
		have := map[string]bool{}
		for _, x := range cl.Subs {
			have[x.Name] = true
		}
		for _, k := range g.Perm(len(c09SubNames)) {
			if !have[c09SubNames[k]] {
				cl.Subs = append(cl.Subs, c09NewSub(g, c09SubNames[k], ctr, false))
				return "add-sub"
			}
		}
	case 9:
		for i := range cl.Subs {
			cl.Subs[i].GW = []int{0, 0, 5, 40, 100}[g.Intn(5)]
		}
		c09FixCluster(g, cl)
		return "gslb-weights"
	case 10:
		if len(c.Clusters) >= 2 {
			c.Clusters = append(c.Clusters[:ci:ci], c.Clusters[ci+1:]...)
			return "remove-cluster"
		}
	case 11:
		have := map[string]bool{}
		for _, x := range c.Clusters {
			have[x.Name] = true
		}
		for _, k := range g.Perm(len(c09ClusterNames)) {
			if !have[c09ClusterNames[k]] {
				c.Clusters = append(c.Clusters, c09NewCluster(g, c09ClusterNames[k], ctr, false))
				return "add-cluster"
			}
		}
	case 12:
		for i, x := range cl.Subs {
			if x.Name == "GSLB_BLACKHOLE" {
				cl.Subs = append(cl.Subs[:i:i], cl.Subs[i+1:]...)
				return "remove-blackhole"
			}
		}
		cl.Subs = append(cl.Subs, c09Sub{Name: "GSLB_BLACKHOLE", GW: []int{0, 15}[g.Intn(2)]})
		return "add-blackhole"
	}
	return ""
}

func c09Gen(r *vkit.Run, idx int) *c09Hist {
	g := r.Rng("hist", idx)
	ctr := 0
	h := &c09Hist{Index: idx}
	n := g.Range(1, 2)
	p := g.Perm(len(c09ClusterNames))
	for k := 0; k < n; k++ {
		h.Init.Clusters = append(h.Init.Clusters, c09NewCluster(g, c09ClusterNames[p[k]], &ctr, g.Chance(1, 3)))
	}
	cur := h.Init.clone()
	steps := g.Range(3, 12)
	for k := 0; k < steps; k++ {
		st := c09Step{}
		// state changes on backends of the current configuration
		for m := g.Intn(4); m > 0; m-- {
			cl := cur.Clusters[g.Intn(len(cur.Clusters))]
			real := c09RealSubs(&cl)
			s := cl.Subs[real[g.Intn(len(real))]]
			b := s.Backends[g.Intn(len(s.Backends))]
			st.Muts = append(st.Muts, c09Mut{Cluster: cl.Name, Sub: s.Name, Addr: b.addrInfo(),
				Kind: []string{"down", "down", "up", "conn+", "conn+", "conn-", "fail+"}[g.Intn(7)], N: g.Range(1, 3)})
		}
		next := cur.clone()
		for e := g.Range(1, 3); e > 0; e-- {
			c09Edit(g, &next, &ctr)
		}
		if g.Chance(1, 6) {
			next.Corrupt = []string{"bad-json", "gslb-total-zero", "table-sub-no-positive", "missing-weight-field", "missing-ts"}[g.Intn(5)]
			st.Conf = next
			h.Steps = append(h.Steps, st)
			continue // rejected by the loader: the configuration stays cur
		}
		st.Conf = next
		h.Steps = append(h.Steps, st)
		cur = next.clone()
	}
	return h
}

// ---- inconsistent pairs of files ----

// Shapes of inconsistency between gslb.data and cluster_table.data in one reload. Both
// files pass their own loaders (there is no cross-file check).
const (
	icTableOmitsLoadedCluster = "table-omits-loaded-cluster" // gslb names a cluster of the table, cluster_table has no entry for it
	icTableOmitsNewCluster    = "table-omits-new-cluster"    // same for a cluster that is not in the table
	icGslbOmitsCluster        = "gslb-omits-cluster"         // cluster_table has a cluster that gslb does not name
	icTableOmitsLoadedSub     = "table-omits-loaded-sub"     // gslb names a sub-cluster (already in the table) without list in cluster_table
	icTableOmitsNewSub        = "table-omits-new-sub"        // same for a sub-cluster that is new in this reload
	icGslbOmitsSub            = "gslb-omits-sub"             // cluster_table lists a sub-cluster that gslb does not name
)

var c09InconsShapes = []string{icTableOmitsLoadedCluster, icTableOmitsNewCluster, icGslbOmitsCluster, icTableOmitsLoadedSub, icTableOmitsNewSub, icGslbOmitsSub}

// c09MarkIncons turns consistent steps of h into inconsistent ones (with probability
// num/den per step that the loaders accept; 1-2 marks per step). The marks are transient: the
// next step is derived from the unmarked configuration. "loaded" is judged against
// what the unchanged tree keeps in the table (clusters / sub-clusters named by the last
// applied gslb.data); the oracle itself uses the observed table.
func c09MarkIncons(g *vkit.Rand, h *c09Hist, num, den int) {
	loadedSubs := func(c *c09Conf) map[string]map[string]bool {
		m := map[string]map[string]bool{}
		for _, cl := range c.Clusters {
			if cl.NoGslb {
				continue
			}
			m[cl.Name] = map[string]bool{}
			for _, s := range cl.Subs {
				if !s.NoGslb {
					m[cl.Name][s.Name] = true
				}
			}
		}
		return m
	}
	loaded := loadedSubs(&h.Init)
	for i := range h.Steps {
		c := &h.Steps[i].Conf
		if c.Corrupt != "" {
			continue
		}
		if g.Chance(num, den) {
			for k := g.Range(1, 2); k > 0; k-- {
				ci := g.Intn(len(c.Clusters))
				cl := &c.Clusters[ci]
				if cl.NoGslb || cl.NoTable {
					continue
				}
				_, wasLoaded := loaded[cl.Name]
				switch g.Intn(8) {
				case 0, 1, 2:
					cl.NoTable = true
					if wasLoaded {
						c.Incons = append(c.Incons, icTableOmitsLoadedCluster)
					} else {
						c.Incons = append(c.Incons, icTableOmitsNewCluster)
					}
				case 3:
					named := 0
					for _, x := range c.Clusters {
						if !x.NoGslb {
							named++
						}
					}
					if named >= 2 {
						cl.NoGslb = true
						c.Incons = append(c.Incons, icGslbOmitsCluster)
					}
				case 4, 5:
					real := c09RealSubs(cl)
					sub := &cl.Subs[real[g.Intn(len(real))]]
					if sub.NoGslb || sub.NoList {
						continue
					}
					sub.NoList = true
					if loaded[cl.Name][sub.Name] {
						c.Incons = append(c.Incons, icTableOmitsLoadedSub)
					} else {
						c.Incons = append(c.Incons, icTableOmitsNewSub)
					}
				default:
					real := c09RealSubs(cl)
					k := real[g.Intn(len(real))]
					if cl.Subs[k].NoGslb || cl.Subs[k].NoList {
						continue
					}
					rest := 0 // gslb.data must keep a positive total weight for the cluster
					for j, x := range cl.Subs {
						if j != k && !x.NoGslb && x.GW > 0 {
							rest += x.GW
						}
					}
					if rest > 0 {
						cl.Subs[k].NoGslb = true
						c.Incons = append(c.Incons, icGslbOmitsSub)
					}
				}
			}
		}
		loaded = loadedSubs(c)
	}
}

// ---- reference model ----

type c09Key struct{ C, S, A string }

type c09Obj struct {
	key      c09Key
	ptr      *backend.BfeBackend
	avail    bool
	conn     int
	fail     int
	released bool
	selected bool
}

type c09Model struct {
	objs map[*backend.BfeBackend]*c09Obj
	live map[c09Key][]*c09Obj
	bals map[string]*bal_gslb.BalanceGslb // clusters of the current configuration
}

func uniqStrings(xs []string) []string {
	seen := map[string]bool{}
	var out []string
	for _, x := range xs {
		if !seen[x] {
			seen[x] = true
			out = append(out, x)
		}
	}
	return out
}

func c09Closed(b *backend.BfeBackend) bool {
	select {
	case <-b.CloseChan():
		return true
	default:
		return false
	}
}

type c09Runner struct {
	r    *vkit.Run
	h    *c09Hist
	t    *bfe_balance.BalTable
	m    c09Model
	step int
	ts   string // Ts of the gslb.data handed to the last BalTableReload ("" = not tracked)
}

func (x *c09Runner) wit(extra map[string]interface{}) map[string]interface{} {
	w := map[string]interface{}{"history": x.h, "step": x.step}
	for k, v := range extra {
		w[k] = v
	}
	return w
}

// reconcile compares the table with what conf demands, given the model of the
// state before the (re)load, and updates the model. isInit: lists were built
// by Init (every listed entry is instantiated); otherwise by Update (one object
// per address). It returns false after reporting a violation.
func (x *c09Runner) reconcile(conf *c09Conf, isInit bool) bool {
	r := x.r
	newLive := map[c09Key][]*c09Obj{}
	newBals := map[string]*bal_gslb.BalanceGslb{}
	viol := func(sig, what string, extra map[string]interface{}) bool {
		r.Violation(sig, fmt.Sprintf("step %d: %s", x.step, what), x.wit(extra))
		return false
	}
	ok := true
	dropped := map[string]bool{} // clusters named by gslb.data without cluster_table entry that left the table
	for _, cl := range conf.Clusters {
		_, wasLoaded := x.m.bals[cl.Name]
		if cl.NoGslb {
			// gslb.data does not name the cluster: it is not part of the configuration, the
			// stray cluster_table.data entry means nothing (a loaded one is handled as removed below)
			if _, err := x.t.Lookup(cl.Name); err == nil && !wasLoaded {
				return viol("cluster-not-in-gslb-found", "cluster "+cl.Name+" is only named by cluster_table.data but Lookup finds it", nil)
			}
			continue
		}
		bal, err := x.t.Lookup(cl.Name)
		if err != nil {
			if cl.NoTable && !wasLoaded {
				// a cluster that was never loaded and has no backend lists: nothing of the
				// statement depends on whether an empty balancer is installed
				r.Count("incons_new_cluster_without_table_absent", 1)
				continue
			}
			if cl.NoTable {
				// the table reports the gslb.data generation that names this (loaded) cluster,
				// yet the cluster left the table; its objects are judged by the release check below
				if v := x.t.GetVersions(); x.ts == "" || v.GslbConfTimeStamp == x.ts {
					r.Violation("cluster-missing-after-reload:no-table-entry", fmt.Sprintf("step %d: cluster %s was loaded, gslb.data (Ts %s, which the table reports as loaded) still names it, cluster_table.data has no entry for it: Lookup fails", x.step, cl.Name, x.ts), x.wit(nil))
					ok = false
				}
				dropped[cl.Name] = true
				continue
			}
			return viol("cluster-missing-after-reload", "cluster "+cl.Name+" is configured but Lookup fails", nil)
		}
		if cl.NoTable && !wasLoaded {
			r.Count("incons_new_cluster_without_table_present", 1)
		}
		newBals[cl.Name] = bal
		snap := bal.VerifSnapshot()
		nsubs := 0
		for _, s := range cl.Subs {
			if !s.NoGslb {
				nsubs++
			}
		}
		if len(snap.Subs) != nsubs {
			return viol("sub-cluster-set-differs", fmt.Sprintf("cluster %s has %d sub-clusters, gslb.data lists %d", cl.Name, len(snap.Subs), nsubs), nil)
		}
		for _, s := range cl.Subs {
			if s.NoGslb {
				continue // not named by gslb.data: absent (count above + presence of all others)
			}
			vs := subByName(&snap, s.Name)
			if vs == nil {
				return viol("sub-cluster-missing", "sub-cluster "+cl.Name+"/"+s.Name+" is configured but absent", nil)
			}
			if vs.Weight != s.GW {
				return viol("sub-cluster-weight", fmt.Sprintf("sub-cluster %s/%s has weight %d, configured %d", cl.Name, s.Name, vs.Weight, s.GW), nil)
			}
			if (cl.NoTable || s.NoList) && s.Name != "GSLB_BLACKHOLE" {
				// no backend list was given for this sub-cluster: nothing is demanded about
				// which backends it holds, only that what it holds is consistent with the
				// history of those objects (kept objects keep identity and state; objects
				// that left are judged by the release check below)
				for _, vb := range vs.RR.Backends {
					a := vb.Backend.AddrInfo
					key := c09Key{cl.Name, s.Name, a}
					if c09Closed(vb.Backend) {
						return viol("released-backend-in-live-list", fmt.Sprintf("%s/%s (no list in cluster_table.data) lists %s whose close channel is closed", cl.Name, s.Name, a), nil)
					}
					o := x.m.objs[vb.Backend]
					if o == nil {
						o = &c09Obj{key: key, ptr: vb.Backend, avail: vb.Avail, conn: vb.ConnNum, fail: vb.Backend.FailNum()}
						x.m.objs[vb.Backend] = o
						r.Count("incons_unlisted_sub_new_object", 1)
					} else {
						if o.released {
							return viol("released-backend-in-live-list", fmt.Sprintf("%s/%s (no list in cluster_table.data) lists a backend object for %s that was removed earlier", cl.Name, s.Name, a), nil)
						}
						if o.key != key {
							return viol("backend-moved", fmt.Sprintf("backend object of %v now listed under %v", o.key, key), nil)
						}
						if vb.Avail != o.avail || vb.ConnNum != o.conn || vb.Backend.FailNum() != o.fail {
							return viol("survivor-state-changed", fmt.Sprintf("%s/%s/%s stayed in the table (sub-cluster without list) but avail/conn/fail = %v/%d/%d, before the reload %v/%d/%d",
								cl.Name, s.Name, a, vb.Avail, vb.ConnNum, vb.Backend.FailNum(), o.avail, o.conn, o.fail), nil)
						}
						r.Count("incons_unlisted_sub_backend_kept", 1)
					}
					newLive[key] = append(newLive[key], o)
				}
				if len(vs.RR.Backends) == 0 {
					r.Count("incons_unlisted_sub_empty", 1)
				}
				continue
			}
			// expected multiset of addresses
			want := map[string]int{}
			names := map[string]map[string]bool{}
			confW := map[string][]int{}
			for _, b := range s.Backends {
				a := b.addrInfo()
				if isInit {
					want[a]++
				} else {
					want[a] = 1
				}
				if names[a] == nil {
					names[a] = map[string]bool{}
				}
				names[a][b.Name] = true
				confW[a] = append(confW[a], b.Weight)
			}
			got := map[string]int{}
			for _, vb := range vs.RR.Backends {
				a := vb.Backend.AddrInfo
				got[a]++
				key := c09Key{cl.Name, s.Name, a}
				if _, ok := want[a]; !ok {
					return viol("removed-backend-still-listed", fmt.Sprintf("%s/%s still lists %s which the configuration no longer has", cl.Name, s.Name, a), nil)
				}
				if c09Closed(vb.Backend) {
					return viol("released-backend-in-live-list", fmt.Sprintf("%s/%s lists %s whose close channel is closed", cl.Name, s.Name, a), nil)
				}
				if len(confW[a]) == 1 && vb.Weight != 100*confW[a][0] && !vb.InSlowStart {
					return viol("weight-not-applied", fmt.Sprintf("%s/%s/%s has weight %d, configured %d (x100)", cl.Name, s.Name, a, vb.Weight, confW[a][0]), nil)
				}
				o := x.m.objs[vb.Backend]
				if o != nil {
					if o.released {
						return viol("released-backend-in-live-list", fmt.Sprintf("%s/%s lists a backend object for %s that was removed earlier", cl.Name, s.Name, a), nil)
					}
					if o.key != key {
						return viol("backend-moved", fmt.Sprintf("backend object of %v now listed under %v", o.key, key), nil)
					}
					if vb.Avail != o.avail || vb.ConnNum != o.conn || vb.Backend.FailNum() != o.fail {
						return viol("survivor-state-changed", fmt.Sprintf("%s/%s/%s persisted but avail/conn/fail = %v/%d/%d, before the reload %v/%d/%d",
							cl.Name, s.Name, a, vb.Avail, vb.ConnNum, vb.Backend.FailNum(), o.avail, o.conn, o.fail), nil)
					}
				} else {
					// a new object: if name and address persisted, it must carry the old state
					for _, old := range x.m.live[key] {
						if names[a][old.ptr.Name] {
							if vb.Avail != old.avail || vb.ConnNum != old.conn || vb.Backend.FailNum() != old.fail {
								return viol("survivor-state-lost", fmt.Sprintf("%s/%s/%s (name %s) persisted in the configuration but was replaced by a fresh object: avail/conn/fail = %v/%d/%d, before %v/%d/%d",
									cl.Name, s.Name, a, old.ptr.Name, vb.Avail, vb.ConnNum, vb.Backend.FailNum(), old.avail, old.conn, old.fail), nil)
							}
							break
						}
					}
					o = &c09Obj{key: key, ptr: vb.Backend, avail: vb.Avail, conn: vb.ConnNum, fail: vb.Backend.FailNum()}
					x.m.objs[vb.Backend] = o
					if !isInit && len(x.m.live[key]) == 0 {
						r.Count("backends_added", 1)
					}
				}
				newLive[key] = append(newLive[key], o)
			}
			for a, n := range want {
				if got[a] != n {
					return viol("backend-count", fmt.Sprintf("%s/%s lists %s %d times, expected %d", cl.Name, s.Name, a, got[a], n), nil)
				}
			}
		}
	}
	// everything that was live and is not any more must have been released (once: twice panics)
	for key, olds := range x.m.live {
		for _, o := range olds {
			still := false
			for _, n := range newLive[key] {
				if n == o {
					still = true
				}
			}
			if still {
				continue
			}
			if !c09Closed(o.ptr) {
				if dropped[key.C] {
					return viol("dropped-cluster-not-released:no-table-entry", fmt.Sprintf("cluster %s (named by gslb.data, no entry in cluster_table.data) left the table but the close channel of its backend %v is still open: removed without release", key.C, key), nil)
				}
				return viol("removed-not-released", fmt.Sprintf("backend %v was removed by the reload but its close channel is still open", key), nil)
			}
			o.released = true
			r.Count("backends_removed", 1)
		}
	}
	// removed clusters must be gone
	for name := range x.m.bals {
		if _, kept := newBals[name]; !kept {
			if _, err := x.t.Lookup(name); err == nil {
				return viol("removed-cluster-still-found", "cluster "+name+" was removed but Lookup still finds it", nil)
			}
			r.Count("clusters_removed", 1)
		}
	}
	x.m.live, x.m.bals = newLive, newBals
	return ok
}

// picks drives Balance on every cluster: only live objects may come back, and
// every eligible backend in a positive-weight sub-cluster must come back.
func (x *c09Runner) picks(conf *c09Conf, g *vkit.Rand) bool {
	r := x.r
	for _, cl := range conf.Clusters {
		bal := x.m.bals[cl.Name]
		if bal == nil {
			continue // not named by gslb.data in this (inconsistent) step
		}
		snap := bal.VerifSnapshot()
		type need struct {
			o   *c09Obj
			sub string
		}
		var needs []need
		subW := map[string]int{}
		G, maxRatio := 0, 1
		for _, s := range snap.Subs {
			if s.Weight > 0 && !s.Blackhole {
				G += s.Weight
			}
		}
		for _, s := range snap.Subs {
			if s.Weight <= 0 || s.Blackhole {
				continue
			}
			w := 0
			for _, b := range s.RR.Backends {
				if eligible(b) {
					w += b.Weight / 100
					if b.Weight%100 != 0 {
						w++
					}
				}
			}
			subW[s.Name] = w
			for _, b := range s.RR.Backends {
				if eligible(b) && !b.InSlowStart {
					needs = append(needs, need{x.m.objs[b.Backend], s.Name})
				}
			}
			if w > 0 {
				// picks needed overall so that 50*w+200 of them land in this sub-cluster
				if ratio := (50*w + 200) * ((G + s.Weight - 1) / s.Weight); ratio > maxRatio {
					maxRatio = ratio
				}
			}
		}
		landed := map[string]int{}
		seen := map[*c09Obj]bool{}
		maxPicks := 2*maxRatio + 200
		if maxPicks > 60000 {
			maxPicks = 60000
		}
		req := reqSpec{IP: []byte{0, 0, 0, 0}}.build(gbasic{Strategy: cluster_conf.ClientIpOnly})
		for k := 0; k < maxPicks; k++ {
			v := g.U64()
			ip := req.ClientAddr.IP
			ip[0], ip[1], ip[2], ip[3] = byte(v), byte(v>>8), byte(v>>16), byte(v>>24)
			req.RetryTime, req.ErrCode, req.ErrMsg, req.Backend.SubclusterName = 0, nil, "", ""
			b, err := bal.Balance(req)
			if err != nil || b == nil {
				continue
			}
			o := x.m.objs[b]
			if o == nil || o.released || c09Closed(b) {
				r.Violation("removed-backend-selected", fmt.Sprintf("step %d: Balance on %s returned %s (%s) which is not in the configuration any more", x.step, cl.Name, b.Name, b.AddrInfo),
					x.wit(map[string]interface{}{"cluster": cl.Name, "returned": b.Name + "@" + b.AddrInfo}))
				return false
			}
			if o.key.C != cl.Name {
				r.Violation("backend-of-other-cluster-selected", fmt.Sprintf("step %d: Balance on %s returned a backend of %v", x.step, cl.Name, o.key), x.wit(nil))
				return false
			}
			landed[req.Backend.SubclusterName]++
			seen[o] = true
			o.selected = true
			if k%64 == 63 {
				all := true
				for _, n := range needs {
					if !seen[n.o] {
						all = false
						break
					}
				}
				if all {
					break
				}
			}
		}
		r.Count("picks", int64(len(seen)))
		for _, n := range needs {
			if seen[n.o] {
				continue
			}
			if landed[n.sub] < 50*subW[n.sub]+200 { // transient of smooth WRR after a weight change is bounded by the old credits
				r.Count("selectable_check_skipped_few_picks_in_sub", 1)
				continue
			}
			r.Violation("eligible-backend-never-selected", fmt.Sprintf("step %d: %v is available with positive weight in a positive-weight sub-cluster but was not selected in %d picks that landed in its sub-cluster (sum of weights %d)", x.step, n.o.key, landed[n.sub], subW[n.sub]),
				x.wit(map[string]interface{}{"backend": n.o.key, "picks_in_sub": landed[n.sub]}))
			return false
		}
	}
	return true
}

func (x *c09Runner) mutate(ms []c09Mut) {
	for _, m := range ms {
		for _, o := range x.m.live[c09Key{m.Cluster, m.Sub, m.Addr}] {
			switch m.Kind {
			case "down":
				o.ptr.SetAvail(false)
			case "up":
				o.ptr.SetAvail(true)
			case "conn+":
				for k := 0; k < m.N; k++ {
					o.ptr.IncConnNum()
				}
			case "conn-":
				o.ptr.DecConnNum()
			case "fail+":
				for k := 0; k < m.N; k++ {
					o.ptr.AddFailNum()
				}
			}
			o.avail, o.conn, o.fail = o.ptr.Avail(), o.ptr.ConnNum(), o.ptr.FailNum()
			x.r.Count("state_changes", 1)
		}
	}
}

func c09Run(r *vkit.Run, h *c09Hist, t *bfe_balance.BalTable) {
	x := &c09Runner{r: r, h: h, t: t}
	x.m = c09Model{objs: map[*backend.BfeBackend]*c09Obj{}, live: map[c09Key][]*c09Obj{}, bals: map[string]*bal_gslb.BalanceGslb{}}
	dir := filepath.Join(scratchDir(), fmt.Sprintf("c09-%d-%d", os.Getpid(), h.Index))
	os.MkdirAll(dir, 0o755)
	defer os.RemoveAll(dir)
	gf, tf := filepath.Join(dir, "gslb.data"), filepath.Join(dir, "cluster_table.data")
	g := r.Rng("run", h.Index)
	gen := 0
	write := func(c *c09Conf) {
		gen++
		a, b := c09Files(c, g, gen)
		os.WriteFile(gf, []byte(a), 0o644)
		os.WriteFile(tf, []byte(b), 0o644)
	}
	reloads, rejected, incons := 0, 0, 0
	abandoned := false
	r.WriteAhead(h)
	try(r, func() interface{} { return map[string]interface{}{"history": h, "step": x.step} }, func() {
		write(&h.Init)
		if err := t.Init(gf, tf); err != nil {
			r.Violation("init-rejected-valid", "BalTable.Init failed on a valid configuration: "+err.Error(), x.wit(nil))
			abandoned = true
			return
		}
		cur := h.Init
		lastInit := true
		if !x.reconcile(&cur, true) || !x.picks(&cur, g) {
			abandoned = true
			return
		}
		for i := range h.Steps {
			x.step = i + 1
			st := &h.Steps[i]
			x.mutate(st.Muts)
			write(&st.Conf)
			gc, tc, err := t.BalTableConfLoad(gf, tf)
			if st.Conf.Corrupt != "" {
				if err == nil {
					r.Violation("loader-accepted-invalid:"+st.Conf.Corrupt, "the loaders accepted files that are invalid ("+st.Conf.Corrupt+")", x.wit(nil))
					abandoned = true
					return
				}
				rejected++
				r.Count("rejected_"+st.Conf.Corrupt, 1)
				// nothing was applied: the table must still match the previous configuration
				if !x.reconcile(&cur, lastInit) {
					abandoned = true
					return
				}
				continue
			}
			if err != nil {
				r.Violation("load-rejected-valid", "the loaders rejected a valid configuration: "+err.Error(), x.wit(nil))
				abandoned = true
				return
			}
			// concurrent readers while the table is swapped (panics / fatal errors only)
			stop := make(chan struct{})
			var wg sync.WaitGroup
			names := make([]string, 0, 3)
			for _, cl := range cur.Clusters {
				names = append(names, cl.Name)
			}
			for w := 0; w < 2; w++ {
				wg.Add(1)
				go func(w int) {
					defer wg.Done()
					for k := 1; k <= 60; k++ {
						select {
						case <-stop:
							return
						default:
						}
						try(r, func() interface{} { return map[string]interface{}{"history": h, "step": x.step, "reader": true} }, func() {
							if bal, err := t.Lookup(names[k%len(names)]); err == nil {
								bal.Balance(reqSpec{IP: []byte{1, 2, byte(k), byte(w)}}.build(gbasic{Strategy: 1}))
							}
							if k%7 == 0 {
								t.GetState()
							}
						})
					}
				}(w)
			}
			x.ts = *gc.Ts
			var rerr error
			panicked := try(r, func() interface{} {
				return map[string]interface{}{"history": h, "step": x.step, "in": "BalTableReload"}
			}, func() {
				rerr = t.BalTableReload(gc, tc)
			})
			close(stop)
			if panicked {
				abandoned = true // the table's lock is never released after a panic
				return
			}
			wg.Wait()
			if len(st.Conf.Incons) > 0 {
				// an inconsistent pair: whether BalTableReload reports an error is not judged;
				// the table is judged after failing and after successful reloads alike
				for _, sh := range uniqStrings(st.Conf.Incons) {
					r.Count("incons_"+sh, 1)
				}
				if rerr != nil {
					r.Count("incons_reloads_returning_error", 1)
				} else {
					r.Count("incons_reloads_returning_nil", 1)
				}
				incons++
			} else if rerr != nil {
				r.Violation("reload-failed-valid", "BalTableReload failed on a consistent configuration: "+rerr.Error(), x.wit(nil))
				abandoned = true
				return
			}
			reloads++
			lastInit = false
			cur = st.Conf
			if !x.reconcile(&cur, false) || !x.picks(&cur, g) {
				abandoned = true
				return
			}
		}
	})
	kb, _ := json.Marshal(h)
	r.CaseS(string(kb), reloads >= 2 && !abandoned)
	r.Count("reloads_applied", int64(reloads))
	r.Count("reloads_rejected_by_loader", int64(rejected))
	r.Count("reloads_applied_inconsistent_pair", int64(incons))
	if r.WantSample() && reloads >= 4 {
		r.Sample(h)
	}
}

func c09(r *vkit.Run) {
	r.SetRule("histories: an initial configuration (1-2 clusters, 1-3 sub-clusters + optional GSLB_BLACKHOLE, 1-4 backends each, a third with duplicate addresses) loaded with BalTable.Init, then 3-12 steps; each step changes the state of some live backends (SetAvail, Inc/DecConnNum, AddFailNum) and writes new gslb.data / cluster_table.data derived from the current configuration by 1-3 edits (add / remove / re-weight incl. 0 and negative / rename / duplicate-address backend, add / remove / re-add sub-cluster, new gslb weights incl. 0, add / remove / re-add cluster, blackhole on/off; entries in shuffled textual order) which go through BalTableConfLoad and BalTableReload while 2 goroutines keep calling Lookup+Balance and GetState; one step in six writes files the loaders must reject (truncated JSON, gslb total weight 0, sub-cluster without positive weight, missing Weight, missing Ts) and the table must stay as it was. After every (re)load the table is enumerated through the verif accessor and compared with the reference model: configured clusters / sub-clusters / addresses present with configured weights, objects that persisted keep avail, connNum, failNum, every object that left has a closed close channel, no object with a closed channel is listed or returned by Balance, removed clusters are not found, and every available positive-weight backend of a positive-weight sub-cluster is returned within 50*W+200 picks that land in its sub-cluster (W = that sub-cluster's eligible weight sum; the margin covers the smooth-WRR transient after weight changes). In the first 500 (q) / 6000 (t) histories the pairs are consistent (every sub-cluster named in gslb.data except the blackhole has a list in cluster_table.data); which of two same-address entries survives, and renames, are not constrained beyond one live object per address. INCONSISTENT PAIRS: 150 (q) / 1800 (t) further histories of the same generator in which every second step accepted by the loaders writes a pair of files that disagree (1-2 marks per step, transient: the next step derives from the unmarked configuration): cluster_table.data lacks a cluster named by gslb.data (already in the table / new), gslb.data lacks a cluster of cluster_table.data, cluster_table.data lacks the list of a sub-cluster named by gslb.data (already in the table / new), gslb.data lacks a sub-cluster listed in cluster_table.data; every written generation has its own Ts. Whether BalTableReload returns an error for such a pair is NOT judged (both outcomes counted); the table is judged after failing and successful reloads alike: gslb.data is authoritative for membership - a cluster / sub-cluster it does not name is removed (released once, not found) whatever cluster_table.data lists; a cluster that was in the table and is named by the gslb.data generation the table reports in GetVersions must still be found (cluster-missing-after-reload:no-table-entry); sub-cluster set and gslb weights of every found cluster equal gslb.data; for a sub-cluster without list (or a cluster without entry) nothing is demanded about WHICH backends it holds, but every object it holds that was known before is the same object under the same key with unchanged avail/connNum/failNum and an open close channel, and every object that was in the table before the reload and is not after has a closed close channel (once: a second close panics; signature dropped-cluster-not-released:no-table-entry when its whole cluster left the table); sub-clusters that do have a list are judged exactly as in consistent reloads (no loss for the consistent part of an inconsistent reload), and so is every later consistent reload against the objects observed to have stayed; whether a never-loaded cluster without entry is installed as an empty balancer is only counted. Non-trivial = history with >=2 applied reloads; distinct = history")
	r.Assume("health checking is off (CheckConfFetcher returns nil); balance mode is the default WRR")
	if r.Replay != "" {
		var w struct {
			History *c09Hist `json:"history"`
		}
		if err := r.LoadReplay(&w); err != nil || w.History == nil {
			r.Inconclusive("replay file has no history")
			return
		}
		c09Run(r, w.History, bfe_balance.NewBalTable(func(string) *cluster_conf.BackendCheck { return nil }))
		r.SetMinDistinct(0)
		return
	}
	n := r.N(500, 6000)
	n2 := r.N(150, 1800) // histories with inconsistent pairs of files
	// NewBalTable stores a process-global fetcher: create all tables before any goroutine runs
	tables := make([]*bfe_balance.BalTable, n+n2)
	for i := range tables {
		tables[i] = bfe_balance.NewBalTable(func(string) *cluster_conf.BackendCheck { return nil })
	}
	vkit.Parallel(n+n2, 0, func(i int) {
		if i < n {
			c09Run(r, c09Gen(r, i), tables[i])
			return
		}
		h := c09Gen(r, 1000000+i-n)
		c09MarkIncons(r.Rng("incons", i-n), h, 1, 2)
		c09Run(r, h, tables[i])
	})
	for _, sh := range c09InconsShapes {
		if r.Counter("incons_"+sh) == 0 {
			r.Inconclusive("no reload with an inconsistent pair of shape " + sh + " was applied")
		}
	}
	if r.Counter("incons_unlisted_sub_backend_kept") == 0 {
		r.Inconclusive("no backend of a sub-cluster without list was observed across an inconsistent reload")
	}
	keys := []string{"backends_added", "backends_removed", "clusters_removed", "reloads_rejected_by_loader", "state_changes"}
	sort.Strings(keys)
	for _, k := range keys {
		if r.Counter(k) == 0 {
			r.Inconclusive("the workload never reached " + k)
		}
	}
	// differential part: a table that reached a gslb configuration through reloads (incl. added
	// sub-clusters) must select like a table initialised directly with it
	scratch := os.Getenv("VERIF_SCRATCH")
	if scratch == "" {
		scratch = os.TempDir()
	}
	balhist.Run(r, r.N(1500, 30000), scratch)
	if r.Counter("balhist_added_sorts_before_survivor") == 0 {
		r.Inconclusive("reload-history monitor never added a sub-cluster sorting before a survivor")
	}
}
