package main

import (
	"encoding/json"
	"fmt"
	"sync"
	"time"

	"github.com/bfenetworks/bfe/bfe_balance/backend"
	"github.com/bfenetworks/bfe/bfe_balance/bal_gslb"
	"github.com/bfenetworks/bfe/bfe_balance/bal_slb"
	"github.com/bfenetworks/bfe/bfe_config/bfe_cluster_conf/cluster_conf"
	"github.com/bfenetworks/bfe/bfe_config/bfe_cluster_conf/cluster_table_conf"

	"verifharness/vkit"
)

// C01 "slow start ... finished": histories in which backends really go through
// a slow start (slow_start_time = 1 s; bal_slb reads time.Now()/time.Since()
// directly, there is no clock to inject, so the histories contain real waits)
// and the property is judged on the steady segment AFTER every ramp is over.
//
// A backend enters slow start when it is added by a reload (BalanceRR.Update
// sets the restart flag) or brought back as the health checker does it
// (SetRestart(true), SetAvail(true)); the ramp starts with the first selection
// after that. Shapes: a late first selection after the ramp's nominal end
// (idle gap), steady traffic during the ramp, several backends ramping at
// once, a reload during a ramp (adding, removing, re-weighting, reordering),
// recovery of a present backend, a late first selection after the reload.
//
// Oracle (no verdict depends on time): the driver waits, after the last
// selection that started a ramp, at least 1.5 x slow_start_time (monotonic
// clock; a longer wait is equally fine) and issues settle selections. Then
//  (a) via the snapshot hook: every backend that is no longer in slow start has
//      effective weight == configured weight x unit, the unit (100) being
//      measured on the same tree from a fresh Init;
//  (b) the steady segment (>= 8 W selections) satisfies the exact-window
//      property with the CONFIGURED weights in the conditional form used for
//      all histories of C01: from the first exact window of W selections every
//      later window is exact and seq[t] == seq[t+W].
// A history in which a backend is still in slow start after that wait is not
// judged (C01 does not say that slow start ends); it is counted, and the run
// is inconclusive if that happens in more than a quarter of the histories.

type c01SSOp struct {
	Op   string  `json:"op"` // init | slowstart | update | picks | sleep | traffic | down | up | settle | steady
	Conf []bspec `json:"conf,omitempty"`
	N    int     `json:"n,omitempty"`   // picks / settle / steady: selections; slowstart: seconds; traffic: duration in ms (rounds until it has passed)
	Per  int     `json:"per,omitempty"` // traffic: selections per round
	Ms   int     `json:"ms,omitempty"`  // sleep: duration; traffic: pause after each round
	ID   int     `json:"id,omitempty"`  // down / up: backend b<ID>
}

type c01SSHist struct {
	Via      string    `json:"via"` // rr | gslb
	Scenario string    `json:"scenario"`
	Ops      []c01SSOp `json:"ops"`
}

// c01SSB is the harness' model of one backend.
type c01SSB struct {
	cfg, created int
	avail        bool
	flagged      bool // restart flag set by the last event, ramp not started yet
	ramped       bool // went through a slow start
	reloaded     bool // weight changed by a reload after creation
}

func (b *c01SSB) staleShape() bool {
	return b.reloaded && b.created != b.cfg && (b.ramped || b.flagged)
}

type c01SSDriver struct {
	h    *c01SSHist
	rr   *bal_slb.BalanceRR
	gs   *bal_gslb.BalanceGslb
	bal  c01Bal
	sst  int
	mod  map[int]*c01SSB
	objs map[int]*backend.BfeBackend

	flagsPending  bool
	lastRampStart time.Time
	anyRamp       bool
}

func (d *c01SSDriver) snap() bal_slb.VerifRR {
	if d.rr != nil {
		return d.rr.VerifSnapshot()
	}
	s := d.gs.VerifSnapshot()
	if v := subByName(&s, "sub"); v != nil {
		return v.RR
	}
	return bal_slb.VerifRR{}
}

func (d *c01SSDriver) refresh() {
	d.objs = map[int]*backend.BfeBackend{}
	for _, b := range d.snap().Backends {
		d.objs[c01Index(b.Backend)] = b.Backend
	}
}

func (d *c01SSDriver) init(conf []bspec) error {
	d.mod = map[int]*c01SSB{}
	for _, b := range conf {
		d.mod[c01ID(b)] = &c01SSB{cfg: b.Weight, created: b.Weight, avail: true}
	}
	if err := d.bal.init(d.h.Via, conf); err != nil {
		return err
	}
	d.rr, d.gs = d.bal.rr, d.bal.gs
	d.refresh()
	return nil
}

func (d *c01SSDriver) slowStart(sec int) {
	d.sst = sec
	if d.rr != nil {
		d.rr.SetSlowStart(sec)
		return
	}
	d.gs.SetSlowStart(cluster_conf.BackendBasic{SlowStartTime: &sec})
}

func (d *c01SSDriver) update(conf []bspec) {
	if d.rr != nil {
		d.rr.Update(confOf(conf))
	} else {
		d.gs.BackendReload(cluster_table_conf.ClusterBackend{"sub": confOf(conf)})
	}
	nm := map[int]*c01SSB{}
	for _, b := range conf {
		id := c01ID(b)
		if m, ok := d.mod[id]; ok {
			if m.cfg != b.Weight {
				m.cfg, m.reloaded = b.Weight, true
			}
			nm[id] = m
		} else {
			nm[id] = &c01SSB{cfg: b.Weight, created: b.Weight, avail: true, flagged: true}
			d.flagsPending = true
		}
	}
	d.mod = nm
	d.refresh()
}

// pick makes one selection; a selection that finds restart flags starts ramps.
func (d *c01SSDriver) pick() (int, error) {
	x, err := d.bal.pick()
	if d.flagsPending && d.sst > 0 {
		// taken after the call: not earlier than the ramp's start time inside bfe
		d.lastRampStart = time.Now()
		d.flagsPending, d.anyRamp = false, true
		for _, m := range d.mod {
			if m.flagged {
				m.flagged, m.ramped = false, true
			}
		}
	}
	return x, err
}

// waitRamps blocks until at least 1.5 x slow_start_time have passed since the
// last selection that started a ramp.
func (d *c01SSDriver) waitRamps() {
	if d.flagsPending {
		d.pick()
	}
	if !d.anyRamp {
		return
	}
	need := time.Duration(d.sst) * time.Second * 3 / 2
	if el := time.Since(d.lastRampStart); el < need {
		time.Sleep(need - el + time.Millisecond)
	}
}

var c01SSUnitOnce struct {
	sync.Once
	unit int
}

// c01SSUnit measures the scaling between configured and effective weight on
// the tree under test (a fresh Init of one backend with weight 1).
func c01SSUnit() int {
	c01SSUnitOnce.Do(func() {
		brr := bal_slb.NewBalanceRR("unit")
		brr.Init(confOf([]bspec{c01Spec(0, 1)}))
		if s := brr.VerifSnapshot(); len(s.Backends) == 1 {
			c01SSUnitOnce.unit = s.Backends[0].Weight
		}
	})
	return c01SSUnitOnce.unit
}

type c01SSStat struct {
	sync.Mutex
	Histories    int           `json:"histories"`
	StillRamping int           `json:"not_judged_backend_still_in_slow_start_after_the_wait"`
	NoExact      int           `json:"no_exact_window_in_steady_segment"`
	MaxT0OverW   float64       `json:"max_picks_before_first_exact_window_over_W"`
	MaxWallS     float64       `json:"longest_history_wall_s_reported_only"`
	MaxPlanMs    int           `json:"longest_planned_waits_ms"`
	Samples      []interface{} `json:"samples"`
}

func c01SSCheck(r *vkit.Run, h *c01SSHist, st *c01SSStat) {
	desc := func() interface{} { return map[string]interface{}{"sshist": h} }
	d := &c01SSDriver{h: h}
	var steady []int
	var settleSnap, endSnap bal_slb.VerifRR
	var pickErr error
	rampErrs, nramped, maxRamping := 0, 0, 0
	begin := time.Now()
	defer func() {
		plan := 0
		for _, op := range h.Ops {
			if op.Op == "sleep" {
				plan += op.Ms
			} else if op.Op == "traffic" {
				plan += op.N
			}
		}
		st.Lock()
		if w := time.Since(begin).Seconds(); w > st.MaxWallS {
			st.MaxWallS = w
		}
		if plan > st.MaxPlanMs {
			st.MaxPlanMs = plan
		}
		st.Unlock()
	}()
	if try(r, desc, func() {
		for _, op := range h.Ops {
			switch op.Op {
			case "init":
				if pickErr = d.init(op.Conf); pickErr != nil {
					return
				}
			case "slowstart":
				d.slowStart(op.N)
			case "update":
				d.update(op.Conf)
			case "down":
				if b, ok := d.objs[op.ID]; ok {
					b.SetAvail(false)
					d.mod[op.ID].avail = false
				}
			case "up":
				if b, ok := d.objs[op.ID]; ok && !d.mod[op.ID].avail {
					b.SetRestart(true)
					b.SetAvail(true)
					d.mod[op.ID].avail, d.mod[op.ID].flagged = true, true
					d.flagsPending = true
				}
			case "sleep":
				time.Sleep(time.Duration(op.Ms) * time.Millisecond)
			case "picks", "traffic":
				per, begin := op.N, time.Now()
				if op.Op == "traffic" {
					per = op.Per
				}
				for k := 0; k == 0 || (op.Op == "traffic" && time.Since(begin) < time.Duration(op.N)*time.Millisecond); k++ {
					for j := 0; j < per; j++ {
						if _, err := d.pick(); err != nil {
							rampErrs++
						}
					}
					n := 0
					for _, b := range d.snap().Backends {
						if b.InSlowStart {
							n++
						}
					}
					if n > maxRamping {
						maxRamping = n
					}
					if op.Op == "traffic" {
						time.Sleep(time.Duration(op.Ms) * time.Millisecond)
					}
				}
			case "settle":
				d.waitRamps()
				for k := 0; k < op.N; k++ {
					if _, err := d.pick(); err != nil {
						pickErr = fmt.Errorf("settle pick %d: %v", k, err)
						return
					}
				}
				settleSnap = d.snap()
			case "steady":
				for k := 0; k < op.N; k++ {
					x, err := d.pick()
					if err != nil {
						pickErr = fmt.Errorf("steady pick %d: %v", k, err)
						return
					}
					steady = append(steady, x)
				}
				endSnap = d.snap()
			}
		}
	}) {
		return
	}
	r.Count("sshist_"+h.Scenario+"_"+h.Via, 1)
	r.Count("sshist_run", 1)
	st.Lock()
	st.Histories++
	st.Unlock()
	// model of the final configuration
	want := [c01Pool]int{}
	W, elig, anyStale := 0, 0, false
	for id, m := range d.mod {
		if m.ramped {
			nramped++
		}
		if m.staleShape() {
			anyStale = true
		}
		if m.avail && m.cfg > 0 && id >= 0 && id < c01Pool {
			want[id] = m.cfg
			W += m.cfg
			elig++
		}
	}
	staleTag := func(stale bool) string {
		if stale {
			return "weight-reloaded-since-creation"
		}
		return "weight-unchanged-since-creation"
	}
	type bview struct {
		Name        string
		Configured  int
		CreatedWith int
		Effective   int
		Current     int
		InSlowStart bool
		Avail       bool
		Ramped      bool
	}
	view := func(s bal_slb.VerifRR) []bview {
		var out []bview
		for _, b := range s.Backends {
			v := bview{Name: b.Backend.Name, Effective: b.Weight, Current: b.Current, InSlowStart: b.InSlowStart, Avail: b.Avail}
			if m, ok := d.mod[c01Index(b.Backend)]; ok {
				v.Configured, v.CreatedWith, v.Ramped = m.cfg, m.created, m.ramped
			}
			out = append(out, v)
		}
		return out
	}
	wit := func() map[string]interface{} {
		return map[string]interface{}{"sshist": h, "after_settle": view(settleSnap), "after_steady": view(endSnap), "steady_segment": steady, "W": W}
	}
	stillRamping := func(s bal_slb.VerifRR) bool {
		for _, b := range s.Backends {
			if b.InSlowStart || b.Backend.GetRestart() {
				return true
			}
		}
		return false
	}
	// (a) effective weight of every backend, slow start being over for all of
	// them; false when a violation was reported
	unit := c01SSUnit()
	checked := 0
	weightsOK := func(s bal_slb.VerifRR) bool {
		var bad *bal_slb.VerifBackend
		var badM *c01SSB
		for i := range s.Backends {
			b := &s.Backends[i]
			m, ok := d.mod[c01Index(b.Backend)]
			if !ok {
				r.Violation("slowstart:unknown-backend:"+h.Via, "the list holds backend "+b.Backend.Name+" which is not in the configuration", wit())
				return false
			}
			checked++
			if b.Weight != m.cfg*unit {
				// prefer an offender whose weight was never reloaded (its own signature)
				if bad == nil || (badM.staleShape() && !m.staleShape()) {
					bad, badM = b, m
				}
			}
		}
		if bad != nil {
			r.Violation("slowstart:finished-weight-not-configured:"+staleTag(badM.staleShape()),
				fmt.Sprintf("%s (%s): slow start is over for every backend, yet %s has effective weight %d, configured weight %d x %d = %d (created with weight %d, went through slow start: %v)",
					h.Scenario, h.Via, bad.Backend.Name, bad.Weight, badM.cfg, unit, badM.cfg*unit, badM.created, badM.ramped), wit())
			return false
		}
		return true
	}
	notJudged := func() {
		r.Count("sshist_not_judged_still_in_slow_start", 1)
		st.Lock()
		st.StillRamping++
		st.Unlock()
	}
	if pickErr != nil {
		// a failing selection after the wait: first look at the weights (one
		// signature per cause), then at the error itself
		now := d.snap()
		if stillRamping(now) {
			notJudged()
			return
		}
		if elig > 0 && weightsOK(now) {
			r.Violation("slowstart:error-with-eligible:"+h.Via,
				"after every slow start had time to finish, Balance failed although an available backend with positive configured weight exists: "+pickErr.Error(), wit())
		}
		return
	}
	if elig == 0 || len(steady) == 0 {
		return
	}
	// not judged when a ramp did not end
	if stillRamping(settleSnap) || stillRamping(endSnap) {
		notJudged()
		return
	}
	if !weightsOK(settleSnap) || !weightsOK(endSnap) {
		return
	}
	r.Count("sshist_effective_weights_checked", int64(checked))
	r.Count("sshist_backends_ramped", int64(nramped))
	if maxRamping >= 2 {
		r.Count("sshist_with_several_backends_in_slow_start_at_once", 1)
	}
	if rampErrs > 0 {
		r.Count("sshist_errors_during_ramp_not_judged", int64(rampErrs))
	}
	// (b) steady segment, conditional exact-window property with the configured weights
	t0 := -1
	cnt := [c01Pool]int{}
	ok := true
	for t, x := range steady {
		if x < 0 || x >= c01Pool || want[x] == 0 {
			r.Violation("slowstart:steady-ineligible-backend:"+h.Via, fmt.Sprintf("steady selection %d returned b%d which is not an available backend with positive configured weight", t, x), wit())
			return
		}
		cnt[x]++
		if t >= W {
			cnt[steady[t-W]]--
		}
		s := t - W + 1
		if s < 0 {
			continue
		}
		exact := cnt == want
		if t0 < 0 {
			if exact {
				t0 = s
			}
			continue
		}
		if !exact {
			bad := 0
			for i := range cnt {
				if cnt[i] != want[i] {
					bad = i
					break
				}
			}
			w := wit()
			w["first_exact_window"], w["window_start"] = t0, s
			r.Violation("slowstart:steady-window-count:"+staleTag(anyStale)+":"+h.Via,
				fmt.Sprintf("%s: slow start finished, backends and weights unchanged, exact windows from steady selection %d on, yet the window of W=%d selections starting at %d picks b%d %d times, configured weight %d", h.Scenario, t0, W, s, bad, cnt[bad], want[bad]), w)
			ok = false
			break
		}
	}
	if !ok {
		return
	}
	if t0 >= 0 {
		for t := t0; t+W < len(steady); t++ {
			if steady[t] != steady[t+W] {
				r.Violation("slowstart:steady-period:"+h.Via, fmt.Sprintf("%s: steady selection %d = b%d but selection %d+W = b%d (W=%d)", h.Scenario, t, steady[t], t, steady[t+W], W), wit())
				return
			}
		}
		r.Count("sshist_windows_asserted", int64(len(steady)-W+1-t0))
	}
	st.Lock()
	if t0 < 0 {
		st.NoExact++
	} else if v := float64(t0) / float64(W); v > st.MaxT0OverW {
		st.MaxT0OverW = v
	}
	if len(st.Samples) < 3 && nramped >= 2 && len(steady) <= 200 {
		st.Samples = append(st.Samples, map[string]interface{}{"sshist": h, "after_settle": view(settleSnap), "W": W, "first_exact_window": t0, "steady_segment": steady})
	}
	st.Unlock()
	if t0 < 0 {
		r.Count("sshist_steady_segment_without_exact_window", 1)
	}
	kb, _ := json.Marshal(h)
	r.Case(vkit.Hash64("sshist", string(kb)), elig >= 2 && nramped >= 1 && t0 >= 0)
}

func c01SSGen(r *vkit.Run, i int) *c01SSHist {
	g := r.Rng("sshist", i)
	scen := []string{"idle-gap", "traffic-during-ramp", "reload-during-ramp", "recovery", "late-first-pick"}[i%5]
	h := &c01SSHist{Via: "rr", Scenario: scen}
	if g.Chance(1, 3) {
		h.Via = "gslb"
	}
	ids := g.Perm(c01Pool)
	nextID := 0
	fresh := func() bspec {
		w := g.Range(1, 6)
		if g.Chance(1, 12) {
			w = 0
		}
		b := c01Spec(ids[nextID], w)
		nextID++
		return b
	}
	op := func(o c01SSOp) { h.Ops = append(h.Ops, o) }
	var cur []bspec
	n0 := g.Range(1, 3)
	if scen == "recovery" {
		n0 = g.Range(2, 4)
	}
	for k := 0; k < n0; k++ {
		b := fresh()
		if b.Weight == 0 {
			b.Weight = g.Range(1, 6)
		}
		cur = append(cur, b)
	}
	op(c01SSOp{Op: "init", Conf: histCopy(cur)})
	op(c01SSOp{Op: "slowstart", N: 1})
	if n := g.Intn(2*c01ConfW(cur) + 1); n > 0 {
		op(c01SSOp{Op: "picks", N: n})
	}
	addSome := func(k int) {
		next := histCopy(cur)
		for ; k > 0; k-- {
			at := g.Intn(len(next) + 1)
			next = append(next, bspec{})
			copy(next[at+1:], next[at:])
			next[at] = fresh()
		}
		cur = next
		op(c01SSOp{Op: "update", Conf: histCopy(cur)})
	}
	// the ramp phase: an idle gap or steady traffic, longer than 1.5 s in total
	rampPhase := func(traffic bool) {
		if traffic {
			op(c01SSOp{Op: "traffic", N: g.Range(1500, 2100), Per: g.Range(1, 3), Ms: g.Range(5, 40)})
		} else {
			op(c01SSOp{Op: "sleep", Ms: g.Range(1500, 2400)})
		}
	}
	switch scen {
	case "idle-gap":
		addSome(g.Range(1, 3))
		op(c01SSOp{Op: "picks", N: g.Range(1, 3)})
		rampPhase(false)
	case "traffic-during-ramp":
		addSome(g.Range(1, 3))
		rampPhase(true)
	case "late-first-pick":
		addSome(g.Range(1, 2))
		op(c01SSOp{Op: "sleep", Ms: g.Range(200, 700)}) // nothing selected since the reload
		op(c01SSOp{Op: "picks", N: 1})                  // the ramp starts here
		rampPhase(g.Chance(1, 3))
	case "recovery":
		k := g.Intn(len(cur))
		id := c01ID(cur[k])
		op(c01SSOp{Op: "down", ID: id})
		op(c01SSOp{Op: "picks", N: g.Intn(2*c01ConfW(cur) + 1)})
		if g.Chance(1, 3) { // a reload while it is down
			addSome(1)
		}
		if g.Chance(1, 4) { // its weight is changed by a reload before it comes back
			next := histCopy(cur)
			for j := range next {
				if c01ID(next[j]) == id {
					next[j].Weight = 1 + (next[j].Weight+g.Range(0, 3))%6
				}
			}
			cur = next
			op(c01SSOp{Op: "update", Conf: histCopy(cur)})
		}
		op(c01SSOp{Op: "up", ID: id})
		op(c01SSOp{Op: "picks", N: g.Range(1, 3)})
		if g.Chance(1, 3) { // another backend stays down in the steady segment
			for _, b := range cur {
				if c01ID(b) != id && b.Weight > 0 {
					op(c01SSOp{Op: "down", ID: c01ID(b)})
					break
				}
			}
		}
		rampPhase(g.Bool())
	case "reload-during-ramp":
		addSome(g.Range(1, 2))
		op(c01SSOp{Op: "picks", N: g.Range(1, 3)})
		if g.Bool() {
			op(c01SSOp{Op: "sleep", Ms: g.Range(150, 600)})
		} else {
			op(c01SSOp{Op: "traffic", N: g.Range(150, 600), Per: g.Range(1, 2), Ms: g.Range(5, 30)})
		}
		// the reload during the ramp
		next := histCopy(cur)
		switch g.Intn(6) {
		case 0: // another newcomer: a second ramp starts later than the first
			cur = next
			addSome(1)
			next = nil
		case 1: // one backend leaves
			if len(next) > 1 {
				at := g.Intn(len(next))
				next = append(next[:at], next[at+1:]...)
			}
		case 2, 3: // the weight of a backend changes (ramping or not)
			at := g.Intn(len(next))
			next[at].Weight = 1 + (next[at].Weight+g.Range(0, 3))%6
		case 4: // same list in another order
			next = histShuffle(g, next)
		default: // identical list
		}
		if next != nil {
			if histPositive(next) == 0 {
				next[0].Weight = g.Range(1, 6)
			}
			cur = next
			op(c01SSOp{Op: "update", Conf: histCopy(cur)})
		}
		op(c01SSOp{Op: "picks", N: g.Range(1, 3)})
		rampPhase(g.Bool())
	}
	// W of the final configuration (down backends make it smaller; 8 periods of
	// the configured W are then more than 8 periods of the real one)
	W := c01ConfW(cur)
	if W == 0 {
		W = 1
	}
	op(c01SSOp{Op: "settle", N: 3*W + g.Intn(W+1)})
	op(c01SSOp{Op: "steady", N: 8*W + g.Intn(2*W+1)})
	return h
}

// c01SlowStart runs the slow-start histories, all at the same time (they
// mostly wait), and returns a function that blocks until they are done.
func c01SlowStart(r *vkit.Run) (wait func()) {
	n := r.N(80, 400)
	st := &c01SSStat{}
	t0 := time.Now()
	done := make(chan struct{})
	go func() {
		vkit.Parallel(n, n, func(i int) { c01SSCheck(r, c01SSGen(r, i), st) })
		close(done)
	}()
	return func() {
		<-done
		r.Extra("slow_start_histories_wall_s", time.Since(t0).Seconds()) // reported only
		r.Extra("slow_start_histories", st)
		for _, sc := range []string{"idle-gap", "traffic-during-ramp", "reload-during-ramp", "recovery", "late-first-pick"} {
			if r.Counter("sshist_"+sc+"_rr")+r.Counter("sshist_"+sc+"_gslb") == 0 {
				r.Inconclusive("no slow-start history of scenario " + sc + " was run")
			}
		}
		for _, k := range []string{"sshist_windows_asserted", "sshist_effective_weights_checked", "sshist_backends_ramped", "sshist_with_several_backends_in_slow_start_at_once"} {
			if r.Counter(k) == 0 {
				r.Inconclusive("slow-start histories: counter " + k + " is zero")
			}
		}
		if st.StillRamping*4 > st.Histories {
			r.Inconclusive(fmt.Sprintf("%d of %d slow-start histories still had a backend in slow start after waiting 1.5 x slow_start_time", st.StillRamping, st.Histories))
		}
	}
}
