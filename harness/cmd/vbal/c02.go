package main

import (
	"encoding/json"
	"fmt"
	"os"
	"path/filepath"
	"sort"
	"strings"
	"sync"

	"github.com/spaolacci/murmur3"

	"github.com/bfenetworks/bfe/bfe_balance/backend"
	"github.com/bfenetworks/bfe/bfe_balance/bal_gslb"
	"github.com/bfenetworks/bfe/bfe_balance/bal_slb"
	"github.com/bfenetworks/bfe/bfe_basic"
	"github.com/bfenetworks/bfe/bfe_config/bfe_cluster_conf/cluster_table_conf"
	"github.com/bfenetworks/bfe/bfe_config/bfe_cluster_conf/gslb_conf"

	"verifharness/vkit"
)

// C02: sticky backend selection and hash-based sub-cluster selection are a
// function of (hash key, eligible targets with weights) only -- independent of
// configuration order -- and a target of weight w owns exactly w/W of the
// residues of the key hash.
//
// Oracle: (1) the same logical configuration is built several times from
// different orderings (slice order, Update's map order, JSON text order through
// the real loaders) and every key must get the same target; (2) the harness
// computes murmur3_64(key) mod M itself and checks that every residue class
// maps to one target and that each target owns M*w/W classes.

type c02Sub struct {
	Name     string  `json:"name"`
	Weight   int     `json:"weight"`
	Backends []bspec `json:"backends"`
	Down     []bool  `json:"down"` // per backend
}

type c02Case struct {
	Level string   `json:"level"` // rr | gslb-sticky | gslb-sub
	Subs  []c02Sub `json:"subs"`
	Basic gbasic   `json:"basic"`
	Build string   `json:"build"` // init | update | loader
	Seed  uint64   `json:"rng"`
}

func (c *c02Case) key() string {
	b, _ := json.Marshal(struct {
		L string
		S []c02Sub
		B gbasic
		K string
	}{c.Level, c.Subs, c.Basic, c.Build})
	return string(b)
}

// c02Ordering is one way to present the same configuration.
type c02Ordering struct {
	subOrder  []int
	backOrder [][]int
}

func c02MakeOrdering(c *c02Case, g *vkit.Rand, identity bool) c02Ordering {
	o := c02Ordering{}
	if identity {
		for i := range c.Subs {
			o.subOrder = append(o.subOrder, i)
		}
	} else {
		o.subOrder = g.Perm(len(c.Subs))
	}
	for _, s := range c.Subs {
		if identity {
			p := make([]int, len(s.Backends))
			for i := range p {
				p[i] = i
			}
			o.backOrder = append(o.backOrder, p)
		} else {
			o.backOrder = append(o.backOrder, g.Perm(len(s.Backends)))
		}
	}
	return o
}

// c02Files writes gslb.data / cluster_table.data with the textual order of o
// and loads them with the real loaders.
func c02Files(c *c02Case, o c02Ordering, tag string) (gslb_conf.GslbClusterConf, cluster_table_conf.ClusterBackend, error) {
	var gs, ts []string
	for _, si := range o.subOrder {
		s := c.Subs[si]
		gs = append(gs, fmt.Sprintf("%q: %d", s.Name, s.Weight))
		var bs []string
		for _, bi := range o.backOrder[si] {
			b := s.Backends[bi]
			bs = append(bs, fmt.Sprintf(`{"Name": %q, "Addr": %q, "Port": %d, "Weight": %d}`, b.Name, b.Addr, b.Port, b.Weight))
		}
		if len(bs) > 0 {
			ts = append(ts, fmt.Sprintf("%q: [%s]", s.Name, strings.Join(bs, ", ")))
		}
	}
	gtxt := fmt.Sprintf(`{"Clusters": {"cl": {%s}}, "Hostname": "h", "Ts": "1"}`, strings.Join(gs, ", "))
	ttxt := fmt.Sprintf(`{"Version": "v", "Config": {"cl": {%s}}}`, strings.Join(ts, ", "))
	dir := scratchDir()
	gp := filepath.Join(dir, "c02-"+tag+"-gslb.data")
	tp := filepath.Join(dir, "c02-"+tag+"-table.data")
	defer os.Remove(gp)
	defer os.Remove(tp)
	if err := os.WriteFile(gp, []byte(gtxt), 0o644); err != nil {
		return nil, nil, err
	}
	if err := os.WriteFile(tp, []byte(ttxt), 0o644); err != nil {
		return nil, nil, err
	}
	gc, err := gslb_conf.GslbConfLoad(gp)
	if err != nil {
		return nil, nil, fmt.Errorf("GslbConfLoad: %v", err)
	}
	tc, err := cluster_table_conf.ClusterTableLoad(tp)
	if err != nil {
		return nil, nil, fmt.Errorf("ClusterTableLoad: %v", err)
	}
	return (*gc.Clusters)["cl"], (*tc.Config)["cl"], nil
}

// c02Target is what a key was mapped to.
type c02Target struct {
	Sub  string
	Addr string // addr:port, "" when no backend was returned
	Err  string
}

func (t c02Target) String() string { return t.Sub + "/" + t.Addr + "/" + t.Err }

// c02Instance answers keys for one built instance.
type c02Instance struct {
	rr  *bal_slb.BalanceRR
	bal *bal_gslb.BalanceGslb
	c   *c02Case
	// connections held on the backends change while keys are asked (c02m.go);
	// nil = the backends never hold a connection
	conn *c02Conn
	req  *bfe_basic.Request // reused between asks (c02m.go)
}

// preloadConns puts connections on the backends of the instance.
func (in *c02Instance) preloadConns() {
	if in.conn == nil {
		return
	}
	var bs []*backend.BfeBackend
	if in.rr != nil {
		for _, b := range in.rr.VerifSnapshot().Backends {
			bs = append(bs, b.Backend)
		}
	} else {
		snap := in.bal.VerifSnapshot()
		for _, vs := range snap.Subs {
			for _, b := range vs.RR.Backends {
				bs = append(bs, b.Backend)
			}
		}
	}
	in.conn.preload(bs)
}

func c02Build(c *c02Case, o c02Ordering, tag string) (*c02Instance, error) {
	inst := &c02Instance{c: c, conn: newC02Conn(vkit.Hash64("conn", tag, fmt.Sprint(c.Seed)))}
	applyDown := func(sub *c02Sub, snap bal_slb.VerifRR) {
		down := map[string]bool{}
		for i, b := range sub.Backends {
			if sub.Down[i] {
				down[b.Name] = true
			}
		}
		for _, b := range snap.Backends {
			if down[b.Backend.Name] {
				b.Backend.SetAvail(false)
			}
		}
	}
	if c.Level == "rr" {
		s := &c.Subs[0]
		conf := confOf(permuted(s.Backends, o.backOrder[0]))
		inst.rr = bal_slb.NewBalanceRR(s.Name)
		if c.Build == "update" {
			inst.rr.Update(conf)
		} else {
			inst.rr.Init(conf)
		}
		applyDown(s, inst.rr.VerifSnapshot())
		inst.preloadConns()
		return inst, nil
	}
	var gc gslb_conf.GslbClusterConf
	var tc cluster_table_conf.ClusterBackend
	if c.Build == "loader" {
		var err error
		if gc, tc, err = c02Files(c, o, tag); err != nil {
			return nil, err
		}
	} else {
		gc = gslb_conf.GslbClusterConf{}
		tc = cluster_table_conf.ClusterBackend{}
		for _, si := range o.subOrder {
			s := c.Subs[si]
			gc[s.Name] = s.Weight
			if len(s.Backends) > 0 {
				tc[s.Name] = confOf(permuted(s.Backends, o.backOrder[si]))
			}
		}
	}
	inst.bal = bal_gslb.NewBalanceGslb("cl")
	if err := inst.bal.Init(gc); err != nil {
		return nil, err
	}
	if c.Build == "init" {
		inst.bal.BackendInit(tc)
	} else {
		inst.bal.BackendReload(tc)
	}
	gb, err := c02BasicConf(c.Basic)
	if err != nil {
		return nil, err
	}
	inst.bal.SetGslbBasic(gb)
	snap := inst.bal.VerifSnapshot()
	for i := range c.Subs {
		if vs := subByName(&snap, c.Subs[i].Name); vs != nil {
			applyDown(&c.Subs[i], vs.RR)
		}
	}
	inst.preloadConns()
	return inst, nil
}

func (in *c02Instance) ask(key []byte, q reqSpec) c02Target {
	if in.rr != nil {
		b, err := in.rr.Balance(bal_slb.WrrSticky, key)
		t := c02Target{Sub: in.c.Subs[0].Name}
		if b != nil {
			t.Addr = b.AddrInfo
		}
		if err != nil {
			t.Err = err.Error()
		}
		if in.conn != nil {
			in.conn.forwarded(b)
		}
		return t
	}
	req := in.request(q)
	b, err := in.bal.Balance(req)
	if in.conn != nil {
		in.conn.forwarded(b)
	}
	t := c02Target{Sub: req.Backend.SubclusterName}
	if b != nil {
		t.Addr = b.AddrInfo
	}
	if err != nil {
		t.Err = err.Error()
	}
	if in.c.Level == "gslb-sub" && !in.c.Basic.Sticky {
		// backend choice inside the sub-cluster is smooth WRR here (order
		// dependent by design); only the sub-cluster is a function of the key
		t.Addr, t.Err = "", ""
	}
	return t
}

// c02GenKey draws a request whose hash key (by the harness' model) is
// deterministic, rotating over the strategies' key sources.
func c02GenKey(c *c02Case, g *vkit.Rand) (reqSpec, []byte) {
	if c.Level == "rr" {
		k := g.Bytes(g.Range(1, 24))
		return reqSpec{}, k
	}
	for {
		q := reqSpec{}
		if g.Chance(1, 3) {
			q.IP = g.Bytes(16)
		} else {
			q.IP = g.Bytes(4)
		}
		if g.Chance(2, 3) {
			q.Header = fmt.Sprintf("id-%x", g.U64()>>uint(g.Intn(48)))
		}
		if g.Chance(2, 3) {
			q.Cookie = fmt.Sprintf("ck%x", g.U64()>>uint(g.Intn(48)))
		}
		q.URI = fmt.Sprintf("/p/%x?q=%d", g.U64()>>uint(g.Intn(40)), g.Intn(1000))
		if k := q.hashKey(c.Basic); k != nil {
			return q, k
		}
	}
}

// c02Expected gives, per target, the number of residue classes mod M it must
// own, and M. Targets are sub-cluster names (gslb-sub) or addr:port.
func c02Expected(c *c02Case) (map[string]int, int) {
	exp := map[string]int{}
	M := 0
	if c.Level == "gslb-sub" {
		for _, s := range c.Subs {
			if s.Weight > 0 {
				exp[s.Name] += s.Weight
				M += s.Weight
			}
		}
		return exp, M
	}
	// backend level: the one sub-cluster with positive weight
	for _, s := range c.Subs {
		if c.Level != "rr" && s.Weight <= 0 {
			continue
		}
		for i, b := range s.Backends {
			if b.Weight > 0 && !s.Down[i] {
				exp[b.addrInfo()] += 100 * b.Weight
				M += 100 * b.Weight
			}
		}
	}
	return exp, M
}

func c02Shape(c *c02Case) string {
	s := c.Level + ":" + c.Build
	dup := false
	for _, sc := range c.Subs {
		seen := map[string]bool{}
		for _, b := range sc.Backends {
			if seen[b.addrInfo()] {
				dup = true
			}
			seen[b.addrInfo()] = true
		}
	}
	if dup {
		s += ":dup-addr"
	}
	if c.Level != "rr" {
		s += fmt.Sprintf(":strategy%d", c.Basic.Strategy)
	}
	return s
}

// c02KQ is one generated request with the hash key the harness' model gives it.
type c02KQ struct {
	q   reqSpec
	key []byte
}

// c02CollectKeys collects up to 2 keys per residue class of murmur3_64 mod M.
func c02CollectKeys(c *c02Case, g *vkit.Rand, M int) (classes [][]c02KQ, covered int) {
	classes = make([][]c02KQ, M)
	attempts, full := 0, 0
	for full < M && attempts < 400*M+2000 {
		attempts++
		q, key := c02GenKey(c, g)
		res := int(murmur3.Sum64(key) % uint64(M))
		if len(classes[res]) >= 2 {
			continue
		}
		if len(classes[res]) == 0 {
			covered++
		}
		classes[res] = append(classes[res], c02KQ{q, key})
		if len(classes[res]) == 2 {
			full++
		}
		if covered == M && attempts > 40*M {
			break
		}
	}
	return classes, covered
}

func c02Check(r *vkit.Run, c *c02Case) {
	g := vkit.NewRand(c.Seed)
	exp, M := c02Expected(c)
	if M == 0 {
		return
	}
	desc := func() interface{} { return c }
	const K = 4
	var insts []*c02Instance
	var berr error
	tag := fmt.Sprintf("%016x", vkit.Hash64(c.key(), fmt.Sprint(c.Seed)))
	if try(r, desc, func() {
		for k := 0; k < K; k++ {
			in, err := c02Build(c, c02MakeOrdering(c, g, k == 0), fmt.Sprintf("%s-%d", tag, k))
			if err != nil {
				berr = err
				return
			}
			insts = append(insts, in)
		}
	}) {
		return
	}
	if berr != nil {
		r.Violation("build-rejected:"+c02Shape(c), "a valid configuration was rejected: "+berr.Error(), map[string]interface{}{"case": c})
		return
	}
	classes, covered := c02CollectKeys(c, g, M)
	if covered < M {
		r.Count("residues_not_covered", int64(M-covered))
	}
	owner := make([]string, M)
	owned := map[string]int{}
	failed := false
	nkeys := 0
	if try(r, desc, func() {
		for res := 0; res < M && !failed; res++ {
			for j, x := range classes[res] {
				nkeys++
				t0 := insts[0].ask(x.key, x.q)
				// (0) the same instance, asked again (its backends' connection counts have changed)
				if t0b := insts[0].ask(x.key, x.q); t0b != t0 {
					r.Violation("repetition-differs:"+c02Shape(c)+":"+c02CanonMode(c.Basic.Mode),
						fmt.Sprintf("key %x maps to %s and, asked again on the same balancer (BalanceMode %q, only connection counts changed), to %s", x.key, t0, c.Basic.Mode, t0b),
						map[string]interface{}{"case": c, "key": x.key, "req": x.q, "target_first": t0, "target_again": t0b})
					failed = true
					return
				}
				// (1) permutation invariance
				for k := 1; k < K; k++ {
					tk := insts[k].ask(x.key, x.q)
					if tk != t0 {
						r.Violation("order-dependence:"+c02Shape(c),
							fmt.Sprintf("key %x maps to %s with the configuration in listed order but to %s with ordering #%d of the same configuration", x.key, t0, tk, k),
							map[string]interface{}{"case": c, "key": x.key, "req": x.q, "target_listed_order": t0, "target_other_order": tk})
						failed = true
						return
					}
				}
				tgt := t0.Addr
				if c.Level == "gslb-sub" {
					tgt = t0.Sub
				}
				if _, ok := exp[tgt]; !ok {
					r.Violation("ineligible-target:"+c02Shape(c), fmt.Sprintf("key %x maps to %s which is not an eligible target", x.key, t0),
						map[string]interface{}{"case": c, "key": x.key, "req": x.q, "target": t0})
					failed = true
					return
				}
				// (2) one target per residue class
				if j == 0 {
					owner[res] = tgt
					owned[tgt]++
				} else if owner[res] != tgt {
					r.Violation("residue-two-targets:"+c02Shape(c),
						fmt.Sprintf("two keys with murmur3_64 mod %d = %d map to %s and %s", M, res, owner[res], tgt),
						map[string]interface{}{"case": c, "residue": res, "M": M, "key_a": classes[res][0].key, "key_b": x.key})
					failed = true
					return
				}
			}
		}
	}) || failed {
		return
	}
	if covered == M {
		names := make([]string, 0, len(exp))
		for t := range exp {
			names = append(names, t)
		}
		sort.Strings(names)
		for _, t := range names {
			if owned[t] != exp[t] {
				r.Violation("residue-share:"+c02Shape(c),
					fmt.Sprintf("target %s owns %d of %d residue classes, its weight share is %d", t, owned[t], M, exp[t]),
					map[string]interface{}{"case": c, "M": M, "owned": owned, "expected": exp})
				break
			}
		}
	}
	r.CaseS(c.key(), len(exp) >= 2 && covered == M)
	r.Count("keys_asked", int64(nkeys*K))
	r.Count("residue_classes", int64(covered))
	r.Count("level_"+c.Level, 1)
	r.Count("build_"+c.Build, 1)
	if c.Level != "rr" {
		r.Count(fmt.Sprintf("strategy_%d", c.Basic.Strategy), 1)
	}
	if r.WantSample() && len(exp) >= 3 {
		r.Sample(map[string]interface{}{"case": c, "M": M, "owned": owned})
	}
}

func c02GenBackends(g *vkit.Rand, sub string, maxTotal int, allowDup bool) ([]bspec, []bool) {
	n := g.Range(1, 6)
	var bs []bspec
	var down []bool
	total := 0
	for i := 0; i < n; i++ {
		w := g.Range(1, 6)
		if g.Chance(1, 8) {
			w = 0
		}
		if total+w > maxTotal {
			w = 1
			if total+w > maxTotal {
				break
			}
		}
		total += w
		// addresses chosen so that string order differs from numeric order (10.0.0.9 vs 10.0.0.10)
		b := bspec{Name: fmt.Sprintf("%s-b%d", sub, i), Addr: fmt.Sprintf("10.%d.0.%d", g.Intn(3), g.Range(1, 120)), Port: []int{80, 8080, 9}[g.Intn(3)], Weight: w}
		if allowDup && i > 0 && g.Chance(1, 3) {
			j := g.Intn(len(bs))
			b.Addr, b.Port = bs[j].Addr, bs[j].Port
		}
		bs = append(bs, b)
		down = append(down, g.Chance(1, 7))
	}
	if !allowDup {
		seen := map[string]bool{}
		out, od := bs[:0], down[:0]
		for i, b := range bs {
			if !seen[b.addrInfo()] {
				seen[b.addrInfo()] = true
				out, od = append(out, b), append(od, down[i])
			}
		}
		bs, down = out, od
	}
	// keep at least one eligible backend with positive weight (loader requires weight>0 somewhere)
	ok := false
	for i, b := range bs {
		if b.Weight > 0 && !down[i] {
			ok = true
		}
	}
	if !ok {
		bs[0].Weight = g.Range(1, 4)
		down[0] = false
	}
	return bs, down
}

func c02Gen(r *vkit.Run, i int) *c02Case {
	g := r.Rng("cfg", i)
	c := &c02Case{Seed: g.U64()}
	c.Build = []string{"init", "update", "loader"}[g.Intn(3)]
	switch g.Intn(3) {
	case 0:
		c.Level = "rr"
		if c.Build == "loader" {
			c.Build = "init"
		}
	case 1:
		c.Level = "gslb-sticky"
	default:
		c.Level = "gslb-sub"
	}
	// duplicate addresses only where both entries are instantiated (Init);
	// Update keeps one entry per address and the docs say nothing about which
	dup := c.Build == "init" && g.Chance(1, 4)
	c.Basic = gbasic{RetryMax: 2, CrossRetry: 0, Mode: c02DrawMode(g), Strategy: g.Intn(4), Sticky: c.Level == "gslb-sticky" || g.Chance(1, 3)}
	if g.Bool() {
		c.Basic.Header = "X-Client-Id"
	} else {
		c.Basic.Header = "Cookie:UID"
	}
	switch c.Level {
	case "rr":
		bs, down := c02GenBackends(g, "s0", 32, dup)
		c.Subs = []c02Sub{{Name: "s0", Weight: 1, Backends: bs, Down: down}}
	case "gslb-sticky":
		bs, down := c02GenBackends(g, "s0", 24, dup)
		c.Subs = []c02Sub{{Name: "s0", Weight: g.Range(1, 100), Backends: bs, Down: down}}
		if g.Bool() {
			c.Subs = append(c.Subs, c02Sub{Name: "GSLB_BLACKHOLE", Weight: 0})
		}
		if g.Chance(1, 3) {
			bs2, down2 := c02GenBackends(g, "zz", 8, false)
			c.Subs = append(c.Subs, c02Sub{Name: "zz", Weight: 0, Backends: bs2, Down: down2})
		}
	default:
		n := g.Range(2, 5)
		names := []string{"a.bj", "b.gz", "A.bj", "c10", "c9", "sub_x"}
		p := g.Perm(len(names))
		total := 0
		for k := 0; k < n; k++ {
			w := g.Range(1, 40)
			if g.Chance(1, 5) {
				w = 0
			} else if g.Chance(1, 12) {
				w = -g.Range(1, 5)
			}
			if total+w > 100 {
				w = 1
			}
			if w > 0 {
				total += w
			}
			bs, down := c02GenBackends(g, names[p[k]], 8, false)
			for j := range down {
				down[j] = false
			}
			c.Subs = append(c.Subs, c02Sub{Name: names[p[k]], Weight: w, Backends: bs, Down: down})
		}
		if total == 0 {
			c.Subs[0].Weight = g.Range(1, 30)
		}
		if g.Chance(1, 3) {
			c.Subs = append(c.Subs, c02Sub{Name: "GSLB_BLACKHOLE", Weight: []int{0, 0, 5, 20}[g.Intn(4)]})
		}
	}
	return c
}

func c02(r *vkit.Run) {
	r.SetRule("configurations at three levels: rr = BalanceRR.Balance(WrrSticky) on 1-6 backends (weights 0..6, some down, string-vs-numeric address order, duplicate addresses only with Init where both entries exist); gslb-sticky = BalanceGslb with one positive-weight sub-cluster and SessionSticky; gslb-sub = 2-5 sub-clusters (weights incl. 0, negative, blackhole with positive weight). Each configuration is built 4 times (listed order + 3 random orderings of sub-clusters and backends) through Init, through BackendReload/Update (map order) or through JSON files read by GslbConfLoad/ClusterTableLoad. Keys: random bytes (rr) or requests for the four HashStrategy values with header / cookie / IPv4 / IPv6 / URI sources; requests without a deterministic key are not generated. The harness computes murmur3_64(key) mod M (M = 100*sum of eligible backend weights, or sum of positive sub-cluster weights) and asks 2 keys per residue class on all 4 instances. Non-trivial = >=2 eligible targets and all M classes covered; distinct = configuration. " +
		"RELOAD HISTORIES (1000, thorough 20000; rr = BalanceRR Init/Update; gslb-sticky and gslb-sub with SessionSticky = BalanceGslb BackendInit/BackendReload, all four strategies): Init with 1-5 backends per sub-cluster, then 1-4 reloads, per sub-cluster of kind weight / add / remove / replace (k removed, k added, same length, newcomer at the old position or at the end of the text) / mixed / noop-same / noop-reorder, a third of them with the list shuffled, with 0-3 sticky picks after each step (so the list was sorted for sticky selection before the next reload); distinct addresses, weights 0..4, some final backends down. Asserted: every key (2 per residue class of murmur3_64 mod M, padded to >=400 keys) gets the same target (sub-cluster, addr:port, error) on the balancer with the history as on a balancer freshly initialised with the final lists (sticky:history-dependent:<kind of last reload>), and on the balancer with the history each residue class has one target and each target owns M*w/W classes. History non-trivial = >=2 eligible targets and all classes covered; distinct = hash of (final configuration, steps). " +
		"GSLB-CONF RELOAD HISTORIES (800, thorough 16000; c02g.go): the sub-cluster set and weights are reached through Init + 1-5 BalanceGslb.Reload+BackendReload / ReloadAll steps (add / remove zero-weight sub-clusters whose names sort before / after the weighted one, weight changes, the weight moving to another sub-cluster, adding / removing weighted sub-clusters, several weighted -> one), names incl. upper/lower case and GSLB_BLACKHOLE (weight 0, rarely positive), 0-3 picks after each step; two thirds end with exactly ONE positive-weight sub-cluster next to 0-3 zero-weight ones (the single-sub-cluster fast path), sticky (targets = backends) or not (targets = sub-clusters), all four strategies; backend lists per sub-cluster name are constant. Asserted as above: same target (sub-cluster, and backend when sticky) as on a balancer freshly initialised with the final configuration (gslb-reload:history-dependent:<shape>:<kind of last reload>), target eligible, one target per residue class, exact shares. Non-trivial = final configuration with >=2 sub-clusters, all classes covered, >=1 reload that changes the sub-cluster configuration; distinct = hash of (final configuration, steps). " +
		"BALANCE MODE AND CONNECTIONS (c02m.go): every gslb configuration above carries a BalanceMode drawn from the spellings GslbBasicConfCheck accepts (WRR, wrr, absent = default | WLC, wlc, Wlc; both families equally often) and is installed the way a configuration file is: JSON text -> GslbBasicConf -> GslbBasicConfCheck -> SetGslbBasic. On every instance of every comparison the backends hold connections that change while keys are asked: 0..6 connections per backend from the start, IncConnNum on the backend a selection returned (3 of 4), DecConnNum of earlier ones (1 of 3; now and then all); each instance (orderings, history, fresh) has its own connection history. The oracles are unchanged (same target on all orderings / history = fresh, one target per residue class, exact shares; in addition every key is asked twice on one instance and must get the same target: repetition-differs): neither the balance mode nor connection counts are arguments of the target function. " +
		"MODE MATRIX (288 cases, thorough 4320): every cell BalanceMode spelling {absent, WRR, WLC, wrr, wlc, Wlc} x SessionSticky {absent, false, true} x HashStrategy 0..3 equally often; one weighted sub-cluster (plus zero-weight ones / blackhole 0) or 2-3 weighted sub-clusters, 2-5 backends each (weights 0..5, some down, >=2 eligible); 8-24 requests with distinct deterministic keys, each repeated in 3-8 rounds in random order; between requests the connection counts change (a burst of 1-9 connections on a random backend; 2-12 connections on the backend the key went to before, so that it is the busiest; everything released; some forwarded requests finish) and a forwarded request holds a connection on its backend. Asserted: with SessionSticky every repetition gets the same (sub-cluster, backend), which is eligible (mode-matrix:target-changes-between-repetitions, mode-matrix:ineligible-target), and the same as on a twin balancer with the same sub-clusters/backends/weights, the OTHER balance mode and no connections (mode-matrix:target-depends-on-balance-mode); without SessionSticky the same for the sub-cluster only; the installed BalanceMode/SessionSticky read with VerifSnapshot are the documented meaning of the text. Counted: sticky requests whose target was NOT among the eligible backends with least connections/weight by the harness' own bookkeeping (a least-connection decision would have differed; must be > 0 for WLC and WRR). Non-trivial = >=2 eligible targets, >=2 distinct targets seen, connection counts changed; distinct = (spelling, sticky, basic, sub-clusters)")
	r.Assume("modulus M: backend weights are scaled x100 by BackendRR.Init, sub-cluster weights are not scaled")
	r.Assume("duplicate addresses are compared by addr:port with summed weights; duplicates through Update (one entry per address survives, order dependent, docs silent) are excluded")
	if r.Replay != "" {
		var w struct {
			Case c02Case      `json:"case"`
			Hist *c02HistCase `json:"hist"`
			G    *c02GHist    `json:"ghist"`
			M    *c02MCase    `json:"matrix"`
		}
		if err := r.LoadReplay(&w); err != nil {
			r.Inconclusive(err.Error())
			return
		}
		if w.M != nil {
			c02MCheck(r, w.M)
		} else if w.G != nil {
			c02GHistCheck(r, w.G)
		} else if w.Hist != nil {
			c02HistCheck(r, w.Hist)
		} else {
			c02Check(r, &w.Case)
		}
		r.SetMinDistinct(0)
		return
	}
	c02Matrix(r) // first: its signatures are the most specific ones for a mode / connection dependence
	n := r.N(300, 6000)
	vkit.Parallel(n, 0, func(i int) {
		c02Check(r, c02Gen(r, i))
	})
	for _, k := range []string{"level_rr", "level_gslb-sticky", "level_gslb-sub", "build_init", "build_update", "build_loader", "strategy_0", "strategy_1", "strategy_2", "strategy_3"} {
		if r.Counter(k) == 0 {
			r.Inconclusive("no case of class " + k + " was evaluated")
		}
	}
	c02Histories(r)
	c02GHistories(r)
}

// ---------------------------------------------------------------------------
// Reload histories: the balancer reaches the final backend lists through
// Init + 1-4 reloads (same-length replacements, adds, removes, weight changes,
// reorderings, no-op repeats, mixtures) with sticky picks in between (so that
// the list has been sorted for sticky selection before the next reload), and
// is compared with a freshly initialised balancer holding the final lists:
// every key must get the same target ("a fixed function of its hash key and
// of the set of eligible targets with their weights"), and the partition of
// the residues must be exact on the balancer with the history.

type c02Step struct {
	Backends map[string][]bspec `json:"backends"` // sub-cluster -> list in configuration order
	Picks    int                `json:"sticky_picks_after"`
}

type c02HistCase struct {
	Case  c02Case   `json:"case"`  // final configuration (Build = "history"); the fresh instance is Init'ed with it
	Steps []c02Step `json:"steps"` // Steps[0] is the Init, the last one carries Case's lists
}

func (h *c02HistCase) key() string {
	b, _ := json.Marshal(struct {
		C string
		S []c02Step
	}{h.Case.key(), h.Steps})
	return string(b)
}

func c02TableOf(m map[string][]bspec) cluster_table_conf.ClusterBackend {
	tc := cluster_table_conf.ClusterBackend{}
	for name, bs := range m {
		tc[name] = confOf(bs)
	}
	return tc
}

// c02BuildHist drives a new instance through the history.
func c02BuildHist(h *c02HistCase, g *vkit.Rand) (*c02Instance, error) {
	c := &h.Case
	inst := &c02Instance{c: c, conn: newC02Conn(vkit.Hash64("conn-hist", fmt.Sprint(c.Seed)))}
	gb, err := c02BasicConf(c.Basic)
	if err != nil {
		return nil, err
	}
	picks := func(n int) {
		for ; n > 0; n-- {
			q, key := c02GenKey(c, g)
			inst.ask(key, q)
		}
	}
	if c.Level == "rr" {
		name := c.Subs[0].Name
		inst.rr = bal_slb.NewBalanceRR(name)
		for i, st := range h.Steps {
			if i == 0 {
				inst.rr.Init(confOf(st.Backends[name]))
				inst.preloadConns()
			} else {
				inst.rr.Update(confOf(st.Backends[name]))
			}
			picks(st.Picks)
		}
	} else {
		gc := gslb_conf.GslbClusterConf{}
		for _, s := range c.Subs {
			gc[s.Name] = s.Weight
		}
		inst.bal = bal_gslb.NewBalanceGslb("cl")
		if err := inst.bal.Init(gc); err != nil {
			return nil, err
		}
		for i, st := range h.Steps {
			if i == 0 {
				inst.bal.BackendInit(c02TableOf(st.Backends))
				inst.bal.SetGslbBasic(gb)
				inst.preloadConns()
			} else {
				inst.bal.BackendReload(c02TableOf(st.Backends))
			}
			picks(st.Picks)
		}
	}
	// availability of the final backends, as in c02Build
	down := map[string]bool{}
	for _, s := range c.Subs {
		for i, b := range s.Backends {
			if s.Down[i] {
				down[s.Name+"/"+b.addrInfo()] = true
			}
		}
	}
	mark := func(sub string, snap bal_slb.VerifRR) {
		for _, b := range snap.Backends {
			if down[sub+"/"+b.Backend.AddrInfo] {
				b.Backend.SetAvail(false)
			}
		}
	}
	if inst.rr != nil {
		mark(c.Subs[0].Name, inst.rr.VerifSnapshot())
	} else {
		snap := inst.bal.VerifSnapshot()
		for _, vs := range snap.Subs {
			mark(vs.Name, vs.RR)
		}
	}
	return inst, nil
}

// c02LastKinds classifies, per sub-cluster, the last reload of the history,
// and tells whether the seeded shape occurred: sticky picks before a
// same-length replacement whose newcomer does not sort last.
func c02LastKinds(h *c02HistCase) (kinds map[string]string, replaceNotLast bool) {
	kinds = map[string]string{}
	n := len(h.Steps)
	if n < 2 {
		return kinds, false
	}
	prev, last := h.Steps[n-2], h.Steps[n-1]
	for name, bs := range last.Backends {
		k := histKind(prev.Backends[name], bs)
		kinds[name] = k
		if k == hkReplace && prev.Picks > 0 {
			old := map[string]bool{}
			for _, b := range prev.Backends[name] {
				old[b.addrInfo()] = true
			}
			maxSurv, anyNew := "", false
			for _, b := range bs {
				if old[b.addrInfo()] && b.addrInfo() > maxSurv {
					maxSurv = b.addrInfo()
				}
			}
			for _, b := range bs {
				if !old[b.addrInfo()] && b.addrInfo() < maxSurv {
					anyNew = true
				}
			}
			if anyNew {
				replaceNotLast = true
			}
		}
	}
	return kinds, replaceNotLast
}

func c02HistCheck(r *vkit.Run, h *c02HistCase) {
	c := &h.Case
	g := vkit.NewRand(c.Seed)
	exp, M := c02Expected(c)
	if M == 0 || len(h.Steps) < 2 {
		return
	}
	desc := func() interface{} { return map[string]interface{}{"hist": h} }
	kinds, replaceNotLast := c02LastKinds(h)
	mainKind := func(sub string) string {
		if k, ok := kinds[sub]; ok {
			return k
		}
		return "none"
	}
	var hist, fresh *c02Instance
	var berr error
	if try(r, desc, func() {
		if hist, berr = c02BuildHist(h, g); berr != nil {
			return
		}
		fc := *c
		fc.Build = "init"
		fresh, berr = c02Build(&fc, c02MakeOrdering(&fc, g, true), "hist")
	}) {
		return
	}
	if berr != nil {
		r.Violation("sticky:history:build-rejected:"+c.Level, "a valid configuration was rejected: "+berr.Error(), desc())
		return
	}
	classes, covered := c02CollectKeys(c, g, M)
	nkeys := 0
	for _, cl := range classes {
		nkeys += len(cl)
	}
	for nkeys < 400 { // at least 400 keys per comparison
		q, key := c02GenKey(c, g)
		res := int(murmur3.Sum64(key) % uint64(M))
		classes[res] = append(classes[res], c02KQ{q, key})
		nkeys++
	}
	owner := make([]string, M)
	owned := map[string]int{}
	failed := false
	if try(r, desc, func() {
		for res := 0; res < M && !failed; res++ {
			for j, x := range classes[res] {
				tf := fresh.ask(x.key, x.q)
				th := hist.ask(x.key, x.q)
				if th2 := hist.ask(x.key, x.q); th2 != th {
					r.Violation("sticky:history:repetition-differs:"+c.Level+":"+c02CanonMode(c.Basic.Mode),
						fmt.Sprintf("key %x maps to %s and, asked again on the same balancer (BalanceMode %q, only connection counts changed), to %s", x.key, th, c.Basic.Mode, th2),
						map[string]interface{}{"hist": h, "key": x.key, "req": x.q, "target_first": th, "target_again": th2})
					failed = true
					return
				}
				if th != tf {
					k := mainKind(tf.Sub)
					r.Violation("sticky:history-dependent:"+k+":"+c.Level,
						fmt.Sprintf("key %x maps to %s on a balancer that reached the backend lists through reloads (last reload of that sub-cluster: %s) but to %s on a freshly initialised balancer with the same lists", x.key, th, k, tf),
						map[string]interface{}{"hist": h, "key": x.key, "req": x.q, "target_after_history": th, "target_fresh": tf, "last_reload_kinds": kinds})
					failed = true
					return
				}
				tgt := th.Addr
				if c.Level == "gslb-sub" {
					tgt = th.Sub
				}
				if _, ok := exp[tgt]; !ok {
					r.Violation("sticky:history:ineligible-target:"+c.Level, fmt.Sprintf("key %x maps to %s which is not an eligible target of the final lists", x.key, th),
						map[string]interface{}{"hist": h, "key": x.key, "req": x.q, "target": th})
					failed = true
					return
				}
				if j == 0 {
					owner[res] = tgt
					owned[tgt]++
				} else if owner[res] != tgt {
					r.Violation("sticky:history:residue-two-targets:"+c.Level,
						fmt.Sprintf("after the reload history two keys with murmur3_64 mod %d = %d map to %s and %s", M, res, owner[res], tgt),
						map[string]interface{}{"hist": h, "residue": res, "M": M, "key_a": classes[res][0].key, "key_b": x.key})
					failed = true
					return
				}
			}
		}
	}) || failed {
		return
	}
	if covered == M {
		names := make([]string, 0, len(exp))
		for t := range exp {
			names = append(names, t)
		}
		sort.Strings(names)
		for _, t := range names {
			if owned[t] != exp[t] {
				r.Violation("sticky:history:residue-share:"+c.Level,
					fmt.Sprintf("after the reload history target %s owns %d of %d residue classes, its weight share is %d", t, owned[t], M, exp[t]),
					map[string]interface{}{"hist": h, "M": M, "owned": owned, "expected": exp})
				break
			}
		}
	}
	r.Case(vkit.Hash64("hist", h.key()), len(exp) >= 2 && covered == M)
	r.Count("hist_keys_compared", int64(nkeys))
	r.Count("hist_level_"+c.Level, 1)
	stickyBefore := h.Steps[len(h.Steps)-2].Picks > 0
	seen := map[string]bool{}
	for _, k := range kinds {
		if !seen[k] {
			seen[k] = true
			r.Count("hist_last_reload_"+k, 1)
			if stickyBefore {
				r.Count("hist_last_reload_after_sticky_pick_"+k, 1)
			}
		}
	}
	if replaceNotLast {
		r.Count("hist_replace_after_sticky_pick_newcomer_not_sorting_last", 1)
	}
	if c.Level != "rr" {
		r.Count(fmt.Sprintf("hist_strategy_%d", c.Basic.Strategy), 1)
	}
	if replaceNotLast && len(exp) >= 2 && len(h.Steps) <= 3 {
		// vkit's sample slots are used up by the configuration cases; history
		// samples go into the evidence under reload_history_samples
		c02HistSamples.Lock()
		if len(c02HistSamples.s) < 3 {
			c02HistSamples.s = append(c02HistSamples.s, map[string]interface{}{"hist": h, "last_reload_kinds": kinds, "M": M, "owned_after_history": owned})
		}
		c02HistSamples.Unlock()
	}
}

var c02HistSamples struct {
	sync.Mutex
	s []interface{}
}

func c02HistGen(sub string) *histGen {
	return &histGen{
		maxN: 6,
		fresh: func(g *vkit.Rand, cur []bspec) (bspec, bool) {
			used := map[string]bool{}
			for _, b := range cur {
				used[b.addrInfo()] = true
			}
			for {
				// string order differs from numeric order (10.0.0.9 vs 10.0.0.10)
				b := bspec{Addr: fmt.Sprintf("10.%d.0.%d", g.Intn(3), g.Range(1, 120)), Port: []int{80, 8080, 9}[g.Intn(3)], Weight: g.Range(1, 4)}
				if !used[b.addrInfo()] {
					b.Name = fmt.Sprintf("%s-%s-%d", sub, b.Addr, b.Port)
					return b, true
				}
			}
		},
		newWeight: func(g *vkit.Rand, old int) int {
			if old != 0 && g.Chance(1, 8) {
				return 0
			}
			for {
				if w := g.Range(1, 4); w != old {
					return w
				}
			}
		},
	}
}

func c02GenHist(r *vkit.Run, i int) *c02HistCase {
	g := r.Rng("hist", i)
	h := &c02HistCase{}
	c := &h.Case
	c.Seed = g.U64()
	c.Build = "history"
	c.Basic = gbasic{RetryMax: 2, CrossRetry: 0, Mode: c02DrawMode(g), Strategy: g.Intn(4), Sticky: true}
	if g.Bool() {
		c.Basic.Header = "X-Client-Id"
	} else {
		c.Basic.Header = "Cookie:UID"
	}
	type subw struct {
		name string
		w    int
	}
	var subs []subw
	switch g.Intn(6) {
	case 0, 1, 2:
		c.Level = "rr"
		subs = []subw{{"s0", 1}}
	case 3, 4:
		c.Level = "gslb-sticky"
		subs = []subw{{"s0", g.Range(1, 100)}}
	default:
		c.Level = "gslb-sub"
		names := []string{"a.bj", "b.gz", "A.bj", "c10", "c9"}
		p := g.Perm(len(names))
		for k := g.Range(2, 3); k > 0; k-- {
			w := g.Range(1, 30)
			if g.Chance(1, 5) {
				w = 0
			}
			subs = append(subs, subw{names[p[k]], w})
		}
		if subs[0].w == 0 {
			subs[0].w = g.Range(1, 30)
		}
	}
	cur := map[string][]bspec{}
	for _, s := range subs {
		hg := c02HistGen(s.name)
		var bs []bspec
		for k := g.Range(1, 5); k > 0; k-- {
			b, _ := hg.fresh(g, bs)
			bs = append(bs, b)
		}
		cur[s.name] = bs
	}
	h.Steps = append(h.Steps, c02Step{Backends: cur, Picks: g.Intn(4)})
	for k := g.Range(1, 4); k > 0; k-- {
		next := map[string][]bspec{}
		for _, s := range subs {
			want := histWant(g)
			if len(subs) > 1 && g.Chance(1, 3) {
				want = hkNoopSame
			}
			next[s.name] = histMutate(g, c02HistGen(s.name), cur[s.name], want)
		}
		h.Steps = append(h.Steps, c02Step{Backends: next, Picks: g.Intn(4)})
		cur = next
	}
	h.Steps[len(h.Steps)-1].Picks = 0
	for _, s := range subs {
		bs := cur[s.name]
		down := make([]bool, len(bs))
		if c.Level != "gslb-sub" {
			anyUp := false
			for j, b := range bs {
				down[j] = g.Chance(1, 7)
				if !down[j] && b.Weight > 0 {
					anyUp = true
				}
			}
			if !anyUp {
				for j, b := range bs {
					if b.Weight > 0 {
						down[j] = false
						break
					}
				}
			}
		}
		c.Subs = append(c.Subs, c02Sub{Name: s.name, Weight: s.w, Backends: bs, Down: down})
	}
	if c.Level != "rr" && g.Bool() {
		c.Subs = append(c.Subs, c02Sub{Name: "GSLB_BLACKHOLE", Weight: 0})
	}
	return h
}

func c02Histories(r *vkit.Run) {
	n := r.N(1000, 20000)
	vkit.Parallel(n, 0, func(i int) {
		c02HistCheck(r, c02GenHist(r, i))
	})
	r.Extra("reload_history_samples", c02HistSamples.s)
	for _, k := range histKinds {
		if r.Counter("hist_last_reload_after_sticky_pick_"+k) == 0 {
			r.Inconclusive("no history whose last reload is of kind " + k + " after a sticky pick")
		}
	}
	for _, k := range []string{"hist_level_rr", "hist_level_gslb-sticky", "hist_level_gslb-sub", "hist_replace_after_sticky_pick_newcomer_not_sorting_last",
		"hist_strategy_0", "hist_strategy_1", "hist_strategy_2", "hist_strategy_3"} {
		if r.Counter(k) == 0 {
			r.Inconclusive("counter " + k + " is zero")
		}
	}
}
