package main

import (
	"encoding/json"
	"fmt"
	"net"
	"strings"
	"sync"

	"github.com/bfenetworks/bfe/bfe_balance/backend"
	"github.com/bfenetworks/bfe/bfe_balance/bal_gslb"
	"github.com/bfenetworks/bfe/bfe_basic"
	"github.com/bfenetworks/bfe/bfe_config/bfe_cluster_conf/cluster_conf"
	"github.com/bfenetworks/bfe/bfe_config/bfe_cluster_conf/cluster_table_conf"
	"github.com/bfenetworks/bfe/bfe_config/bfe_cluster_conf/gslb_conf"
	"github.com/bfenetworks/bfe/bfe_http"

	"verifharness/vkit"
)

// C02, BALANCE MODE x SESSION STICKY x HASH STRATEGY with connection counts
// that change between requests.
//
// The statement makes the target of a session-sticky selection (and the
// sub-cluster of a hash-based sub-cluster selection) a fixed function of the
// hash key and of the eligible targets with their weights. The cluster's
// BalanceMode (WRR / WLC) and the number of connections the backends hold are
// not among the arguments of that function. So, for every BalanceMode that
// GslbBasicConfCheck accepts:
//
//	with SessionSticky every repetition of a request gets the same
//	(sub-cluster, backend), however many connections the backends hold at
//	that moment, and the same one as on a balancer with the same sub-clusters,
//	backends and weights but the OTHER balance mode and no connections at all;
//	without SessionSticky the same holds for the sub-cluster.
//
// Nothing is asserted about the backend of a non-sticky selection (C03's
// subject). The configuration goes the way a configuration file goes: JSON
// text -> GslbBasicConf -> GslbBasicConfCheck (which fills defaults and
// normalises the mode's spelling) -> SetGslbBasic.

// c02ModeSpellings are the BalanceMode values of the generated configurations
// ("" = key absent, default WRR). All are accepted by GslbBasicConfCheck.
var c02ModeSpellings = []string{"", "WRR", "WLC", "wrr", "wlc", "Wlc"}

// c02CanonMode is the documented meaning of a spelling.
func c02CanonMode(m string) string {
	if strings.ToUpper(m) == cluster_conf.BalanceModeWlc {
		return cluster_conf.BalanceModeWlc
	}
	return cluster_conf.BalanceModeWrr
}

// c02BasicJSON is the GslbBasic section of a cluster_conf file for g.
// stickyAbsent leaves SessionSticky out (default false).
func c02BasicJSON(g gbasic, stickyAbsent bool) string {
	var hc []string
	hc = append(hc, fmt.Sprintf(`"HashStrategy": %d`, g.Strategy))
	if g.Header != "" {
		hc = append(hc, fmt.Sprintf(`"HashHeader": %q`, g.Header))
	}
	if !stickyAbsent {
		hc = append(hc, fmt.Sprintf(`"SessionSticky": %v`, g.Sticky))
	}
	parts := []string{fmt.Sprintf(`"CrossRetry": %d`, g.CrossRetry), fmt.Sprintf(`"RetryMax": %d`, g.RetryMax), `"HashConf": {` + strings.Join(hc, ", ") + `}`}
	if g.Mode != "" {
		parts = append(parts, fmt.Sprintf(`"BalanceMode": %q`, g.Mode))
	}
	return "{" + strings.Join(parts, ", ") + "}"
}

// c02BasicConfText parses and checks a GslbBasic section the way the
// configuration loader does.
func c02BasicConfText(txt string) (cluster_conf.GslbBasicConf, error) {
	var gb cluster_conf.GslbBasicConf
	if err := json.Unmarshal([]byte(txt), &gb); err != nil {
		return gb, fmt.Errorf("GslbBasic %s: %v", txt, err)
	}
	if err := cluster_conf.GslbBasicConfCheck(&gb); err != nil {
		return gb, fmt.Errorf("GslbBasicConfCheck(%s): %v", txt, err)
	}
	return gb, nil
}

// c02BasicConf is what the configurations of c02.go / c02g.go are installed
// with: g.Mode is a spelling out of c02ModeSpellings.
func c02BasicConf(g gbasic) (cluster_conf.GslbBasicConf, error) {
	return c02BasicConfText(c02BasicJSON(g, false))
}

// c02DrawMode draws the BalanceMode of a generated configuration: WRR and WLC
// families equally often.
func c02DrawMode(g *vkit.Rand) string {
	if g.Bool() {
		return []string{"WLC", "WLC", "wlc", "Wlc"}[g.Intn(4)]
	}
	return []string{"WRR", "WRR", "", "wrr"}[g.Intn(4)]
}

// ---------------------------------------------------------------------------
// Connections held on backends while keys are asked (used by every C02
// comparison): what a proxy does around a forwarded request, IncConnNum on
// the chosen backend and DecConnNum some time later, plus connections that
// exist from before.

type c02Conn struct {
	rng  *vkit.Rand
	held []*backend.BfeBackend
}

func newC02Conn(seed uint64) *c02Conn { return &c02Conn{rng: vkit.NewRand(seed)} }

// preload gives every backend 0..6 connections (half of them none).
func (cc *c02Conn) preload(bs []*backend.BfeBackend) {
	for _, b := range bs {
		if cc.rng.Bool() {
			continue
		}
		for k := cc.rng.Range(1, 6); k > 0; k-- {
			b.IncConnNum()
			cc.held = append(cc.held, b)
		}
	}
}

// forwarded is called with the backend a selection returned.
func (cc *c02Conn) forwarded(b *backend.BfeBackend) {
	if b != nil && cc.rng.Chance(3, 4) {
		b.IncConnNum()
		cc.held = append(cc.held, b)
	}
	n := 0
	if cc.rng.Chance(1, 3) {
		n = 1
	}
	if cc.rng.Chance(1, 16) {
		n = len(cc.held) // all requests finish
	}
	if len(cc.held) > 48 {
		n = 24
	}
	for ; n > 0 && len(cc.held) > 0; n-- {
		i := cc.rng.Intn(len(cc.held))
		cc.held[i].DecConnNum()
		cc.held[i] = cc.held[len(cc.held)-1]
		cc.held = cc.held[:len(cc.held)-1]
	}
}

// request is reqSpec.build into a request object that the instance reuses
// (allocating and clearing a bfe_basic.Request per ask dominated the run
// time): the fields the balancer reads are set, the ones it writes are reset.
func (in *c02Instance) request(q reqSpec) *bfe_basic.Request {
	if in.req == nil {
		in.req = q.build(in.c.Basic)
		return in.req
	}
	g := in.c.Basic
	req := in.req
	req.HttpRequest = &bfe_http.Request{Header: bfe_http.Header{}, RequestURI: q.URI}
	req.ClientAddr, req.RemoteAddr = nil, nil
	if q.IP != nil {
		req.ClientAddr = &net.TCPAddr{IP: net.IP(q.IP), Port: 40000}
		req.RemoteAddr = req.ClientAddr
	}
	hdr, cookieKey := g.Header, ""
	if i := strings.Index(hdr, ":"); i >= 0 {
		cookieKey = strings.TrimSpace(hdr[i+1:])
	}
	if q.Header != "" && hdr != "" && cookieKey == "" {
		req.HttpRequest.Header.Set(hdr, q.Header)
	}
	if q.Cookie != "" && cookieKey != "" {
		req.HttpRequest.Header.Set("Cookie", cookieKey+"="+q.Cookie)
	}
	req.RetryTime = q.Retry
	req.Backend = bfe_basic.BackendInfo{}
	req.ErrCode, req.ErrMsg = nil, ""
	req.CookieMap = nil
	return req
}

// ---------------------------------------------------------------------------

type c02MCase struct {
	Mode         string   `json:"balance_mode"` // spelling in the configuration, "" = absent
	StickyAbsent bool     `json:"session_sticky_absent"`
	Basic        gbasic   `json:"basic"` // Mode = spelling, Sticky = effective value
	Subs         []c02Sub `json:"subs"`
	NKeys        int      `json:"keys"`
	Rounds       int      `json:"rounds"`
	Seed         uint64   `json:"rng"`
}

func (c *c02MCase) key() string {
	b, _ := json.Marshal(struct {
		M string
		A bool
		B gbasic
		S []c02Sub
	}{c.Mode, c.StickyAbsent, c.Basic, c.Subs})
	return string(b)
}

func (c *c02MCase) cell() string {
	m := c.Mode
	if m == "" {
		m = "absent"
	}
	s := "sticky"
	if !c.Basic.Sticky {
		s = "nonsticky"
		if c.StickyAbsent {
			s = "stickyabsent"
		}
	}
	return fmt.Sprintf("%s_%s_strategy%d", m, s, c.Basic.Strategy)
}

// c02MBal is one balancer of a matrix case with the harness' own view of the
// connections it put on the backends.
type c02MBal struct {
	bal   *bal_gslb.BalanceGslb
	backs map[string]map[string]*backend.BfeBackend // sub -> addr:port -> backend
	conns map[*backend.BfeBackend]int
	basic gbasic
}

func c02MBuild(c *c02MCase, basicTxt string) (*c02MBal, error) {
	gb, err := c02BasicConfText(basicTxt)
	if err != nil {
		return nil, err
	}
	gc := gslb_conf.GslbClusterConf{}
	tc := cluster_table_conf.ClusterBackend{}
	for _, s := range c.Subs {
		gc[s.Name] = s.Weight
		if len(s.Backends) > 0 {
			tc[s.Name] = confOf(s.Backends)
		}
	}
	m := &c02MBal{bal: bal_gslb.NewBalanceGslb("cl"), backs: map[string]map[string]*backend.BfeBackend{}, conns: map[*backend.BfeBackend]int{}, basic: c.Basic}
	if err := m.bal.Init(gc); err != nil {
		return nil, err
	}
	if err := m.bal.BackendInit(tc); err != nil {
		return nil, err
	}
	m.bal.SetGslbBasic(gb)
	snap := m.bal.VerifSnapshot()
	for i := range c.Subs {
		s := &c.Subs[i]
		vs := subByName(&snap, s.Name)
		if vs == nil {
			continue
		}
		down := map[string]bool{}
		for j, b := range s.Backends {
			if s.Down[j] {
				down[b.addrInfo()] = true
			}
		}
		m.backs[s.Name] = map[string]*backend.BfeBackend{}
		for _, b := range vs.RR.Backends {
			m.backs[s.Name][b.Backend.AddrInfo] = b.Backend
			if down[b.Backend.AddrInfo] {
				b.Backend.SetAvail(false)
			}
		}
	}
	return m, nil
}

func (m *c02MBal) hold(b *backend.BfeBackend, n int) {
	for ; n > 0; n-- {
		b.IncConnNum()
		m.conns[b]++
	}
}

func (m *c02MBal) release(b *backend.BfeBackend, n int) {
	for ; n > 0 && m.conns[b] > 0; n-- {
		b.DecConnNum()
		m.conns[b]--
	}
}

func (m *c02MBal) ask(q reqSpec) (c02Target, *backend.BfeBackend) {
	req := q.build(m.basic)
	b, err := m.bal.Balance(req)
	t := c02Target{Sub: req.Backend.SubclusterName}
	if b != nil {
		t.Addr = b.AddrInfo
	}
	if err != nil {
		t.Err = err.Error()
	}
	return t, b
}

// c02MLeast tells whether backend addr of sub-cluster sub is among the
// eligible backends with the least connections per weight (the documented
// meaning of WLC), by the harness' own bookkeeping of connections.
func (m *c02MBal) c02MLeast(c *c02MCase, sub, addr string) (least, known bool) {
	var s *c02Sub
	for i := range c.Subs {
		if c.Subs[i].Name == sub {
			s = &c.Subs[i]
		}
	}
	if s == nil {
		return false, false
	}
	type e struct{ conn, w int }
	var me *e
	var all []e
	for j, b := range s.Backends {
		if b.Weight <= 0 || s.Down[j] {
			continue
		}
		x := e{m.conns[m.backs[sub][b.addrInfo()]], b.Weight}
		all = append(all, x)
		if b.addrInfo() == addr {
			me = &all[len(all)-1]
		}
	}
	if me == nil || len(all) < 2 {
		return false, false
	}
	for _, o := range all {
		if me.conn*o.w > o.conn*me.w {
			return false, true
		}
	}
	return true, true
}

var c02MSamples struct {
	sync.Mutex
	s []interface{}
}

func c02MCheck(r *vkit.Run, c *c02MCase) {
	g := vkit.NewRand(c.Seed)
	sticky := c.Basic.Sticky
	canon := c02CanonMode(c.Mode)
	other := cluster_conf.BalanceModeWrr
	if canon == cluster_conf.BalanceModeWrr {
		other = cluster_conf.BalanceModeWlc
	}
	stickyName := "nonsticky"
	if sticky {
		stickyName = "sticky"
	}
	shape := fmt.Sprintf("%s:%s:strategy%d", canon, stickyName, c.Basic.Strategy)
	txt := c02BasicJSON(c.Basic, c.StickyAbsent)
	tb := c.Basic
	tb.Mode = other
	twinTxt := c02BasicJSON(tb, c.StickyAbsent)
	desc := func() interface{} { return map[string]interface{}{"matrix": c, "gslb_basic": txt} }
	var main, twin *c02MBal
	var berr error
	if try(r, desc, func() {
		if main, berr = c02MBuild(c, txt); berr != nil {
			return
		}
		twin, berr = c02MBuild(c, twinTxt)
	}) {
		return
	}
	if berr != nil {
		r.Violation("mode-matrix:build-rejected:"+shape, "a valid configuration was rejected: "+berr.Error(), desc())
		return
	}
	// what the balancer says it was configured with
	if snap := main.bal.VerifSnapshot(); snap.BalanceMode != canon || snap.Sticky != sticky {
		r.Violation("mode-matrix:configuration-not-installed:"+shape, fmt.Sprintf("GslbBasic %s was installed as BalanceMode=%q SessionSticky=%v", txt, snap.BalanceMode, snap.Sticky), desc())
		return
	}
	// keys
	kc := &c02Case{Level: "gslb-sub", Basic: c.Basic}
	type kq struct {
		q     reqSpec
		key   []byte
		first c02Target
		seen  int
	}
	keys := make([]*kq, 0, c.NKeys)
	dup := map[string]bool{}
	for len(keys) < c.NKeys {
		q, key := c02GenKey(kc, g)
		if dup[string(key)] {
			continue
		}
		dup[string(key)] = true
		keys = append(keys, &kq{q: q, key: key})
	}
	// every backend of the main balancer, for the connection churn
	var allBacks []*backend.BfeBackend
	for _, s := range c.Subs {
		for _, b := range s.Backends {
			if p := main.backs[s.Name][b.addrInfo()]; p != nil {
				allBacks = append(allBacks, p)
			}
		}
	}
	eligibleTargets := map[string]bool{}
	for _, s := range c.Subs {
		if s.Weight <= 0 {
			continue
		}
		for j, b := range s.Backends {
			if b.Weight > 0 && !s.Down[j] {
				eligibleTargets[s.Name+"/"+b.addrInfo()] = true
			}
		}
	}
	var inflight []*backend.BfeBackend
	nreq, notLeast, changedCounts := 0, 0, 0
	targets := map[string]bool{}
	failed := false
	if try(r, desc, func() {
		for round := 0; round < c.Rounds && !failed; round++ {
			for _, ki := range g.Perm(len(keys)) {
				k := keys[ki]
				// connections change between the requests
				switch op := g.Intn(8); {
				case op == 0 && len(allBacks) > 0: // a burst on one backend
					main.hold(allBacks[g.Intn(len(allBacks))], g.Range(1, 9))
					changedCounts++
				case op <= 2 && k.seen > 0 && k.first.Addr != "": // the backend this key went to becomes the busiest one
					if p := main.backs[k.first.Sub][k.first.Addr]; p != nil {
						main.hold(p, g.Range(2, 12))
						changedCounts++
					}
				case op == 3: // everything is released
					for _, p := range allBacks {
						main.release(p, main.conns[p])
					}
					inflight = inflight[:0]
					changedCounts++
				case op == 4 && len(inflight) > 0: // some forwarded requests finish
					for n := g.Range(1, 4); n > 0 && len(inflight) > 0; n-- {
						i := g.Intn(len(inflight))
						main.release(inflight[i], 1)
						inflight[i] = inflight[len(inflight)-1]
						inflight = inflight[:len(inflight)-1]
					}
					changedCounts++
				}
				t, b := main.ask(k.q)
				tt, _ := twin.ask(k.q)
				nreq++
				if !sticky {
					t.Addr, t.Err, tt.Addr, tt.Err = "", "", "", ""
				}
				if sticky {
					if t.Err != "" || !eligibleTargets[t.Sub+"/"+t.Addr] {
						r.Violation("mode-matrix:ineligible-target:"+shape, fmt.Sprintf("key %x maps to %s which is not an eligible backend", k.key, t),
							map[string]interface{}{"matrix": c, "gslb_basic": txt, "key": k.key, "req": k.q, "target": t})
						failed = true
						return
					}
					if least, known := main.c02MLeast(c, t.Sub, t.Addr); known && !least {
						notLeast++
					}
				}
				if k.seen == 0 {
					k.first = t
				} else if t != k.first {
					what := "backend"
					if !sticky {
						what = "sub-cluster"
					}
					r.Violation("mode-matrix:target-changes-between-repetitions:"+shape,
						fmt.Sprintf("GslbBasic %s: request %d repeats a request with hash key %x; it goes to %s, the first one went to %s (only the backends' connection counts changed in between): the %s is not a function of the key and the eligible targets", txt, nreq, k.key, t, k.first, what),
						map[string]interface{}{"matrix": c, "gslb_basic": txt, "key": k.key, "req": k.q, "first_target": k.first, "target_now": t, "repetition": k.seen, "connections_now": main.connView(c)})
					failed = true
					return
				}
				if t != tt {
					r.Violation("mode-matrix:target-depends-on-balance-mode:"+shape,
						fmt.Sprintf("GslbBasic %s: key %x goes to %s; on a balancer with the same sub-clusters, backends and weights, BalanceMode %s and no connections it goes to %s", txt, k.key, t, other, tt),
						map[string]interface{}{"matrix": c, "gslb_basic": txt, "gslb_basic_twin": twinTxt, "key": k.key, "req": k.q, "target": t, "target_twin": tt, "connections_now": main.connView(c)})
					failed = true
					return
				}
				k.seen++
				targets[t.String()] = true
				// the request is forwarded: the chosen backend holds one more connection
				if b != nil && g.Chance(3, 4) {
					main.hold(b, 1)
					inflight = append(inflight, b)
				}
			}
		}
	}) || failed {
		return
	}
	ntargets := 0
	for _, s := range c.Subs {
		if s.Weight <= 0 {
			continue
		}
		if !sticky {
			ntargets++
			continue
		}
		for j, b := range s.Backends {
			if b.Weight > 0 && !s.Down[j] {
				ntargets++
			}
		}
	}
	r.Case(vkit.Hash64("matrix", c.key()), ntargets >= 2 && len(targets) >= 2 && changedCounts > 0)
	r.Count("matrix_cases", 1)
	r.Count("matrix_cell_"+c.cell(), 1)
	r.Count("matrix_requests", int64(nreq))
	r.Count("matrix_"+canon+"_"+stickyName, 1)
	if sticky {
		r.Count("matrix_sticky_requests_"+canon, int64(nreq))
		r.Count("matrix_sticky_requests_whose_target_is_not_a_least_connection_backend_"+canon, int64(notLeast))
	}
	if len(c.Subs) > 1 {
		pos := 0
		for _, s := range c.Subs {
			if s.Weight > 0 {
				pos++
			}
		}
		if pos > 1 {
			r.Count("matrix_several_weighted_sub_clusters_"+stickyName, 1)
		}
	}
	if sticky && canon == cluster_conf.BalanceModeWlc && notLeast > 0 {
		c02MSamples.Lock()
		if len(c02MSamples.s) < 2 {
			c02MSamples.s = append(c02MSamples.s, map[string]interface{}{"matrix": c, "gslb_basic": txt, "requests": nreq, "requests_whose_target_was_not_a_least_connection_backend": notLeast, "distinct_targets": len(targets)})
		}
		c02MSamples.Unlock()
	}
}

func (m *c02MBal) connView(c *c02MCase) map[string]int {
	out := map[string]int{}
	for _, s := range c.Subs {
		for _, b := range s.Backends {
			if p := m.backs[s.Name][b.addrInfo()]; p != nil {
				out[s.Name+"/"+b.addrInfo()] = p.ConnNum()
			}
		}
	}
	return out
}

// c02MGen: the cell (mode spelling x sticky {absent,false,true} x strategy)
// is a function of the index, so that every cell occurs equally often.
func c02MGen(r *vkit.Run, i int) *c02MCase {
	g := r.Rng("matrix", i)
	c := &c02MCase{Seed: g.U64()}
	cell := i % (len(c02ModeSpellings) * 3 * 4)
	c.Mode = c02ModeSpellings[cell%len(c02ModeSpellings)]
	cell /= len(c02ModeSpellings)
	st := cell % 3
	cell /= 3
	c.StickyAbsent = st == 0
	c.Basic = gbasic{RetryMax: 2, CrossRetry: 0, Mode: c.Mode, Sticky: st == 2, Strategy: cell % 4}
	if g.Bool() {
		c.Basic.Header = "X-Client-Id"
	} else {
		c.Basic.Header = "Cookie:UID"
	}
	gen := func(sub string) c02Sub {
		// 2-5 distinct backends, at least two eligible
		var bs []bspec
		var down []bool
		used := map[string]bool{}
		for k := g.Range(2, 5); k > 0; {
			b := bspec{Addr: fmt.Sprintf("10.%d.0.%d", g.Intn(3), g.Range(1, 120)), Port: []int{80, 8080, 9}[g.Intn(3)], Weight: g.Range(1, 5)}
			if used[b.addrInfo()] {
				continue
			}
			used[b.addrInfo()] = true
			b.Name = fmt.Sprintf("%s-%d", sub, len(bs))
			if len(bs) >= 2 && g.Chance(1, 8) {
				b.Weight = 0
			}
			bs = append(bs, b)
			down = append(down, len(bs) > 2 && g.Chance(1, 8))
			k--
		}
		return c02Sub{Name: sub, Backends: bs, Down: down}
	}
	names := []string{"a.bj", "b.gz", "A.bj", "c10", "c9", "sub_x"}
	p := g.Perm(len(names))
	if g.Chance(1, 2) {
		s := gen(names[p[0]])
		s.Weight = g.Range(1, 100)
		c.Subs = []c02Sub{s}
		if g.Bool() {
			c.Subs = append(c.Subs, c02Sub{Name: "GSLB_BLACKHOLE", Weight: 0})
		}
		if g.Chance(1, 3) {
			z := gen(names[p[1]])
			z.Weight = 0
			c.Subs = append(c.Subs, z)
		}
	} else {
		for k := 0; k < g.Range(2, 3); k++ {
			s := gen(names[p[k]])
			s.Weight = g.Range(1, 40)
			c.Subs = append(c.Subs, s)
		}
	}
	c.NKeys = g.Range(8, 24)
	c.Rounds = g.Range(3, 8)
	return c
}

func c02Matrix(r *vkit.Run) {
	cells := len(c02ModeSpellings) * 3 * 4
	n := cells * r.N(4, 60)
	vkit.Parallel(n, 0, func(i int) {
		c02MCheck(r, c02MGen(r, i))
	})
	r.Extra("mode_matrix_samples", c02MSamples.s)
	for _, m := range c02ModeSpellings {
		if m == "" {
			m = "absent"
		}
		for _, s := range []string{"sticky", "nonsticky", "stickyabsent"} {
			for k := 0; k < 4; k++ {
				if key := fmt.Sprintf("matrix_cell_%s_%s_strategy%d", m, s, k); r.Counter(key) == 0 {
					r.Inconclusive("mode matrix: no case of cell " + key)
				}
			}
		}
	}
	for _, k := range []string{"matrix_sticky_requests_whose_target_is_not_a_least_connection_backend_WLC", "matrix_sticky_requests_whose_target_is_not_a_least_connection_backend_WRR",
		"matrix_several_weighted_sub_clusters_sticky", "matrix_several_weighted_sub_clusters_nonsticky"} {
		if r.Counter(k) == 0 {
			r.Inconclusive("mode matrix: counter " + k + " is zero")
		}
	}
}
