package main

import (
	"fmt"
	"net"
	"os"
	"path/filepath"
	"regexp"
	"runtime/debug"
	"strings"

	"github.com/bfenetworks/bfe/bfe_balance/bal_gslb"
	"github.com/bfenetworks/bfe/bfe_balance/bal_slb"
	"github.com/bfenetworks/bfe/bfe_basic"
	"github.com/bfenetworks/bfe/bfe_config/bfe_cluster_conf/cluster_conf"
	"github.com/bfenetworks/bfe/bfe_config/bfe_cluster_conf/cluster_table_conf"
	"github.com/bfenetworks/bfe/bfe_http"

	"verifharness/vkit"
)

// bspec is the harness' description of one configured backend.
type bspec struct {
	Name   string `json:"name"`
	Addr   string `json:"addr"`
	Port   int    `json:"port"`
	Weight int    `json:"weight"`
}

func (b bspec) addrInfo() string { return fmt.Sprintf("%s:%d", b.Addr, b.Port) }

func (b bspec) conf() *cluster_table_conf.BackendConf {
	n, a, p, w := b.Name, b.Addr, b.Port, b.Weight
	return &cluster_table_conf.BackendConf{Name: &n, Addr: &a, Port: &p, Weight: &w}
}

func confOf(bs []bspec) cluster_table_conf.SubClusterBackend {
	out := make(cluster_table_conf.SubClusterBackend, 0, len(bs))
	for _, b := range bs {
		out = append(out, b.conf())
	}
	return out
}

// specsFromWeights builds backends b0..bN-1 with distinct addresses. With
// rev the addresses descend with the index, so that any dependence on address
// order shows as a difference between the two instances.
func specsFromWeights(ws []int, rev bool) []bspec {
	out := make([]bspec, len(ws))
	for i, w := range ws {
		k := i
		if rev {
			k = len(ws) - 1 - i
		}
		out[i] = bspec{Name: fmt.Sprintf("b%d", i), Addr: fmt.Sprintf("10.0.%d.%d", k/200, 1+k%200), Port: 8000 + k, Weight: w}
	}
	return out
}

func permuted(bs []bspec, perm []int) []bspec {
	out := make([]bspec, len(bs))
	for i, p := range perm {
		out[i] = bs[p]
	}
	return out
}

// gbasic is the harness' description of a GslbBasicConf.
type gbasic struct {
	RetryMax   int    `json:"retry_max"`
	CrossRetry int    `json:"cross_retry"`
	Mode       string `json:"mode"` // WRR | WLC
	Sticky     bool   `json:"sticky"`
	Strategy   int    `json:"strategy"`
	Header     string `json:"header"`
}

func (g gbasic) conf() cluster_conf.GslbBasicConf {
	rm, cr, mode, st, strat, hdr := g.RetryMax, g.CrossRetry, g.Mode, g.Sticky, g.Strategy, g.Header
	if mode == "" {
		mode = cluster_conf.BalanceModeWrr
	}
	return cluster_conf.GslbBasicConf{
		CrossRetry: &cr, RetryMax: &rm, BalanceMode: &mode,
		HashConf: &cluster_conf.HashConf{HashStrategy: &strat, HashHeader: &hdr, SessionSticky: &st},
	}
}

// reqSpec is the harness' description of the request fields that the
// balancer looks at.
type reqSpec struct {
	IP     []byte `json:"ip"` // raw bytes of ClientAddr.IP (4 or 16), nil = no client address
	Header string `json:"header_value,omitempty"`
	Cookie string `json:"cookie_value,omitempty"`
	URI    string `json:"uri,omitempty"`
	Retry  int    `json:"retry"`
}

func (q reqSpec) build(g gbasic) *bfe_basic.Request {
	req := new(bfe_basic.Request)
	req.HttpRequest = &bfe_http.Request{Header: bfe_http.Header{}, RequestURI: q.URI}
	if q.IP != nil {
		req.ClientAddr = &net.TCPAddr{IP: net.IP(q.IP), Port: 40000}
		req.RemoteAddr = req.ClientAddr
	}
	hdr, cookieKey := g.Header, ""
	if i := strings.Index(hdr, ":"); i >= 0 {
		cookieKey = strings.TrimSpace(hdr[i+1:])
	}
	if q.Header != "" && hdr != "" && cookieKey == "" {
		req.HttpRequest.Header.Set(hdr, q.Header)
	}
	if q.Cookie != "" && cookieKey != "" {
		req.HttpRequest.Header.Set("Cookie", cookieKey+"="+q.Cookie)
	}
	req.RetryTime = q.Retry
	return req
}

// hashKey is the harness' model of which bytes form the hash key, written
// from the documentation of HashStrategy/HashHeader (client id = the header's
// value, or the named cookie's value for "Cookie:Key"; ClientIdPreferred falls
// back to the client IP). nil means "no deterministic key" (bfe then uses a
// random one and nothing about determinism is asserted).
func (q reqSpec) hashKey(g gbasic) []byte {
	id := func() []byte {
		if i := strings.Index(g.Header, ":"); i >= 0 {
			if q.Cookie != "" && strings.TrimSpace(g.Header[i+1:]) != "" {
				return []byte(q.Cookie)
			}
			return nil
		}
		if q.Header != "" && g.Header != "" {
			return []byte(q.Header)
		}
		return nil
	}
	var k []byte
	switch g.Strategy {
	case cluster_conf.ClientIdOnly:
		k = id()
	case cluster_conf.ClientIpOnly:
		k = q.IP
	case cluster_conf.ClientIdPreferred:
		if k = id(); k == nil {
			k = q.IP
		}
	case cluster_conf.RequestURI:
		k = []byte(q.URI)
	}
	if len(k) == 0 {
		return nil
	}
	return k
}

var algNames = map[int]string{
	bal_slb.WrrSimple: "WrrSimple", bal_slb.WrrSmooth: "WrrSmooth", bal_slb.WrrSticky: "WrrSticky",
	bal_slb.WlcSimple: "WlcSimple", bal_slb.WlcSmooth: "WlcSmooth",
}

var bfeFrameRe = regexp.MustCompile(`github\.com/bfenetworks/bfe/([^\s(]+(?:\([^)]*\))?[^\s(]*)`)

// panicClass makes a short class out of a panic value so that different
// panics in the same function get different signatures.
func panicClass(e interface{}) string {
	s := fmt.Sprint(e)
	switch {
	case strings.Contains(s, "index out of range") && strings.Contains(s, "with length 0"):
		return "index-on-empty-list"
	case strings.Contains(s, "index out of range"):
		return "index-out-of-range"
	case strings.Contains(s, "close of closed channel"):
		return "close-of-closed-channel"
	case strings.Contains(s, "nil pointer"):
		return "nil-deref"
	case strings.Contains(s, "divide by zero"):
		return "divide-by-zero"
	case strings.Contains(s, "nil map"):
		return "nil-map-write"
	}
	return "other"
}

// try runs fn and converts a panic into a violation with signature
// panic:<innermost bfe frame>:<class>. It returns true if fn panicked.
func try(r *vkit.Run, desc func() interface{}, fn func()) (panicked bool) {
	defer func() {
		if e := recover(); e != nil {
			panicked = true
			st := debug.Stack()
			sig := panicSig(st) + ":" + panicClass(e)
			var w interface{}
			if desc != nil {
				w = desc()
			}
			stack := string(st)
			if len(stack) > 3000 {
				stack = stack[:3000]
			}
			r.Violation(sig, fmt.Sprintf("panic: %v", e), map[string]interface{}{"case": w, "panic": fmt.Sprint(e), "stack": stack})
		}
	}()
	fn()
	return false
}

func scratchDir() string {
	d := os.Getenv("VERIF_SCRATCH")
	if d == "" {
		d = filepath.Join(os.TempDir(), "vbal-scratch")
	}
	os.MkdirAll(d, 0o755)
	return d
}

// subByName finds a sub-cluster in a snapshot.
func subByName(s *bal_gslb.VerifGslb, name string) *bal_gslb.VerifSub {
	for i := range s.Subs {
		if s.Subs[i].Name == name {
			return &s.Subs[i]
		}
	}
	return nil
}

func eligible(b bal_slb.VerifBackend) bool { return b.Avail && b.Weight > 0 }

func anyEligible(rr *bal_slb.VerifRR) bool {
	for _, b := range rr.Backends {
		if eligible(b) {
			return true
		}
	}
	return false
}

// panicSig is the innermost bfe frame of a panic stack, with the receiver.
func panicSig(stack []byte) string {
	for _, l := range strings.Split(string(stack), "\n") {
		if strings.HasPrefix(l, "github.com/bfenetworks/bfe/") {
			f := strings.TrimPrefix(l, "github.com/bfenetworks/bfe/")
			if i := strings.LastIndex(f, "("); i > 0 {
				f = f[:i]
			}
			f = strings.TrimSuffix(f, ".func1")
			if i := strings.LastIndex(f, "/"); i >= 0 {
				f = f[i+1:]
			}
			f = strings.NewReplacer("(*", "", ")", "").Replace(f)
			return "panic:" + f
		}
	}
	return "panic:unknown"
}
