package main

import (
	"verifharness/vkit"
)

// Shared helpers for the RELOAD-HISTORY dimension of C01 and C02: a history is
// Init(conf0) followed by Updates (reloads), each classified by comparing the
// new backend list with the one before it. Backends are identified by
// addr:port, which is what bfe's reload matches on; in generated histories
// the name is a function of the address.

// Kinds of one reload step.
const (
	hkNoopSame    = "noop-same"    // identical list, identical order
	hkNoopReorder = "noop-reorder" // same (addr, weight) multiset, other order
	hkWeight      = "weight"       // only weights of surviving backends change
	hkAdd         = "add"          // only new backends
	hkRemove      = "remove"       // only backends removed
	hkReplace     = "replace"      // k removed, k added, list length unchanged
	hkMixed       = "mixed"        // anything else
)

var histKinds = []string{hkNoopSame, hkNoopReorder, hkWeight, hkAdd, hkRemove, hkReplace, hkMixed}

func histIsNoop(kind string) bool { return kind == hkNoopSame || kind == hkNoopReorder }

// histKind classifies the reload prev -> next.
func histKind(prev, next []bspec) string {
	pw := map[string]int{}
	for _, b := range prev {
		pw[b.addrInfo()] = b.Weight
	}
	nw := map[string]int{}
	added, changed := 0, 0
	for _, b := range next {
		nw[b.addrInfo()] = b.Weight
		if w, ok := pw[b.addrInfo()]; !ok {
			added++
		} else if w != b.Weight {
			changed++
		}
	}
	removed := 0
	for _, b := range prev {
		if _, ok := nw[b.addrInfo()]; !ok {
			removed++
		}
	}
	switch {
	case added == 0 && removed == 0 && changed == 0:
		if len(prev) == len(next) {
			same := true
			for i := range prev {
				if prev[i].addrInfo() != next[i].addrInfo() {
					same = false
				}
			}
			if same {
				return hkNoopSame
			}
		}
		return hkNoopReorder
	case added == 0 && removed == 0:
		return hkWeight
	case removed == 0 && changed == 0:
		return hkAdd
	case added == 0 && changed == 0:
		return hkRemove
	case added == removed && changed == 0:
		return hkReplace
	}
	return hkMixed
}

// histGen describes how a property generates backends for its histories.
type histGen struct {
	maxN      int
	fresh     func(g *vkit.Rand, cur []bspec) (bspec, bool) // a backend whose address is not in cur
	newWeight func(g *vkit.Rand, old int) int               // a weight different from old
}

func histCopy(bs []bspec) []bspec { return append([]bspec{}, bs...) }

func histShuffle(g *vkit.Rand, bs []bspec) []bspec {
	return permuted(bs, g.Perm(len(bs)))
}

func histPositive(bs []bspec) int {
	n := 0
	for _, b := range bs {
		if b.Weight > 0 {
			n++
		}
	}
	return n
}

// histMutate returns the list of the next reload, aiming at the wanted kind
// (the caller classifies the result with histKind: when the wanted kind is
// impossible, e.g. remove on a single backend, another kind results). The
// result always has at least one backend with a positive weight.
func histMutate(g *vkit.Rand, hg *histGen, cur []bspec, want string) []bspec {
	next := histCopy(cur)
	changeWeights := func() {
		k := g.Range(1, 2)
		for ; k > 0; k-- {
			i := g.Intn(len(next))
			next[i].Weight = hg.newWeight(g, next[i].Weight)
		}
	}
	add := func(k int) {
		for ; k > 0 && len(next) < hg.maxN; k-- {
			b, ok := hg.fresh(g, next)
			if !ok {
				return
			}
			// position in the configuration text is arbitrary
			i := g.Intn(len(next) + 1)
			next = append(next, bspec{})
			copy(next[i+1:], next[i:])
			next[i] = b
		}
	}
	remove := func(k int) {
		for ; k > 0 && len(next) > 1; k-- {
			i := g.Intn(len(next))
			next = append(next[:i], next[i+1:]...)
		}
	}
	switch want {
	case hkNoopSame:
		return next
	case hkNoopReorder:
		for try := 0; try < 4; try++ {
			next = histShuffle(g, cur)
			if histKind(cur, next) == hkNoopReorder {
				break
			}
		}
		return next
	case hkWeight:
		changeWeights()
	case hkAdd:
		add(g.Range(1, 2))
	case hkRemove:
		remove(g.Range(1, 2))
	case hkReplace:
		k := g.Range(1, 2)
		if k > len(next) {
			k = len(next)
		}
		// remove k (possibly all) and add k others
		for j := 0; j < k; j++ {
			b, ok := hg.fresh(g, append(histCopy(next), cur...))
			if !ok {
				break
			}
			i := g.Intn(len(next))
			if g.Bool() {
				next[i] = b // takes the position of the removed one in the text
			} else {
				next = append(next[:i], next[i+1:]...)
				next = append(next, b)
			}
		}
	default: // mixed
		changeWeights()
		if g.Bool() {
			add(1)
		} else {
			remove(1)
		}
		if g.Chance(1, 3) {
			add(1)
		}
	}
	if g.Chance(1, 3) {
		next = histShuffle(g, next)
	}
	if histPositive(next) == 0 {
		next[g.Intn(len(next))].Weight = g.Range(1, 4)
	}
	return next
}

// histWant draws the wanted kind of the next reload.
func histWant(g *vkit.Rand) string {
	return histKinds[g.Intn(len(histKinds))]
}
