package main

import (
	"bytes"
	"fmt"
	"net"
	"net/url"
	"os"
	"path/filepath"
	"sync"

	"github.com/baidu/go-lib/log"
	"github.com/baidu/go-lib/web-monitor/web_monitor"

	"github.com/bfenetworks/bfe/bfe_basic"
	"github.com/bfenetworks/bfe/bfe_bufio"
	"github.com/bfenetworks/bfe/bfe_http"
	"github.com/bfenetworks/bfe/bfe_module"
)

var logOnce sync.Once

// scratch returns the per-run scratch directory (bin/check sets VERIF_SCRATCH
// and removes it afterwards).
func scratch() string {
	d := os.Getenv("VERIF_SCRATCH")
	if d == "" {
		d = filepath.Join(os.TempDir(), fmt.Sprintf("vmods.%d", os.Getpid()))
	}
	os.MkdirAll(d, 0o755)
	return d
}

// initLog initialises baidu/go-lib/log once; bfe modules log through it.
func initLog() {
	logOnce.Do(func() {
		d := filepath.Join(scratch(), "log")
		os.MkdirAll(d, 0o755)
		if err := log.Init("vmods", "ERROR", d, false, "M", 2); err != nil {
			fmt.Fprintln(os.Stderr, "log.Init:", err)
		}
	})
}

// writeFile writes a file below dir, creating parents.
func writeFile(path string, data []byte) {
	os.MkdirAll(filepath.Dir(path), 0o755)
	if err := os.WriteFile(path, data, 0o644); err != nil {
		panic(err)
	}
}

// parseReq reads a raw HTTP/1 request with bfe's own request reader, exactly
// as the server does, and wraps it into a bfe_basic.Request.
func parseReq(raw []byte) (*bfe_basic.Request, error) {
	hr, err := bfe_http.ReadRequest(bfe_bufio.NewReader(bytes.NewReader(raw)), 1<<20)
	if err != nil {
		return nil, err
	}
	return wrapReq(hr), nil
}

func wrapReq(hr *bfe_http.Request) *bfe_basic.Request {
	sess := bfe_basic.NewSession(nil)
	sess.RemoteAddr = &net.TCPAddr{IP: net.IPv4(192, 0, 2, 1).To4(), Port: 40000}
	req := bfe_basic.NewRequest(hr, nil, bfe_basic.NewRequestStat(sess.StartTime), sess, nil)
	req.Route.Product = "pn"
	return req
}

// modEnv is the callback/web-handler environment one module was initialised into.
type modEnv struct {
	cbs *bfe_module.BfeCallbacks
	whs *web_monitor.WebHandlers
}

func newModEnv() *modEnv {
	return &modEnv{cbs: bfe_module.NewBfeCallbacks(), whs: web_monitor.NewWebHandlers()}
}

// reload calls the module's registered reload handler with ?path=<p>.
func (e *modEnv) reload(name, path string) error {
	h, ok := (*e.whs.Handlers[web_monitor.WebHandleReload])[name]
	if !ok {
		return fmt.Errorf("no reload handler %q", name)
	}
	q := url.Values{}
	if path != "" {
		q.Set("path", path)
	}
	switch f := h.(type) {
	case func(url.Values) error:
		return f(q)
	case func(map[string][]string) error:
		return f(q)
	case func() error:
		return f()
	case func(url.Values) (string, error):
		_, err := f(q)
		return err
	}
	return fmt.Errorf("reload handler %q has unexpected type %T", name, h)
}

func (e *modEnv) request(point int, req *bfe_basic.Request) (int, *bfe_http.Response) {
	return e.cbs.GetHandlerList(point).FilterRequest(req)
}

func (e *modEnv) response(point int, req *bfe_basic.Request, res *bfe_http.Response) int {
	return e.cbs.GetHandlerList(point).FilterResponse(req, res)
}
