// TEMPORARY development binary for C50 only; its c50*.go files are merged into cmd/vmods by the domain author.
package main

import (
	"fmt"
	"os"

	"verifharness/vkit"
)

func main() {
	r := vkit.Start("exploration")
	initLog()
	switch r.Prop {
	case "C50":
		c50(r)
	default:
		fmt.Fprintln(os.Stderr, "unknown property", r.Prop)
		os.Exit(vkit.ExitInconclusive)
	}
	r.Finish()
}
