package main

import (
	"fmt"
	"sort"
	"strings"
	"sync/atomic"

	"verifharness/ref/hpackx"
	"verifharness/vkit"
)

// C30, boundary-directed part. Every integer bfe's HPACK encoder writes goes
// through one serialiser (RFC 7541 5.1, N-bit prefix + 7-bit continuation
// groups). The random workload of c30.go practically never produces the values
// at which that encoding changes shape (2^N-1, 2^N-1+128, 2^N-1+16384, ...), so
// this file generates, for EVERY integer site of the encoder, header-list /
// size-update histories that force those values and sweeps whole ranges where
// that is cheap. The oracle is c30Run, unchanged.
//
// Integer sites of bfe's encoder (prefix N):
//   indexed field (7), name index of a literal with incremental indexing (6),
//   without indexing (4: not sensitive, entry larger than the table) and never
//   indexed (4: sensitive), dynamic table size update (5), and the string length
//   (7) of a new name / of a value, each sent raw or Huffman coded (the encoder
//   picks Huffman iff that is strictly shorter; the length written is then the
//   ENCODED length).
//
// What was actually written is observed, not assumed: the RFC model reports
// every integer it parses out of the emitted stream (hpackx.Decoder.IntHook).

// deltas relative to the prefix maximum 2^N-1
var c30bDeltas = []int64{-1, 0, 1, 127, 128, 129, 255, 256, 16383, 16384, 16385, 2097151, 2097152}

var c30bSites = []string{hpackx.SiteIndexed, hpackx.SiteNameIdxIncr, hpackx.SiteNameIdxWithout, hpackx.SiteNameIdxNever, hpackx.SiteSizeUpdate,
	hpackx.SiteNameLenRaw, hpackx.SiteNameLenHuffman, hpackx.SiteValueLenRaw, hpackx.SiteValueLenHuffman}

const c30bSeenMax = 21000 // values below this are recorded individually per site

type c30bObs struct {
	cell     [][]int64  // [site][delta] integers observed with exactly that value
	seen     [][]uint32 // [site][value] != 0 once observed
	multi    []int64    // integers of >= 2 octets per site
	total    []int64
	siteIdx  map[string]int
	deltaIdx map[int64]int
}

var c30bO = func() *c30bObs {
	o := &c30bObs{siteIdx: map[string]int{}, deltaIdx: map[int64]int{}}
	for i, s := range c30bSites {
		o.siteIdx[s] = i
		o.cell = append(o.cell, make([]int64, len(c30bDeltas)))
		o.seen = append(o.seen, make([]uint32, c30bSeenMax))
	}
	for i, d := range c30bDeltas {
		o.deltaIdx[d] = i
	}
	o.multi = make([]int64, len(c30bSites))
	o.total = make([]int64, len(c30bSites))
	return o
}()

// c30bObserve is the IntHook of every bfe-encoder run (both workloads).
func c30bObserve(site string, prefix uint8, v uint64) {
	o := c30bO
	si, ok := o.siteIdx[site]
	if !ok {
		return
	}
	atomic.AddInt64(&o.total[si], 1)
	k := uint64(1)<<prefix - 1
	if v >= k {
		atomic.AddInt64(&o.multi[si], 1)
	}
	if di, ok := o.deltaIdx[int64(v)-int64(k)]; ok {
		atomic.AddInt64(&o.cell[si][di], 1)
	}
	if v < c30bSeenMax {
		atomic.StoreUint32(&o.seen[si][v], 1)
	}
}

// ---------------------------------------------------------------- strings

var c30bShort, c30bLong, c30bFive []byte // octets whose Huffman code has <= 7 bits / >= 8 bits / exactly 5 bits
var c30bBits [256]int

func init() {
	for c := 0; c < 256; c++ {
		_, n := hpackx.HuffCodeOf(c)
		c30bBits[c] = int(n)
		if n <= 7 {
			c30bShort = append(c30bShort, byte(c))
		} else {
			c30bLong = append(c30bLong, byte(c))
		}
		if n == 5 {
			c30bFive = append(c30bFive, byte(c))
		}
	}
}

// c30bRaw returns a string of L octets whose Huffman coding is not shorter
// (every octet has a code of >= 8 bits), so the encoder sends it raw.
func c30bRaw(g *vkit.Rand, L int) string {
	if L <= 0 {
		return ""
	}
	if L > 4096 || g.Chance(1, 3) {
		// one octet repeated, a different one per string
		return strings.Repeat(string([]byte{c30bLong[g.Intn(len(c30bLong))]}), L)
	}
	b := make([]byte, L)
	for i := range b {
		b[i] = c30bLong[g.Intn(len(c30bLong))]
	}
	return string(b)
}

// c30bHuff returns a string whose Huffman coding is exactly L octets long and
// (for L >= 2) strictly shorter than the string, so the encoder sends it
// Huffman coded with length L. Built from octets with 5..7 bit codes.
func c30bHuff(g *vkit.Rand, L int) string {
	if L <= 0 {
		return ""
	}
	five := c30bFive
	bits, limit := 0, 8*L
	var sb strings.Builder
	if L > 4096 {
		// long strings: mostly one 5-bit octet (cheap), random tail
		c := five[g.Intn(len(five))]
		n := (limit - 64) / 5
		sb.WriteString(strings.Repeat(string([]byte{c}), n))
		bits = 5 * n
	}
	for {
		c := c30bShort[g.Intn(len(c30bShort))]
		n := c30bBits[c]
		if bits+n > limit {
			c = five[g.Intn(len(five))]
			n = 5
			if bits+5 > limit {
				break
			}
		}
		sb.WriteByte(c)
		bits += n
	}
	return sb.String() // limit-5 < bits <= limit: ceil(bits/8) == L
}

func c30bStr(g *vkit.Rand, L int, huff bool) string {
	if huff {
		return c30bHuff(g, L)
	}
	return c30bRaw(g, L)
}

// ---------------------------------------------------------------- case builders

// c30bCase is one directed history, generated inside the worker that runs it.
type c30bCase struct {
	fam    string
	weight int // rough cost, only for scheduling (heavy first)
	gen    func() *c30Case
}

func c30bFixed(fam string, c *c30Case) c30bCase {
	return c30bCase{fam, 0, func() *c30Case { return c }}
}

func c30bBlock(fs ...c30F) c30Op { return c30Op{Kind: "block", Fields: fs} }

// c30bTable opens a history with a dynamic table of T octets on both sides.
func c30bTable(T uint32) []c30Op {
	if T <= 4096 {
		return []c30Op{{Kind: "announce", V: T}}
	}
	return []c30Op{{Kind: "limit", V: T}, {Kind: "announce", V: T}}
}

// c30bFillName is the i-th (0-based) name of a table fill: unique, not a static
// table name ("q" prefix), fixed length so that entry sizes are uniform.
func c30bFillName(pfx byte, i int) string {
	const a = "abcdefghijklmnopqrstuvwxyz"
	return string([]byte{'q', pfx, a[i/676%26], a[i/26%26], a[i%26]})
}

const c30bFillEntry = 32 + 5 // size of a fill entry (empty value)

// c30bStringCases: histories whose fields carry one string (name or value,
// raw or Huffman) of each length in lens.
func c30bStringCases(r *vkit.Run, fam string, name, huff bool, lens []int, per int, out *[]c30bCase) {
	for lo := 0; lo < len(lens); lo += per {
		hi := lo + per
		if hi > len(lens) {
			hi = len(lens)
		}
		part, w := lens[lo:hi], 0
		for _, L := range part {
			w += L
		}
		*out = append(*out, c30bCase{fam, w, func() *c30Case { return c30bStringCase(r, fam, name, huff, part, len(lens)) }})
	}
}

func c30bStringCase(r *vkit.Run, fam string, name, huff bool, part []int, total int) *c30Case {
	{
		g := r.Rng("c30b-"+fam, part[0], part[len(part)-1], total)
		c := &c30Case{}
		for k, L := range part {
			s := c30bStr(g, L, huff)
			var f c30F
			if name {
				f = c30F{N: s, V: []string{"", "v", "0123456789"}[g.Intn(3)]}
			} else {
				f = c30F{N: []string{":path", "x-k", "cookie", fmt.Sprintf("n%d", L)}[g.Intn(4)], V: s}
			}
			f.S = (k+L)%4 == 0
			op := c30bBlock(f)
			if g.Chance(1, 4) {
				op.Fields = append(op.Fields, c30F{N: "x-after", V: "1"}) // something must still decode after the string
			}
			c.Ops = append(c.Ops, op)
		}
		return c
	}
}

// c30bSizeCases: one size update per block for every value in vals (in that
// order); double additionally announces two sizes before a block so that the
// encoder emits the minimum and the final size.
func c30bSizeCases(r *vkit.Run, fam string, vals []uint32, per int, out *[]c30bCase) {
	for lo := 0; lo < len(vals); lo += per {
		hi := lo + per
		if hi > len(vals) {
			hi = len(vals)
		}
		g := r.Rng("c30b-"+fam, lo, len(vals))
		c := &c30Case{}
		var mx uint32
		for _, v := range vals[lo:hi] {
			if v > mx {
				mx = v
			}
		}
		if mx > 4096 {
			c.Ops = append(c.Ops, c30Op{Kind: "limit", V: mx})
		}
		for k, v := range vals[lo:hi] {
			c.Ops = append(c.Ops, c30Op{Kind: "announce", V: v})
			f := c30F{N: c30bFillName('s', lo+k), V: []string{"", "1", "custom-value"}[g.Intn(3)], S: g.Chance(1, 8)}
			op := c30bBlock(f)
			if g.Chance(1, 3) {
				op.Fields = append(op.Fields, c30F{N: c30bFillName('s', g.Intn(lo+k+1)), V: "1"})
			}
			c.Ops = append(c.Ops, op)
		}
		*out = append(*out, c30bFixed(fam, c))
	}
}

func c30bSizePairs(fam string, vals []uint32, out *[]c30bCase) {
	// [limit] announce(a) announce(b) block, a < b: the stream carries update(a) update(b)
	for i := 0; i+1 < len(vals); i++ {
		a, b := vals[i], vals[i+1]
		if a > b {
			a, b = b, a
		}
		if a == b {
			continue
		}
		c := &c30Case{}
		if b > 4096 {
			c.Ops = append(c.Ops, c30Op{Kind: "limit", V: b})
		}
		c.Ops = append(c.Ops, c30bBlock(c30F{N: "x-pre", V: "1"}), // non-empty table before the two updates
			c30Op{Kind: "announce", V: a}, c30Op{Kind: "announce", V: b},
			c30bBlock(c30F{N: "x-post", V: "2"}, c30F{N: "x-pre", V: "1"}),
			c30bBlock(c30F{N: "x-post", V: "2"}))
		*out = append(*out, c30bFixed(fam, c))
	}
}

// c30bIndexCase: a table of exactly p uniform entries with unique names, then
// the oldest entry (position p, index 61+p) is referenced by each of the four
// index-carrying representations, then the same at a second position q.
func c30bIndexCase(g *vkit.Rand, p, q int, T uint32) *c30Case {
	pfx := "abcdefghijklmnopqrstuvwxyz"[g.Intn(26)]
	c := &c30Case{Ops: c30bTable(T)}
	fill := c30Op{Kind: "block"}
	for i := 0; i < p; i++ {
		fill.Fields = append(fill.Fields, c30F{N: c30bFillName(pfx, i)})
	}
	c.Ops = append(c.Ops, fill)
	over := strings.Repeat("w", int(T))                         // entry size > T: never enters the table, sent "without indexing"
	pos := func(k int) string { return c30bFillName(pfx, p-k) } // name at position k (1 = newest) before any insertion
	c.Ops = append(c.Ops,
		c30bBlock(c30F{N: pos(p), V: "s", S: true}), // never indexed, name index 61+p
		c30bBlock(c30F{N: pos(p)}),                  // indexed 61+p
		c30bBlock(c30F{N: pos(p), V: over}),         // without indexing, name index 61+p
		c30bBlock(c30F{N: pos(p), V: "n"}))          // incremental indexing, name index 61+p; table now p+1 entries
	if q >= 1 && q < p {
		// after one insertion the entry formerly at q stands at q+1
		c.Ops = append(c.Ops, c30bBlock(c30F{N: pos(q), V: "s2", S: true}, c30F{N: pos(q)}, c30F{N: pos(q), V: "n2"}))
	}
	return c
}

// c30bBigTable: one table of M entries; positions for the 16383..16385 deltas
// of the 7-, 6- and 4-bit sites are referenced in a few blocks.
func c30bBigTable(g *vkit.Rand) *c30Case {
	const M = 16385 + 127 + 8
	T := uint32(1 << 20)
	pfx := "abcdefghijklmnopqrstuvwxyz"[g.Intn(26)]
	c := &c30Case{Ops: c30bTable(T)}
	fill := c30Op{Kind: "block"}
	for i := 0; i < M; i++ {
		fill.Fields = append(fill.Fields, c30F{N: c30bFillName(pfx, i)})
	}
	c.Ops = append(c.Ops, fill)
	orig := func(pos int) string { return c30bFillName(pfx, M-pos) } // name at position pos of the filled table
	var idx7, never4, without4 c30Op
	idx7.Kind, never4.Kind, without4.Kind = "block", "block", "block"
	over := strings.Repeat("W", int(T))
	for _, d := range []int{16383, 16384, 16385} {
		idx7.Fields = append(idx7.Fields, c30F{N: orig(127 + d - 61)})
		never4.Fields = append(never4.Fields, c30F{N: orig(15 + d - 61), V: "s", S: true})
		without4.Fields = append(without4.Fields, c30F{N: orig(15 + d - 61), V: over})
	}
	c.Ops = append(c.Ops, idx7, never4, without4)
	incr := c30Op{Kind: "block"}
	for t, d := range []int{16385, 16384, 16383} {
		// t insertions so far: the entry now at position 63+d-61 was filled at position 63+d-61-t
		incr.Fields = append(incr.Fields, c30F{N: orig(63 + d - 61 - t), V: fmt.Sprintf("n%d", t)})
	}
	c.Ops = append(c.Ops, incr)
	return c
}

func c30bStaticCase() *c30Case {
	c := &c30Case{}
	over := strings.Repeat("o", 4096)
	for i, st := range hpackx.Static {
		c.Ops = append(c.Ops, c30bBlock(
			c30F{N: st.Name, V: st.Value},                           // indexed i+1 (or a literal naming the first entry of that name)
			c30F{N: st.Name, V: fmt.Sprintf("s-%d", i), S: true},    // never indexed
			c30F{N: st.Name, V: over},                               // without indexing
			c30F{N: st.Name, V: fmt.Sprintf("unique-value-%d", i)})) // incremental
	}
	return c
}

// c30bMix: seeded histories that combine the building blocks in one context.
func c30bMix(r *vkit.Run, i int) *c30Case {
	g := r.Rng("c30b-mix", i)
	T := []uint32{4096, 16384, 65536, 70000}[g.Intn(4)]
	c := &c30Case{Ops: c30bTable(T)}
	pfx := "abcdefghijklmnopqrstuvwxyz"[g.Intn(26)]
	// generator-side model of the table (names newest first); it only steers the
	// choice of fields, the oracle never sees it
	type ent struct {
		n, v string
	}
	var tab []ent
	size, max := uint64(0), uint64(T)
	evict := func() {
		for size > max && len(tab) > 0 {
			e := tab[len(tab)-1]
			size -= uint64(len(e.n)+len(e.v)) + 32
			tab = tab[:len(tab)-1]
		}
	}
	add := func(n, v string) {
		sz := uint64(len(n)+len(v)) + 32
		if sz > max {
			return
		}
		size += sz
		tab = append([]ent{{n, v}}, tab...)
		evict()
	}
	nfill := 0
	bpos := []int{1, 2, 3, 65, 66, 67, 80, 81, 82, 83, 129, 130, 131, 193, 194, 195, 257, 258, 259, 321, 322, 323}
	blen := []int{126, 127, 128, 254, 255, 256, 382, 383, 16510, 16511, 16512}
	bsize := []uint32{30, 31, 32, 158, 159, 160, 286, 287, 16414, 16415, 16416}
	steps := 3 + g.Intn(10)
	for s := 0; s < steps; s++ {
		switch g.Intn(6) {
		case 0: // fill up to a boundary position
			want := bpos[g.Intn(len(bpos))] + g.Intn(3)
			op := c30Op{Kind: "block"}
			for len(tab) < want && size+c30bFillEntry <= max && len(op.Fields) < 400 {
				n := c30bFillName(pfx, nfill)
				nfill++
				op.Fields = append(op.Fields, c30F{N: n})
				add(n, "")
			}
			if len(op.Fields) > 0 {
				c.Ops = append(c.Ops, op)
			}
		case 1, 2: // reference boundary positions
			op := c30Op{Kind: "block"}
			for k := 1 + g.Intn(3); k > 0 && len(tab) > 0; k-- {
				p := bpos[g.Intn(len(bpos))]
				if p > len(tab) || g.Chance(1, 4) {
					p = len(tab) - g.Intn(2)
					if p < 1 {
						p = 1
					}
				}
				e := tab[p-1]
				switch g.Intn(4) {
				case 0:
					op.Fields = append(op.Fields, c30F{N: e.n, V: e.v})
				case 1:
					op.Fields = append(op.Fields, c30F{N: e.n, V: "sens", S: true})
				case 2:
					v := fmt.Sprintf("i%d", s*8+k)
					op.Fields = append(op.Fields, c30F{N: e.n, V: v})
					add(e.n, v)
				case 3:
					if T <= 16384 {
						op.Fields = append(op.Fields, c30F{N: e.n, V: strings.Repeat("w", int(max))})
					}
				}
			}
			if len(op.Fields) > 0 {
				c.Ops = append(c.Ops, op)
			}
		case 3: // table size change to a boundary value
			v := bsize[g.Intn(len(bsize))]
			if g.Chance(1, 3) {
				v = T
			}
			if v > T {
				v = T
			}
			c.Ops = append(c.Ops, c30Op{Kind: "announce", V: v})
			max = uint64(v)
			evict()
			n := c30bFillName(pfx, nfill)
			nfill++
			c.Ops = append(c.Ops, c30bBlock(c30F{N: n}))
			add(n, "")
		default: // boundary-length string
			L := blen[g.Intn(len(blen))]
			huff, name := g.Bool(), g.Chance(1, 3)
			str := c30bStr(g, L, huff)
			f := c30F{N: "x-str", V: str, S: g.Chance(1, 4)}
			if name {
				f = c30F{N: str, V: "v", S: g.Chance(1, 4)}
			}
			c.Ops = append(c.Ops, c30bBlock(f))
			if !f.S {
				add(f.N, f.V)
			}
		}
	}
	return c
}

func c30bRange(lo, hi int) []int {
	var v []int
	for i := lo; i <= hi; i++ {
		v = append(v, i)
	}
	return v
}

func c30bU32(xs []int) []uint32 {
	v := make([]uint32, len(xs))
	for i, x := range xs {
		v[i] = uint32(x)
	}
	return v
}

// c30bBoundary lists 2^N-1+delta for the deltas up to maxDelta (and >= 0).
func c30bBoundary(prefix uint, maxDelta int64) []int {
	var v []int
	for _, d := range c30bDeltas {
		if x := int64(1)<<prefix - 1 + d; d <= maxDelta && x >= 0 {
			v = append(v, int(x))
		}
	}
	return v
}

type c30bPlan struct {
	strSmallHi, strBandLo, strBandHi int // string length sweeps 0..strSmallHi and strBandLo..strBandHi
	sizeHi                           int // size update sweep 0..sizeHi
	sizeBandLo, sizeBandHi           int
	idxHi                            int // dynamic positions 1..idxHi
	idxT                             uint32
	mix                              int
}

func c30bPlanOf(r *vkit.Run) c30bPlan {
	if r.Quick() {
		return c30bPlan{600, 16000, 17000, 4096, 16300, 16500, 400, 16384, 400}
	}
	return c30bPlan{4200, 15800, 17200, 20000, 16300, 16500, 1100, 65536, 12000}
}

func c30bCases(r *vkit.Run) []c30bCase {
	pl := c30bPlanOf(r)
	var out []c30bCase
	// strings: every length in two bands plus the boundary lengths up to 2 MiB
	for _, site := range []struct {
		fam        string
		name, huff bool
	}{{"value-raw", false, false}, {"value-huffman", false, true}, {"name-raw", true, false}, {"name-huffman", true, true}} {
		c30bStringCases(r, "len-sweep:"+site.fam, site.name, site.huff, c30bRange(0, pl.strSmallHi), 32, &out)
		c30bStringCases(r, "len-sweep:"+site.fam, site.name, site.huff, c30bRange(pl.strBandLo, pl.strBandHi), 8, &out)
		var big, small []int
		for _, L := range c30bBoundary(7, 1<<40) {
			if L > 100000 {
				near := []int{L}
				if !r.Quick() {
					near = []int{L - 1, L, L + 1}
				}
				for _, x := range near {
					if len(big) == 0 || big[len(big)-1] < x {
						big = append(big, x)
					}
				}
			} else {
				small = append(small, L)
			}
		}
		c30bStringCases(r, "len-boundary:"+site.fam, site.name, site.huff, small, 4, &out)
		c30bStringCases(r, "len-boundary:"+site.fam, site.name, site.huff, big, 1, &out)
	}
	// table size updates: every size 0..sizeHi ascending, descending and permuted; band around 16383+31; boundaries up to 2 MiB
	asc := c30bRange(0, pl.sizeHi)
	desc := make([]int, len(asc))
	for i, v := range asc {
		desc[len(asc)-1-i] = v
	}
	perm := make([]int, len(asc))
	for i, j := range r.Rng("c30b-size-perm").Perm(len(asc)) {
		perm[i] = asc[j]
	}
	c30bSizeCases(r, "size-sweep:ascending", c30bU32(asc), 64, &out)
	c30bSizeCases(r, "size-sweep:descending", c30bU32(desc), 64, &out)
	c30bSizeCases(r, "size-sweep:permuted", c30bU32(perm), 64, &out)
	c30bSizeCases(r, "size-sweep:band", c30bU32(c30bRange(pl.sizeBandLo, pl.sizeBandHi)), 32, &out)
	sb := c30bU32(c30bBoundary(5, 1<<40))
	c30bSizeCases(r, "size-boundary", sb, 4, &out)
	rev := make([]uint32, len(sb))
	for i, v := range sb {
		rev[len(sb)-1-i] = v
	}
	c30bSizeCases(r, "size-boundary", rev, 4, &out)
	c30bSizePairs("size-boundary:min-then-final", sb, &out)
	// indices: every dynamic position 1..idxHi, the static table, one 16.5k-entry table
	for p := 1; p <= pl.idxHi; p++ {
		p := p
		out = append(out, c30bCase{"index-sweep", 8 * p * p, func() *c30Case {
			g := r.Rng("c30b-index", p)
			return c30bIndexCase(g, p, 1+g.Intn(p), pl.idxT)
		}})
	}
	out = append(out, c30bFixed("index-static", c30bStaticCase()))
	out = append(out, c30bCase{"index-16k-table", 1 << 40, func() *c30Case { return c30bBigTable(r.Rng("c30b-big")) }})
	for i := 0; i < pl.mix; i++ {
		i := i
		out = append(out, c30bCase{"mix", 20000, func() *c30Case { return c30bMix(r, i) }})
	}
	return out
}

var c30bSampled int64

func c30bKey(c *c30Case) uint64 {
	parts := make([]string, 0, 64)
	for _, op := range c.Ops {
		parts = append(parts, op.Kind, fmt.Sprint(op.V))
		for _, f := range op.Fields {
			parts = append(parts, f.N, f.V, fmt.Sprint(f.S))
		}
	}
	return vkit.Hash64(parts...)
}

// c30bCheck runs one directed history through the unchanged oracle.
func c30bCheck(r *vkit.Run, bc c30bCase) {
	c := bc.gen()
	multi := int64(0)
	obs := func(site string, prefix uint8, v uint64) {
		if v >= uint64(1)<<prefix-1 {
			multi++
		}
		c30bObserve(site, prefix, v)
	}
	c30C.add("directed_cases:"+bc.fam, 1)
	if r.Try(func() interface{} { return c }, func() { c30Run(r, c, "bfe", obs) }) {
		return
	}
	if r.Try(func() interface{} { return c }, func() { c30Run(r, c, "xnet", nil) }) {
		return
	}
	r.Case(c30bKey(c), multi > 0)
	if multi > 0 {
		c30C.add("directed_cases_with_multi_octet_integer", 1)
	}
	if multi > 0 && len(c.Ops) <= 12 && atomic.AddInt64(&c30bSampled, 1) <= 3 {
		// shape only: the strings of these histories are up to 2 MiB long
		var ops []string
		for _, op := range c.Ops {
			d := fmt.Sprintf("%s(%d)", op.Kind, op.V)
			if op.Kind == "block" {
				d = "block"
				for _, f := range op.Fields {
					d += fmt.Sprintf(" [name %d octets, value %d octets, sensitive=%v]", len(f.N), len(f.V), f.S)
				}
			}
			ops = append(ops, d)
		}
		r.Sample(map[string]interface{}{"directed_family": bc.fam, "multi_octet_integers_in_bfe_stream": multi, "ops": ops})
	}
}

// c30bRequired lists, per site, the deltas whose value the directed workload
// is built to reach.
func c30bRequired(site string) []int64 {
	switch site {
	case hpackx.SiteIndexed, hpackx.SiteNameIdxIncr:
		// 2^N-1+2097151 would need a table of 2 million entries (bfe's encoder searches it linearly per field): not generated
		return []int64{-1, 0, 1, 127, 128, 129, 255, 256, 16383, 16384, 16385}
	case hpackx.SiteNameIdxWithout, hpackx.SiteNameIdxNever:
		// 2^4-2 = 14 is ":status 500": the encoder names ":status" by its first entry (8), so 14 is never written
		return []int64{0, 1, 127, 128, 129, 255, 256, 16383, 16384, 16385}
	}
	return c30bDeltas
}

func c30bFinish(r *vkit.Run, replay bool) {
	o := c30bO
	matrix := map[string]map[string]int64{}
	var missing []string
	cells, hit := 0, 0
	for si, site := range c30bSites {
		m := map[string]int64{"_integers": atomic.LoadInt64(&o.total[si]), "_multi_octet": atomic.LoadInt64(&o.multi[si])}
		req := map[int64]bool{}
		for _, d := range c30bRequired(site) {
			req[d] = true
		}
		for di, d := range c30bDeltas {
			n := atomic.LoadInt64(&o.cell[si][di])
			m[fmt.Sprintf("max%+d", d)] = n
			if req[d] {
				cells++
				if n > 0 {
					hit++
				} else {
					missing = append(missing, fmt.Sprintf("%s=2^N-1%+d", site, d))
				}
			}
		}
		matrix[site] = m
	}
	r.Extra("c30_integer_boundary_matrix", matrix)
	r.Count("boundary_cells_required", int64(cells))
	r.Count("boundary_cells_observed", int64(hit))
	if replay {
		return
	}
	pl := c30bPlanOf(r)
	type rng struct {
		site   string
		lo, hi int
	}
	var sweeps []rng
	for _, s := range []string{hpackx.SiteValueLenRaw, hpackx.SiteNameLenRaw} {
		sweeps = append(sweeps, rng{s, 0, pl.strSmallHi}, rng{s, pl.strBandLo, pl.strBandHi})
	}
	for _, s := range []string{hpackx.SiteValueLenHuffman, hpackx.SiteNameLenHuffman} {
		// one octet cannot be Huffman coded shorter than itself: encoded lengths 0 and 1 do not occur
		sweeps = append(sweeps, rng{s, 2, pl.strSmallHi}, rng{s, pl.strBandLo, pl.strBandHi})
	}
	sweeps = append(sweeps, rng{hpackx.SiteSizeUpdate, 0, pl.sizeHi}, rng{hpackx.SiteSizeUpdate, pl.sizeBandLo, pl.sizeBandHi},
		rng{hpackx.SiteIndexed, 1, 61 + pl.idxHi}, rng{hpackx.SiteNameIdxIncr, 62, 61 + pl.idxHi},
		rng{hpackx.SiteNameIdxNever, 62, 61 + pl.idxHi}, rng{hpackx.SiteNameIdxWithout, 62, 61 + pl.idxHi})
	swept, sweptMissing := int64(0), 0
	for _, s := range sweeps {
		si := o.siteIdx[s.site]
		first := -1
		for v := s.lo; v <= s.hi && v < c30bSeenMax; v++ {
			if atomic.LoadUint32(&o.seen[si][v]) != 0 {
				swept++
			} else {
				sweptMissing++
				if first < 0 {
					first = v
				}
			}
		}
		if first >= 0 {
			missing = append(missing, fmt.Sprintf("%s sweep %d..%d (first missing value %d)", s.site, s.lo, s.hi, first))
		}
	}
	r.Count("sweep_values_observed", swept)
	r.Count("sweep_values_missing", int64(sweptMissing))
	if len(missing) > 0 {
		sort.Strings(missing)
		if len(missing) > 12 {
			missing = append(missing[:12], fmt.Sprintf("... %d more", len(missing)-12))
		}
		r.Inconclusive("bfe's encoder never wrote these integers, which the directed workload is built to force: " + strings.Join(missing, "; "))
	}
}

const c30bRule = " BOUNDARY-DIRECTED PART (c30b.go; same oracle, same three observers): every integer bfe's encoder writes - indexed field (7-bit prefix), name index of a literal with incremental indexing (6) / without indexing (4; not sensitive, entry larger than the table) / never indexed (4; sensitive), dynamic table size update (5), length of a new name and of a value sent raw or Huffman coded (7; Huffman strings are built so that their ENCODED length is the target and is strictly shorter than the string, raw strings from octets with >= 8-bit codes) - is forced to 2^N-1+{-1,0,1,127,128,129,255,256,16383,16384,16385,2097151,2097152} and swept: every string length 0..600 and 16000..17000 (thorough 0..4200, 15800..17200) x {name,value} x {raw,Huffman}; every table size update 0..4096 (thorough 0..20000) ascending, descending and in seeded order, 16300..16500, the boundary string lengths up to 2 MiB+127 (thorough also +-1 around the 2 MiB ones); the boundary sizes up to 2 MiB+31 singly and as minimum-then-final pairs (SETTINGS_HEADER_TABLE_SIZE and the encoder's limit raised accordingly); every dynamic-table position 1..400 (thorough 1..1100; table of uniform 37-octet entries with unique names, SETTINGS 16384/65536) referenced as indexed field, never-indexed name, without-indexing name (value longer than the table) and incremental-indexing name, plus a second seeded position; all 61 static entries the same four ways; one table of 16520 entries for the 16383..16385 deltas of the index sites; 400 (thorough 12000) seeded histories mixing these steps in one context. Not generated: index values 2^N-1+2097151.. (2 million table entries, bfe's encoder searches linearly) and name index 14 (':status' is always named by entry 8). What was written is OBSERVED: the RFC model reports each integer parsed from bfe's emitted stream; the run is inconclusive if a required boundary value or any value of a sweep never appeared. Directed history non-trivial = bfe's stream carried >= 1 integer of >= 2 octets."

func c30b(r *vkit.Run) {
	cases := c30bCases(r)
	// big cases first so that they overlap with the many small ones
	sort.SliceStable(cases, func(i, j int) bool { return cases[i].weight > cases[j].weight })
	vkit.Parallel(len(cases), 0, func(i int) { c30bCheck(r, cases[i]) })
}
