package main

import (
	"bytes"
	"encoding/hex"
	"encoding/json"
	"fmt"
	"io"
	"strings"
	"sync"

	b2 "github.com/bfenetworks/bfe/bfe_http2"
	bh "github.com/bfenetworks/bfe/bfe_http2/hpack"
	x2 "golang.org/x/net/http2"

	"verifharness/ref/h2frame"
	"verifharness/vkit"
)

// C32 part 1: every frame bfe's Framer writes is read back with identical
// type, flags, stream and payload fields (by bfe's Framer, by x/net's Framer and
// by the RFC 7540 model ref/h2frame; and x/net-written frames by bfe's Framer).
// Part 2: reading any byte stream never panics, and every frame ReadFrame
// returns satisfies the frame-level MUST rules of RFC 7540 4.2 and 6.1-6.10 as
// coded in ref/h2frame (and carries the fields the model decodes). SETTINGS
// *values* (6.5.2) are asserted through the framer's documented validation
// helper SettingsFrame.ForeachSetting + Setting.Valid, which is where Go's
// design (and bfe's server: serverConn.processSetting) enforces them.

type hexBytes []byte

func (h hexBytes) MarshalJSON() ([]byte, error) { return json.Marshal(hex.EncodeToString(h)) }
func (h *hexBytes) UnmarshalJSON(b []byte) error {
	var s string
	if err := json.Unmarshal(b, &s); err != nil {
		return err
	}
	v, err := hex.DecodeString(s)
	*h = v
	return err
}

type c32Op struct {
	T          string      `json:"t"` // data headers priority rst settings push ping goaway winupd cont raw
	Stream     uint32      `json:"stream"`
	EndStream  bool        `json:"end_stream,omitempty"`
	EndHeaders bool        `json:"end_headers,omitempty"`
	Ack        bool        `json:"ack,omitempty"`
	Body       hexBytes    `json:"body_hex,omitempty"` // data / fragment / debug data / ping data / raw payload
	BodyLen    int         `json:"body_len,omitempty"` // witness only: bodies over 4 KiB are regenerated as BodyLen x BodyFill
	BodyFill   byte        `json:"body_fill,omitempty"`
	Pad        int         `json:"pad"` // DATA: -1 = not PADDED, n = n zero octets; HEADERS/PUSH_PROMISE: PadLength
	Dep        uint32      `json:"dep,omitempty"`
	Excl       bool        `json:"excl,omitempty"`
	Weight     uint8       `json:"weight,omitempty"`
	Code       uint32      `json:"code,omitempty"`
	Settings   [][2]uint32 `json:"settings,omitempty"`
	Promise    uint32      `json:"promise,omitempty"`
	Last       uint32      `json:"last,omitempty"`
	Incr       uint32      `json:"incr,omitempty"`
	RawType    uint8       `json:"raw_type,omitempty"`
	RawFlags   uint8       `json:"raw_flags,omitempty"`
}

func (o *c32Op) body() []byte {
	if o.Body == nil && o.BodyLen > 0 {
		o.Body = bytes.Repeat([]byte{o.BodyFill}, o.BodyLen)
	}
	return o.Body
}

func (o *c32Op) hasPrio() bool { return o.Dep != 0 || o.Excl || o.Weight != 0 }

type c32Case struct {
	Ops []c32Op `json:"ops"`
}

// witness returns a JSON-friendly copy (huge uniform bodies compacted).
func (c *c32Case) witness() *c32Case {
	w := &c32Case{}
	for _, o := range c.Ops {
		if len(o.Body) > 4096 {
			o.BodyLen, o.BodyFill = len(o.Body), o.Body[0]
			o.Body = nil
		}
		w.Ops = append(w.Ops, o)
	}
	return w
}

// c32Obs is a frame as seen by some reader, normalised.
type c32Obs struct {
	Type, Flags uint8
	Stream      uint32
	Length      uint32
	F           h2frame.Fields
}

func c32Diff(got, want *c32Obs) string {
	switch {
	case got.Type != want.Type:
		return "type"
	case got.Flags != want.Flags:
		return "flags"
	case got.Stream != want.Stream:
		return "stream"
	case got.Length != want.Length:
		return "length"
	case !bytes.Equal(got.F.Data, want.F.Data):
		return "data"
	case !bytes.Equal(got.F.Fragment, want.F.Fragment):
		return "fragment"
	case got.F.HasPrio != want.F.HasPrio || got.F.Dep != want.F.Dep || got.F.Excl != want.F.Excl || got.F.Weight != want.F.Weight:
		return "priority"
	case got.F.Code != want.F.Code:
		return "error-code"
	case got.F.Promise != want.F.Promise:
		return "promised-stream"
	case !bytes.Equal(got.F.Ping, want.F.Ping):
		return "ping-data"
	case got.F.Last != want.F.Last:
		return "last-stream"
	case !bytes.Equal(got.F.Debug, want.F.Debug):
		return "debug-data"
	case got.F.Incr != want.F.Incr:
		return "increment"
	case len(got.F.Settings) != len(want.F.Settings):
		return "settings-count"
	}
	for i := range got.F.Settings {
		if got.F.Settings[i] != want.F.Settings[i] {
			return "settings"
		}
	}
	return ""
}

func c32ObsRef(f h2frame.Frame) *c32Obs {
	o := &c32Obs{Type: f.Type, Flags: f.Flags, Stream: f.StreamID, Length: f.Length, F: f.Decode()}
	o.F.Padded, o.F.PadLen = false, 0 // implied by flags+length+payload, not exposed by the Framer APIs
	return o
}

func c32ObsBfe(f b2.Frame) *c32Obs {
	h := f.Header()
	o := &c32Obs{Type: uint8(h.Type), Flags: uint8(h.Flags), Stream: h.StreamID, Length: h.Length}
	switch f := f.(type) {
	case *b2.DataFrame:
		o.F.Data = f.Data()
	case *b2.HeadersFrame:
		o.F.Fragment = f.HeaderBlockFragment()
		if f.HasPriority() {
			o.F.HasPrio, o.F.Dep, o.F.Excl, o.F.Weight = true, f.Priority.StreamDep, f.Priority.Exclusive, f.Priority.Weight
		}
	case *b2.PriorityFrame:
		o.F.HasPrio, o.F.Dep, o.F.Excl, o.F.Weight = true, f.StreamDep, f.Exclusive, f.Weight
	case *b2.RSTStreamFrame:
		o.F.Code = uint32(f.ErrCode)
	case *b2.SettingsFrame:
		f.ForeachSetting(func(s b2.Setting) error {
			o.F.Settings = append(o.F.Settings, [2]uint32{uint32(s.ID), s.Val})
			return nil
		})
	case *b2.PushPromiseFrame:
		o.F.Promise = f.PromiseID
		o.F.Fragment = f.HeaderBlockFragment()
	case *b2.PingFrame:
		o.F.Ping = f.Data[:]
	case *b2.GoAwayFrame:
		o.F.Last, o.F.Code, o.F.Debug = f.LastStreamID, uint32(f.ErrCode), f.DebugData()
	case *b2.WindowUpdateFrame:
		o.F.Incr = f.Increment
	case *b2.ContinuationFrame:
		o.F.Fragment = f.HeaderBlockFragment()
	case *b2.UnknownFrame:
		o.F.Data = f.Payload()
	}
	return o
}

func c32ObsX(f x2.Frame) *c32Obs {
	h := f.Header()
	o := &c32Obs{Type: uint8(h.Type), Flags: uint8(h.Flags), Stream: h.StreamID, Length: h.Length}
	switch f := f.(type) {
	case *x2.DataFrame:
		o.F.Data = f.Data()
	case *x2.HeadersFrame:
		o.F.Fragment = f.HeaderBlockFragment()
		if f.HasPriority() {
			o.F.HasPrio, o.F.Dep, o.F.Excl, o.F.Weight = true, f.Priority.StreamDep, f.Priority.Exclusive, f.Priority.Weight
		}
	case *x2.PriorityFrame:
		o.F.HasPrio, o.F.Dep, o.F.Excl, o.F.Weight = true, f.StreamDep, f.Exclusive, f.Weight
	case *x2.RSTStreamFrame:
		o.F.Code = uint32(f.ErrCode)
	case *x2.SettingsFrame:
		f.ForeachSetting(func(s x2.Setting) error {
			o.F.Settings = append(o.F.Settings, [2]uint32{uint32(s.ID), s.Val})
			return nil
		})
	case *x2.PushPromiseFrame:
		o.F.Promise = f.PromiseID
		o.F.Fragment = f.HeaderBlockFragment()
	case *x2.PingFrame:
		o.F.Ping = f.Data[:]
	case *x2.GoAwayFrame:
		o.F.Last, o.F.Code, o.F.Debug = f.LastStreamID, uint32(f.ErrCode), f.DebugData()
	case *x2.WindowUpdateFrame:
		o.F.Incr = f.Increment
	case *x2.ContinuationFrame:
		o.F.Fragment = f.HeaderBlockFragment()
	case *x2.UnknownFrame:
		o.F.Data = f.Payload()
	}
	return o
}

// c32Expect is what any reader must report for op, derived from the op's
// parameters and the frame layouts of RFC 7540 section 6 (not from any writer).
func c32Expect(o *c32Op) *c32Obs {
	e := &c32Obs{Stream: o.Stream}
	body := o.body()
	nb := uint32(len(body))
	flag := func(c bool, f uint8) {
		if c {
			e.Flags |= f
		}
	}
	switch o.T {
	case "data":
		e.Type = h2frame.Data
		flag(o.EndStream, h2frame.FlagEndStream)
		e.Length = nb
		if o.Pad >= 0 {
			e.Flags |= h2frame.FlagPadded
			e.Length += 1 + uint32(o.Pad)
		}
		e.F.Data = body
	case "headers":
		e.Type = h2frame.Headers
		flag(o.EndStream, h2frame.FlagEndStream)
		flag(o.EndHeaders, h2frame.FlagEndHeaders)
		e.Length = nb
		if o.Pad > 0 {
			e.Flags |= h2frame.FlagPadded
			e.Length += 1 + uint32(o.Pad)
		}
		if o.hasPrio() {
			e.Flags |= h2frame.FlagPriority
			e.Length += 5
			e.F.HasPrio, e.F.Dep, e.F.Excl, e.F.Weight = true, o.Dep, o.Excl, o.Weight
		}
		e.F.Fragment = body
	case "priority":
		e.Type, e.Length = h2frame.Priority, 5
		e.F.HasPrio, e.F.Dep, e.F.Excl, e.F.Weight = true, o.Dep, o.Excl, o.Weight
	case "rst":
		e.Type, e.Length, e.F.Code = h2frame.RSTStream, 4, o.Code
	case "settings":
		e.Type = h2frame.Settings
		flag(o.Ack, h2frame.FlagAck)
		e.Length = 6 * uint32(len(o.Settings))
		e.F.Settings = o.Settings
	case "push":
		e.Type = h2frame.PushPromise
		flag(o.EndHeaders, h2frame.FlagEndHeaders)
		e.Length = 4 + nb
		if o.Pad > 0 {
			e.Flags |= h2frame.FlagPadded
			e.Length += 1 + uint32(o.Pad)
		}
		e.F.Promise, e.F.Fragment = o.Promise, body
	case "ping":
		e.Type, e.Length = h2frame.Ping, 8
		flag(o.Ack, h2frame.FlagAck)
		e.F.Ping = body
	case "goaway":
		e.Type, e.Length = h2frame.GoAway, 8+nb
		e.F.Last, e.F.Code, e.F.Debug = o.Last, o.Code, body
	case "winupd":
		e.Type, e.Length, e.F.Incr = h2frame.WindowUpdate, 4, o.Incr
	case "cont":
		e.Type, e.Length = h2frame.Continuation, nb
		flag(o.EndHeaders, h2frame.FlagEndHeaders)
		e.F.Fragment = body
	case "raw":
		e.Type, e.Flags, e.Length = o.RawType, o.RawFlags, nb
		e.F.Data = body
	}
	if len(e.F.Data) == 0 {
		e.F.Data = nil
	}
	return e
}

func c32WriteBfe(fr *b2.Framer, o *c32Op) error {
	body := o.body()
	switch o.T {
	case "data":
		if o.Pad < 0 {
			return fr.WriteData(o.Stream, o.EndStream, body)
		}
		return fr.WriteDataPadded(o.Stream, o.EndStream, body, make([]byte, o.Pad))
	case "headers":
		return fr.WriteHeaders(b2.HeadersFrameParam{StreamID: o.Stream, BlockFragment: body, EndStream: o.EndStream, EndHeaders: o.EndHeaders,
			PadLength: uint8(o.Pad), Priority: b2.PriorityParam{StreamDep: o.Dep, Exclusive: o.Excl, Weight: o.Weight}})
	case "priority":
		return fr.WritePriority(o.Stream, b2.PriorityParam{StreamDep: o.Dep, Exclusive: o.Excl, Weight: o.Weight})
	case "rst":
		return fr.WriteRSTStream(o.Stream, b2.ErrCode(o.Code))
	case "settings":
		if o.Ack {
			return fr.WriteSettingsAck()
		}
		ss := make([]b2.Setting, len(o.Settings))
		for i, s := range o.Settings {
			ss[i] = b2.Setting{ID: b2.SettingID(s[0]), Val: s[1]}
		}
		return fr.WriteSettings(ss...)
	case "push":
		return fr.WritePushPromise(b2.PushPromiseParam{StreamID: o.Stream, PromiseID: o.Promise, BlockFragment: body, EndHeaders: o.EndHeaders, PadLength: uint8(o.Pad)})
	case "ping":
		var d [8]byte
		copy(d[:], body)
		return fr.WritePing(o.Ack, d)
	case "goaway":
		return fr.WriteGoAway(o.Last, b2.ErrCode(o.Code), body)
	case "winupd":
		return fr.WriteWindowUpdate(o.Stream, o.Incr)
	case "cont":
		return fr.WriteContinuation(o.Stream, o.EndHeaders, body)
	case "raw":
		return fr.WriteRawFrame(b2.FrameType(o.RawType), b2.Flags(o.RawFlags), o.Stream, body)
	}
	return fmt.Errorf("bad op %q", o.T)
}

func c32WriteX(fr *x2.Framer, o *c32Op) error {
	body := o.body()
	switch o.T {
	case "data":
		if o.Pad < 0 {
			return fr.WriteData(o.Stream, o.EndStream, body)
		}
		return fr.WriteDataPadded(o.Stream, o.EndStream, body, make([]byte, o.Pad))
	case "headers":
		return fr.WriteHeaders(x2.HeadersFrameParam{StreamID: o.Stream, BlockFragment: body, EndStream: o.EndStream, EndHeaders: o.EndHeaders,
			PadLength: uint8(o.Pad), Priority: x2.PriorityParam{StreamDep: o.Dep, Exclusive: o.Excl, Weight: o.Weight}})
	case "priority":
		return fr.WritePriority(o.Stream, x2.PriorityParam{StreamDep: o.Dep, Exclusive: o.Excl, Weight: o.Weight})
	case "rst":
		return fr.WriteRSTStream(o.Stream, x2.ErrCode(o.Code))
	case "settings":
		if o.Ack {
			return fr.WriteSettingsAck()
		}
		ss := make([]x2.Setting, len(o.Settings))
		for i, s := range o.Settings {
			ss[i] = x2.Setting{ID: x2.SettingID(s[0]), Val: s[1]}
		}
		return fr.WriteSettings(ss...)
	case "push":
		return fr.WritePushPromise(x2.PushPromiseParam{StreamID: o.Stream, PromiseID: o.Promise, BlockFragment: body, EndHeaders: o.EndHeaders, PadLength: uint8(o.Pad)})
	case "ping":
		var d [8]byte
		copy(d[:], body)
		return fr.WritePing(o.Ack, d)
	case "goaway":
		return fr.WriteGoAway(o.Last, x2.ErrCode(o.Code), body)
	case "winupd":
		return fr.WriteWindowUpdate(o.Stream, o.Incr)
	case "cont":
		return fr.WriteContinuation(o.Stream, o.EndHeaders, body)
	case "raw":
		return fr.WriteRawFrame(x2.FrameType(o.RawType), x2.Flags(o.RawFlags), o.Stream, body)
	}
	return fmt.Errorf("bad op %q", o.T)
}

// c32Serialize lays the op out per RFC 7540 section 6 (the model's own writer,
// used to build the byte streams of part 2).
func c32Serialize(dst []byte, o *c32Op) []byte {
	e := c32Expect(o)
	var p []byte
	body := o.body()
	u32 := func(v uint32) { p = append(p, byte(v>>24), byte(v>>16), byte(v>>8), byte(v)) }
	prio := func() {
		v := o.Dep
		if o.Excl {
			v |= 1 << 31
		}
		u32(v)
		p = append(p, o.Weight)
	}
	switch o.T {
	case "data":
		if o.Pad >= 0 {
			p = append(p, byte(o.Pad))
		}
		p = append(p, body...)
		if o.Pad > 0 {
			p = append(p, make([]byte, o.Pad)...)
		}
	case "headers", "push":
		if o.Pad > 0 {
			p = append(p, byte(o.Pad))
		}
		if o.T == "push" {
			u32(o.Promise)
		} else if o.hasPrio() {
			prio()
		}
		p = append(p, body...)
		p = append(p, make([]byte, o.Pad)...)
	case "priority":
		prio()
	case "rst":
		u32(o.Code)
	case "settings":
		for _, s := range o.Settings {
			p = append(p, byte(s[0]>>8), byte(s[0]))
			u32(s[1])
		}
	case "ping":
		p = append(p, body...)
		for len(p) < 8 {
			p = append(p, 0)
		}
	case "goaway":
		u32(o.Last)
		u32(o.Code)
		p = append(p, body...)
	case "winupd":
		u32(o.Incr)
	default:
		p = body
	}
	return h2frame.Append(dst, e.Type, e.Flags, o.Stream, p)
}

var c32C = newCtrs()

// c32Shape names the read-back failure by the shape of the frame, so that
// distinct defects get distinct signatures.
func c32Shape(ops []c32Op, i int) string {
	o := &ops[i]
	switch o.T {
	case "headers":
		if len(o.body()) == 0 {
			return "headers-empty-fragment"
		}
	case "cont":
		for j := i - 1; j >= 0; j-- {
			if ops[j].T == "push" {
				return "continuation-after-push-promise"
			}
			if ops[j].T != "cont" {
				break
			}
		}
	}
	return o.T
}

var c32BigMu sync.Mutex // cases with multi-megabyte frames run one at a time

// c32RoundTrip is part 1.
func c32RoundTrip(r *vkit.Run, c *c32Case) {
	ops := c.Ops
	for i := range ops {
		if len(ops[i].body()) > 1<<20 {
			c32BigMu.Lock()
			defer c32BigMu.Unlock()
			c32C.add("cases_with_max_size_frame", 1)
			break
		}
	}
	var wire bytes.Buffer
	bw := b2.NewFramer(&wire, nil)
	exp := make([]*c32Obs, len(ops))
	for i := range ops {
		exp[i] = c32Expect(&ops[i])
		n0 := wire.Len()
		if err := c32WriteBfe(bw, &ops[i]); err != nil {
			r.Violation("write-error:"+ops[i].T, "bfe Framer refuses to write a frame with RFC-legal parameters: "+err.Error(),
				map[string]interface{}{"case": c.witness(), "op": i})
			return
		}
		// the model parses what was written
		f, rest, ok, _ := h2frame.Split(wire.Bytes()[n0:])
		if !ok || len(rest) != 0 {
			r.Violation("write:"+ops[i].T+":not-one-frame", "the bytes written for one frame do not form exactly one frame (RFC 7540 4.1)",
				map[string]interface{}{"case": c.witness(), "op": i})
			return
		}
		if rule := (&h2frame.State{MaxFrameSize: 1<<24 - 1}).Check(f); rule != "" && !strings.HasPrefix(rule, "sequencing") {
			r.Violation("write:"+ops[i].T+":"+rule, "bfe Framer wrote a frame that violates RFC 7540: "+rule,
				map[string]interface{}{"case": c.witness(), "op": i})
			return
		}
		if d := c32Diff(c32ObsRef(f), exp[i]); d != "" {
			r.Violation("write:"+ops[i].T+":"+d, "the frame bfe's Framer wrote decodes (RFC 7540 model) to a different "+d+" than requested",
				map[string]interface{}{"case": c.witness(), "op": i})
			return
		}
	}
	c32C.add("frames_written", int64(len(ops)))
	w := wire.Bytes()

	// bfe reads bfe
	readBfe := func(stream []byte, writer string) {
		br := b2.NewFramer(nil, bytes.NewReader(stream))
		for i := range ops {
			f, err := br.ReadFrame()
			if err != nil {
				shape := c32Shape(ops, i)
				sig := "roundtrip:" + shape + "-rejected"
				if shape == ops[i].T && writer != "bfe" {
					sig = "cross:" + writer + "-write->bfe-read:" + shape + "-rejected"
				}
				r.Violation(sig, fmt.Sprintf("bfe Framer.ReadFrame rejects frame %d (%s) written by %s's Framer: %v", i, ops[i].T, writer, err),
					map[string]interface{}{"case": c.witness(), "op": i, "writer": writer, "error": err.Error()})
				return
			}
			if d := c32Diff(c32ObsBfe(f), exp[i]); d != "" {
				sig := "roundtrip:" + ops[i].T + ":" + d
				if writer != "bfe" {
					sig = "cross:" + writer + "-write->bfe-read:" + ops[i].T + ":" + d
				}
				r.Violation(sig, fmt.Sprintf("frame %d read back by bfe's Framer differs in %s", i, d),
					map[string]interface{}{"case": c.witness(), "op": i, "writer": writer, "got": c32ObsBfe(f), "want": exp[i]})
				return
			}
			c32C.add("frames_read_back_identical_"+writer+"->bfe", 1)
		}
		if _, err := br.ReadFrame(); err != io.EOF {
			r.Violation("roundtrip:trailing", fmt.Sprintf("after the last frame ReadFrame returns %v, want io.EOF", err),
				map[string]interface{}{"case": c.witness(), "writer": writer})
		}
	}
	readBfe(w, "bfe")

	// x/net reads bfe
	xr := x2.NewFramer(nil, bytes.NewReader(w))
	xr.SetMaxReadFrameSize(1<<24 - 1)
	for i := range ops {
		shape := c32Shape(ops, i)
		if shape == "headers-empty-fragment" || shape == "continuation-after-push-promise" {
			// x/net at this version has the same two restrictions as bfe (the first one was
			// fixed upstream later); the model is the arbiter for them, x/net sits out.
			c32C.add("xnet_reader_sits_out(shared quirk)", 1)
			break
		}
		f, err := xr.ReadFrame()
		if err != nil {
			r.Violation("cross:bfe-write->xnet-read:"+shape+"-rejected", fmt.Sprintf("x/net's Framer rejects frame %d written by bfe: %v", i, err),
				map[string]interface{}{"case": c.witness(), "op": i, "error": err.Error()})
			break
		}
		if d := c32Diff(c32ObsX(f), exp[i]); d != "" {
			r.Violation("cross:bfe-write->xnet-read:"+ops[i].T+":"+d, fmt.Sprintf("frame %d written by bfe is read by x/net with a different %s", i, d),
				map[string]interface{}{"case": c.witness(), "op": i, "got": c32ObsX(f), "want": exp[i]})
			break
		}
		c32C.add("frames_read_back_identical_bfe->xnet", 1)
	}

	// bfe reads x/net
	var xwire bytes.Buffer
	xw := x2.NewFramer(&xwire, nil)
	for i := range ops {
		if err := c32WriteX(xw, &ops[i]); err != nil {
			c32C.add("xnet_writer_refused", 1)
			return
		}
	}
	readBfe(xwire.Bytes(), "xnet")
}

// ---- part 2: arbitrary byte streams -----------------------------------

type c32Stream struct {
	Gen   string   `json:"gen"`
	Max   uint32   `json:"max_read_frame_size"`
	Bytes hexBytes `json:"stream_hex,omitempty"`
	Meta  bool     `json:"read_meta_headers,omitempty"`
}

func c32IsStreamErr(err error) bool { _, ok := err.(b2.StreamError); return ok }

func c32ReadStream(r *vkit.Run, s *c32Stream) {
	fr := b2.NewFramer(nil, bytes.NewReader(s.Bytes))
	fr.SetMaxReadFrameSize(s.Max)
	st := h2frame.State{MaxFrameSize: s.Max}
	rest := []byte(s.Bytes)
	wit := func(i int, extra map[string]interface{}) map[string]interface{} {
		m := map[string]interface{}{"case": s, "frame_index": i}
		for k, v := range extra {
			m[k] = v
		}
		return m
	}
	nFrames := 0
	for i := 0; ; i++ {
		mf, rest2, ok, hdr := h2frame.Split(rest)
		f, err := fr.ReadFrame()
		if !ok {
			if err == nil {
				r.Violation("accepts:truncated-frame", "ReadFrame returns a frame although the stream ends inside it", wit(i, nil))
			} else if hdr {
				c32C.add("truncated_frame_rejected", 1)
			}
			break
		}
		rule := st.Check(mf)
		if err != nil {
			if rule == "" {
				c32C.add("bfe_rejects_model_accepts(not a violation of the read clause)", 1)
				break // states diverge: judge no further
			}
			c32C.add("rejected:"+rule, 1)
			if !c32IsStreamErr(err) {
				break
			}
			if mf.Type == h2frame.Headers || mf.Type == h2frame.PushPromise || mf.Type == h2frame.Continuation {
				break // RFC does not say whether a header block opened by a frame answered with a stream error counts as open
			}
			rest = rest2
			continue
		}
		if rule != "" {
			r.Violation("accepts:"+rule, fmt.Sprintf("ReadFrame returns a %v frame that RFC 7540 obliges a receiver to treat as an error: %s", f.Header().Type, rule),
				wit(i, map[string]interface{}{"rule": rule}))
			break
		}
		if d := c32Diff(c32ObsBfe(f), c32ObsRef(mf)); d != "" {
			r.Violation(fmt.Sprintf("read-fields-differ:type-%d:%s", mf.Type, d), "the frame ReadFrame returns differs from the RFC 7540 decoding of the same bytes in "+d,
				wit(i, map[string]interface{}{"got": c32ObsBfe(f), "want": c32ObsRef(mf)}))
			break
		}
		if sf, isSettings := f.(*b2.SettingsFrame); isSettings {
			vrule := h2frame.SettingsValueRule(mf)
			verr := sf.ForeachSetting(func(x b2.Setting) error { return x.Valid() })
			switch {
			case vrule != "" && verr == nil:
				r.Violation("accepts:"+vrule, "a SETTINGS frame carrying an illegal value passes both ReadFrame and ForeachSetting(Setting.Valid)",
					wit(i, map[string]interface{}{"rule": vrule}))
			case vrule != "":
				c32C.add("rejected-by-Setting.Valid:"+vrule, 1)
			case verr != nil:
				c32C.add("Setting.Valid_rejects_legal_value(not alarmed)", 1)
			}
			if vrule != "" {
				break
			}
		}
		st.Advance(mf)
		nFrames++
		c32C.add("frames_accepted_and_conformant", 1)
		rest = rest2
	}
	r.Case(vkit.Hash64(fmt.Sprint(s.Max), string(s.Bytes)), nFrames >= 1 && len(s.Bytes) > 9)
	c32C.add("gen_"+s.Gen, 1)
}

// c32ReadMeta: the server's configuration of the Framer (ReadMetaHeaders set);
// only the "never panics" clause is asserted here.
func c32ReadMeta(r *vkit.Run, s *c32Stream) {
	fr := b2.NewFramer(nil, bytes.NewReader(s.Bytes))
	fr.SetMaxReadFrameSize(s.Max)
	fr.ReadMetaHeaders = bh.NewDecoder(4096, nil)
	n := 0
	for {
		_, err := fr.ReadFrame()
		if err != nil && !c32IsStreamErr(err) {
			break
		}
		if err == nil {
			n++
		}
	}
	c32C.add("meta_frames_read", int64(n))
	r.Case(vkit.Hash64("meta", string(s.Bytes)), n >= 1)
	c32C.add("gen_"+s.Gen, 1)
}

func c32CheckStream(r *vkit.Run, s *c32Stream) {
	r.Try(func() interface{} { return s }, func() {
		if s.Meta {
			c32ReadMeta(r, s)
		} else {
			c32ReadStream(r, s)
		}
	})
}

// ---- generators --------------------------------------------------------

var c32Streams = []uint32{1, 1, 3, 5, 7, 1<<31 - 1, 0x01020304}

func c32Body(g *vkit.Rand, maxLen int) []byte {
	switch g.Intn(8) {
	case 0:
		return nil
	case 1:
		return g.Bytes(1)
	case 2:
		return g.Bytes(maxLen)
	}
	return g.Bytes(g.Intn(40))
}

var c32SettingIDs = []uint32{1, 2, 3, 4, 5, 6, 0, 7, 0xffff}

func c32LegalSetting(g *vkit.Rand) [2]uint32 {
	id := c32SettingIDs[g.Intn(len(c32SettingIDs))]
	v := uint32(g.U64())
	switch g.Intn(4) {
	case 0:
		v = 0
	case 1:
		v = 1<<31 - 1
	case 2:
		v = 0xffffffff
	}
	switch id {
	case 2:
		v &= 1
	case 4:
		v &= 1<<31 - 1
	case 5:
		v = []uint32{1 << 14, 1<<24 - 1, 1<<14 + v%(1<<24-1<<14)}[g.Intn(3)]
	}
	return [2]uint32{id, v}
}

// c32GenOps makes a sequence of RFC-valid frames in a valid order.
func c32GenOps(g *vkit.Rand, n int, allowBig bool) []c32Op {
	var ops []c32Op
	sid := func() uint32 { return c32Streams[g.Intn(len(c32Streams))] }
	pad := func() int { return []int{0, 0, 1, 255, g.Intn(256)}[g.Intn(5)] }
	for len(ops) < n {
		var o c32Op
		o.Pad = 0
		switch k := g.Intn(12); k {
		case 0, 1:
			o = c32Op{T: "data", Stream: sid(), EndStream: g.Bool(), Pad: []int{-1, -1, 0, 1, 255, g.Intn(256)}[g.Intn(6)]}
			o.Body = c32Body(g, 300)
			if allowBig {
				switch g.Intn(90) {
				case 0:
					o.Body = bytes.Repeat([]byte{byte(g.Intn(256))}, 16384)
				case 1:
					o.Body = bytes.Repeat([]byte{byte(g.Intn(256))}, 16383-[]int{0, 1, 256}[g.Intn(3)])
				case 2:
					o.Body = bytes.Repeat([]byte{byte(g.Intn(256))}, 65536)
				}
			}
		case 2, 3:
			o = c32Op{T: "headers", Stream: sid(), EndStream: g.Bool(), EndHeaders: g.Chance(2, 3), Pad: pad(), Body: c32Body(g, 200)}
			if g.Chance(1, 3) {
				o.Dep, o.Excl, o.Weight = sid(), g.Bool(), uint8(g.Intn(256))
			}
		case 4:
			o = c32Op{T: "priority", Stream: sid(), Dep: []uint32{0, sid()}[g.Intn(2)], Excl: g.Bool(), Weight: uint8(g.Intn(256))}
		case 5:
			o = c32Op{T: "rst", Stream: sid(), Code: uint32(g.U64())}
		case 6:
			o = c32Op{T: "settings", Ack: g.Chance(1, 4)}
			if !o.Ack {
				ns := []int{0, 1, 2, 6, 40, 200}[g.Intn(6)]
				for i := 0; i < ns; i++ {
					o.Settings = append(o.Settings, c32LegalSetting(g))
				}
			}
		case 7:
			o = c32Op{T: "push", Stream: sid(), Promise: sid(), EndHeaders: g.Chance(2, 3), Pad: pad(), Body: c32Body(g, 200)}
		case 8:
			o = c32Op{T: "ping", Ack: g.Bool(), Body: g.Bytes(8)}
		case 9:
			o = c32Op{T: "goaway", Last: []uint32{0, sid()}[g.Intn(2)], Code: uint32(g.U64()), Body: c32Body(g, 100)}
		case 10:
			o = c32Op{T: "winupd", Stream: []uint32{0, sid()}[g.Intn(2)], Incr: []uint32{1, 1<<31 - 1, 1 + uint32(g.Intn(1<<31-1))}[g.Intn(3)]}
		case 11:
			o = c32Op{T: "raw", RawType: uint8(10 + g.Intn(246)), RawFlags: uint8(g.Intn(256)), Stream: []uint32{0, sid()}[g.Intn(2)], Body: c32Body(g, 100)}
		}
		ops = append(ops, o)
		if (o.T == "headers" || o.T == "push") && !o.EndHeaders {
			for {
				c := c32Op{T: "cont", Stream: o.Stream, EndHeaders: g.Chance(2, 3), Body: c32Body(g, 100)}
				ops = append(ops, c)
				if c.EndHeaders {
					break
				}
			}
		}
	}
	return ops
}

// c32Bad builds one frame that breaks a chosen frame-level rule (or is a
// boundary case that must still be accepted).
func c32Bad(g *vkit.Rand, max uint32) (b []byte, label string) {
	sid := c32Streams[g.Intn(len(c32Streams))]
	A := h2frame.Append
	u32 := func(v uint32) []byte { return []byte{byte(v >> 24), byte(v >> 16), byte(v >> 8), byte(v)} }
	switch k := g.Intn(24); k {
	case 0:
		t := []uint8{h2frame.Data, h2frame.Headers, h2frame.Priority, h2frame.RSTStream, h2frame.PushPromise}[g.Intn(5)]
		n := map[uint8]int{h2frame.Priority: 5, h2frame.RSTStream: 4}[t]
		if n == 0 {
			n = 4 + g.Intn(8)
		}
		return A(nil, t, byte(g.Intn(2))*4, 0, g.Bytes(n)), "stream-0"
	case 1:
		t := []uint8{h2frame.Settings, h2frame.Ping, h2frame.GoAway}[g.Intn(3)]
		n := map[uint8]int{h2frame.Settings: 6, h2frame.Ping: 8, h2frame.GoAway: 8}[t]
		p := g.Bytes(n)
		if t == h2frame.Settings {
			p = []byte{0, 3, 0, 0, 0, 100}
		}
		return A(nil, t, 0, sid, p), "nonzero-stream"
	case 2: // DATA padding
		n := g.Intn(6)
		p := append([]byte{byte(n + []int{-1, 0, 1, 2, 200}[g.Intn(5)])}, g.Bytes(n)...)
		if g.Chance(1, 6) {
			p = nil
		}
		return A(nil, h2frame.Data, h2frame.FlagPadded|byte(g.Intn(2)), sid, p), "data-padding"
	case 3: // HEADERS padding/priority sizes
		fl := byte(h2frame.FlagPadded | h2frame.FlagEndHeaders)
		need := 1
		if g.Bool() {
			fl |= h2frame.FlagPriority
			need += 5
		}
		n := g.Intn(need + 4)
		p := g.Bytes(n)
		if n > 0 {
			p[0] = byte(n - need + []int{-1, 0, 1, 2}[g.Intn(4)])
		}
		return A(nil, h2frame.Headers, fl, sid, p), "headers-padding"
	case 4: // PUSH_PROMISE padding / too small
		fl := byte(h2frame.FlagEndHeaders)
		need := 4
		if g.Bool() {
			fl |= h2frame.FlagPadded
			need++
		}
		n := g.Intn(need + 4)
		p := g.Bytes(n)
		if n > 0 && fl&h2frame.FlagPadded != 0 {
			p[0] = byte(n - need + []int{-1, 0, 1, 2}[g.Intn(4)])
		}
		return A(nil, h2frame.PushPromise, fl, sid, p), "push-promise-padding"
	case 5:
		return A(nil, h2frame.Priority, 0, sid, g.Bytes([]int{0, 4, 6, 5}[g.Intn(4)])), "priority-length"
	case 6:
		return A(nil, h2frame.RSTStream, 0, sid, g.Bytes([]int{0, 3, 5, 4}[g.Intn(4)])), "rst-length"
	case 7:
		return A(nil, h2frame.Ping, byte(g.Intn(2)), 0, g.Bytes([]int{0, 7, 9, 16, 8}[g.Intn(5)])), "ping-length"
	case 8:
		return A(nil, h2frame.GoAway, 0, 0, g.Bytes([]int{0, 4, 7, 8, 9}[g.Intn(5)])), "goaway-length"
	case 9:
		p := g.Bytes([]int{0, 3, 5, 4, 4}[g.Intn(5)])
		if len(p) == 4 && g.Bool() {
			p = []byte{byte(g.Intn(2)) << 7, 0, 0, 0} // increment 0 (with or without the reserved bit)
		}
		return A(nil, h2frame.WindowUpdate, 0, []uint32{0, sid}[g.Intn(2)], p), "window-update"
	case 10:
		n := []int{1, 5, 7, 11, 13, 6, 12}[g.Intn(7)]
		p := make([]byte, n)
		for i := 0; i+6 <= n; i += 6 {
			p[i+1] = 3
		}
		return A(nil, h2frame.Settings, 0, 0, p), "settings-length"
	case 11:
		return A(nil, h2frame.Settings, h2frame.FlagAck, 0, make([]byte, []int{6, 1, 12, 0}[g.Intn(4)])), "settings-ack-payload"
	case 12, 13: // SETTINGS values
		var p []byte
		bad := [][2]uint32{{2, 2}, {2, 0xffffffff}, {4, 1 << 31}, {4, 0xffffffff}, {5, 1<<14 - 1}, {5, 0}, {5, 1 << 24}, {5, 0xffffffff},
			{2, 1}, {4, 1<<31 - 1}, {5, 1 << 14}, {5, 1<<24 - 1}}[g.Intn(12)]
		var list [][2]uint32
		for i, n := 0, g.Intn(4); i < n; i++ {
			list = append(list, c32LegalSetting(g))
		}
		if g.Bool() { // a legal value for the same id first (a reader that only looks at the first occurrence is fooled)
			list = append(list, [2]uint32{bad[0], map[uint32]uint32{2: 0, 4: 100, 5: 1 << 14}[bad[0]]})
		}
		list = append(list, bad)
		for i, n := 0, g.Intn(3); i < n; i++ {
			list = append(list, c32LegalSetting(g))
		}
		for _, s := range list {
			p = append(p, byte(s[0]>>8), byte(s[0]))
			p = append(p, u32(s[1])...)
		}
		return A(nil, h2frame.Settings, 0, 0, p), "settings-values"
	case 14: // open header block followed by something else
		opener := []uint8{h2frame.Headers, h2frame.PushPromise}[g.Intn(2)]
		p := g.Bytes(4 + g.Intn(6))
		b = A(nil, opener, 0, sid, p)
		for i, n := 0, g.Intn(2); i < n; i++ {
			b = A(b, h2frame.Continuation, 0, sid, g.Bytes(g.Intn(5)))
		}
		switch g.Intn(7) {
		case 0:
			b = A(b, h2frame.Data, 0, sid, g.Bytes(3))
		case 1:
			b = A(b, h2frame.Continuation, h2frame.FlagEndHeaders, sid+2, g.Bytes(3))
		case 2:
			b = A(b, h2frame.Ping, 0, 0, g.Bytes(8))
		case 3:
			b = A(b, uint8(10+g.Intn(200)), 0, sid, g.Bytes(3))
		case 4:
			b = A(b, h2frame.Headers, h2frame.FlagEndHeaders, sid, g.Bytes(3))
		case 5:
			b = A(b, h2frame.Settings, 0, 0, nil)
		case 6:
			b = A(b, h2frame.Continuation, h2frame.FlagEndHeaders, sid, g.Bytes(3)) // the legal continuation
		}
		return b, "open-header-block"
	case 15:
		if g.Bool() {
			b = A(nil, h2frame.Headers, h2frame.FlagEndHeaders, sid, g.Bytes(5))
		}
		return A(b, h2frame.Continuation, byte(g.Intn(2))*4, sid, g.Bytes(g.Intn(6))), "continuation-without-block"
	case 16: // around the maximum frame size
		n := max + uint32([]int{0, 1, 2, 1000}[g.Intn(4)])
		if n > 1<<24-1 {
			n = 1<<24 - 1
		}
		if max > 1<<20 && n > 70000 { // do not build 16 MiB payloads here: header only, stream truncated
			return h2frame.AppendLen(nil, n, h2frame.Data, 0, sid, g.Bytes(10)), "max-frame-size-header-only"
		}
		t := []uint8{h2frame.Data, h2frame.Headers, h2frame.Continuation, 0x50, h2frame.GoAway}[g.Intn(5)]
		s := sid
		if t == h2frame.GoAway {
			s = 0
		}
		return A(nil, t, h2frame.FlagEndHeaders, s, make([]byte, n)), "max-frame-size"
	case 17:
		return A(nil, uint8(10+g.Intn(246)), byte(g.Intn(256)), []uint32{0, sid}[g.Intn(2)], g.Bytes(g.Intn(20))), "unknown-type"
	case 18: // reserved bit set in the stream id
		t := []uint8{h2frame.Data, h2frame.Settings, h2frame.Ping, h2frame.WindowUpdate}[g.Intn(4)]
		s, p := sid, g.Bytes(4)
		switch t {
		case h2frame.Settings:
			s, p = 0, nil
		case h2frame.Ping:
			s, p = 0, g.Bytes(8)
		case h2frame.WindowUpdate:
			p = []byte{0x80, 0, 0, 1}
		}
		return A(nil, t, 0, s|1<<31, p), "reserved-bit"
	case 19: // empty-fragment HEADERS (legal)
		return A(nil, h2frame.Headers, byte(g.Intn(2))*4, sid, nil), "headers-empty"
	default:
		return g.Bytes(g.Intn(40)), "random-bytes"
	}
}

func c32GenStream(r *vkit.Run, i int) *c32Stream {
	g := r.Rng("c32-stream", i)
	// bfe allocates (and zeroes) Length octets before reading the payload, so large
	// limits make hostile streams expensive: keep them rare
	s := &c32Stream{Max: []uint32{1 << 14, 1 << 14, 1 << 14, 1<<14 + 1, 65535}[g.Intn(5)]}
	if g.Chance(1, 60) {
		s.Max = []uint32{1 << 20, 1<<24 - 1}[g.Intn(2)]
	}
	var b []byte
	valid := func(n int) {
		for _, o := range c32GenOps(g, n, false) {
			o := o
			b = c32Serialize(b, &o)
		}
	}
	switch k := g.Intn(10); {
	case k < 5:
		valid(g.Intn(4))
		bad, label := c32Bad(g, s.Max)
		s.Gen = "rule:" + label
		b = append(b, bad...)
		if g.Bool() {
			valid(1 + g.Intn(2))
		}
	case k < 8:
		s.Gen = "mutated-valid"
		valid(1 + g.Intn(5))
		for n := 1 + g.Intn(3); n > 0 && len(b) > 0; n-- {
			// aim at frame headers half of the time
			p := g.Intn(len(b))
			if g.Bool() {
				off := 0
				for off+9 <= len(b) && g.Chance(2, 3) {
					l := int(b[off])<<16 | int(b[off+1])<<8 | int(b[off+2])
					if off+9+l+9 > len(b) {
						break
					}
					off += 9 + l
				}
				p = off + g.Intn(9)
				if p >= len(b) {
					p = len(b) - 1
				}
			}
			switch g.Intn(4) {
			case 0:
				b[p] ^= 1 << uint(g.Intn(8))
			case 1:
				b[p] = byte(g.Intn(256))
			case 2:
				b[p] = []byte{0, 1, 4, 5, 6, 8, 9, 0x80, 0xff}[g.Intn(9)]
			case 3:
				b = b[:p]
			}
		}
	case k < 9:
		s.Gen = "valid"
		valid(1 + g.Intn(6))
	default:
		s.Gen = "random"
		b = g.Bytes(g.Intn(64))
	}
	s.Bytes = b
	return s
}

// c32GenMeta wraps hostile HPACK blocks (C31's generator) into HEADERS and
// CONTINUATION frames for the ReadMetaHeaders configuration.
func c32GenMeta(r *vkit.Run, i int) *c32Stream {
	g := r.Rng("c32-meta", i)
	c := c31Generate(r, i)
	s := &c32Stream{Gen: "meta-headers", Max: 1 << 14, Meta: true}
	var b []byte
	sid := uint32(1)
	for _, blk := range c.blocks {
		if len(blk) > 16000 {
			blk = blk[:16000]
		}
		cut := len(blk)
		if g.Bool() && len(blk) > 1 {
			cut = 1 + g.Intn(len(blk)-1)
		}
		fl := byte(0)
		if cut == len(blk) {
			fl = h2frame.FlagEndHeaders
		}
		b = h2frame.Append(b, h2frame.Headers, fl, sid, blk[:cut])
		if cut < len(blk) {
			b = h2frame.Append(b, h2frame.Continuation, h2frame.FlagEndHeaders, sid, blk[cut:])
		}
		sid += 2
	}
	s.Bytes = b
	return s
}

func c32(r *vkit.Run) {
	r.SetRule("part 1 (round trip): sequences of 1-12 RFC-valid frames in a valid order, all 10 types + extension types: DATA/HEADERS/PUSH_PROMISE with padding none/0/1/255/random, HEADERS with/without priority (dep, exclusive, weight 0-255), END_STREAM/END_HEADERS combinations with CONTINUATION chains, bodies empty/1/random/300 and (DATA) 16383/16384/65536 and the 2^24-1 maximum, SETTINGS with 0-200 legal settings incl. unknown ids, stream ids 1..2^31-1; written by bfe's Framer, each frame's bytes decoded by the RFC 7540 model and compared with the parameters, then read back by bfe's Framer, by x/net's Framer, and the same ops written by x/net's Framer read by bfe's. part 2 (arbitrary streams, max read size 16384/16385/65535/2^24-1): (a) 0-3 valid frames + one frame built to break one named rule or sit on its boundary (stream-0 rules, padding bounds for DATA/HEADERS/PUSH_PROMISE, fixed lengths, SETTINGS length/ACK/values incl. a legal value for the same id placed first, zero WINDOW_UPDATE, non-CONTINUATION or other-stream CONTINUATION inside a header block opened by HEADERS or PUSH_PROMISE, CONTINUATION without block, length max/max+1, reserved bit, unknown types, empty HEADERS) + 0-2 valid frames; (b) valid sequences with 1-3 mutations aimed at frame headers; (c) valid; (d) random bytes. ReadFrame is called until a connection-level error; every returned frame must pass the model's rule check in the model's state, carry the fields the model decodes, and a SETTINGS frame with an illegal value must be refused by ForeachSetting(Setting.Valid). Judging stops at the first frame bfe rejects but the model accepts (over-rejection is not covered by the read clause) and after a stream error on HEADERS/PUSH_PROMISE/CONTINUATION. (e) HEADERS/CONTINUATION frames carrying hostile HPACK blocks read with ReadMetaHeaders set (the server's configuration): only 'never panics'. Non-trivial = >= 2 frames written (part 1) / >= 1 frame accepted and conformant (part 2); distinct = op list / (max size, bytes)")
	r.Assume("golang.org/x/net/http2 v0.0.0-20201021035429 Framer as second reader/writer; it shares two restrictions with bfe (rejects HEADERS with an empty fragment; does not treat PUSH_PROMISE as opening a header block), on which only the RFC 7540 model is used")
	if r.Replay != "" {
		var w struct {
			Case json.RawMessage `json:"case"`
		}
		if err := r.LoadReplay(&w); err != nil {
			r.Inconclusive(err.Error())
			return
		}
		var probe struct {
			Ops []json.RawMessage `json:"ops"`
		}
		json.Unmarshal(w.Case, &probe)
		if probe.Ops != nil {
			var c c32Case
			if err := json.Unmarshal(w.Case, &c); err != nil {
				r.Inconclusive(err.Error())
				return
			}
			r.Try(func() interface{} { return c.witness() }, func() { c32RoundTrip(r, &c) })
		} else {
			var s c32Stream
			if err := json.Unmarshal(w.Case, &s); err != nil {
				r.Inconclusive(err.Error())
				return
			}
			c32CheckStream(r, &s)
		}
		r.Evals(1)
		c32C.flush(r)
		r.SetMinDistinct(0)
		return
	}
	// hand-made minimal cases first (small witnesses for the signatures they hit)
	for _, ops := range [][]c32Op{
		{{T: "headers", Stream: 1, EndHeaders: true}},
		{{T: "push", Stream: 1, Promise: 2, Body: hexBytes{0x82}}, {T: "cont", Stream: 1, EndHeaders: true, Body: hexBytes{0x84}}},
		{{T: "headers", Stream: 1, Body: hexBytes{0x82}}, {T: "cont", Stream: 1, EndHeaders: true, Body: hexBytes{0x84}}},
	} {
		c := &c32Case{Ops: ops}
		r.Try(func() interface{} { return c.witness() }, func() { c32RoundTrip(r, c) })
		r.Evals(1)
	}
	A := h2frame.Append
	for _, b := range [][]byte{
		A(A(nil, h2frame.PushPromise, 0, 1, []byte{0, 0, 0, 2, 0x82}), h2frame.Ping, 0, 0, make([]byte, 8)),
		A(nil, h2frame.Settings, 0, 0, []byte{0, 4, 0, 0, 0, 1, 0, 4, 0x80, 0, 0, 0}),
		A(nil, h2frame.Settings, 0, 0, []byte{0, 2, 0, 0, 0, 2}),
	} {
		c32CheckStream(r, &c32Stream{Gen: "seed", Max: 1 << 14, Bytes: b})
	}
	c32CheckStream(r, &c32Stream{Gen: "seed-meta", Max: 1 << 14, Meta: true,
		Bytes: A(nil, h2frame.Headers, h2frame.FlagEndHeaders, 1, []byte{0x00, 0x01, 0x61, 0x85, 0x00, 0x3f, 0xff, 0xff, 0xff})})

	// the largest frames there are (length 2^24-1), a fixed list per tier
	fillOver := bytes.Repeat([]byte{byte(r.Rng("c32-max").Intn(256))}, 1<<24)
	fill := fillOver[:1<<24-1]
	for k, nbig := 0, r.N(6, 30); k < nbig; k++ {
		var o c32Op
		switch k % 6 {
		case 0:
			o = c32Op{T: "data", Stream: 1, Pad: -1, Body: fill}
		case 1:
			o = c32Op{T: "data", Stream: 1<<31 - 1, EndStream: true, Pad: 255, Body: fill[:1<<24-1-256]}
		case 2:
			o = c32Op{T: "headers", Stream: 3, EndHeaders: true, Pad: 1, Dep: 5, Weight: 255, Body: fill[:1<<24-1-7]}
		case 3:
			o = c32Op{T: "headers", Stream: 3, Body: fill[:100]}
		case 4:
			o = c32Op{T: "goaway", Last: 1<<31 - 1, Code: 0xffffffff, Body: fill[:1<<24-1-8]}
		case 5:
			o = c32Op{T: "raw", RawType: 0xfe, RawFlags: 0xff, Stream: 7, Body: fill}
		}
		c := &c32Case{Ops: []c32Op{o}}
		if k%6 == 3 {
			c.Ops = append(c.Ops, c32Op{T: "cont", Stream: 3, EndHeaders: true, Body: fill})
		}
		r.Try(func() interface{} { return c.witness() }, func() { c32RoundTrip(r, c) })
		r.Case(vkit.Hash64("max", fmt.Sprint(k)), true)
	}
	{ // one octet more must be refused by the writer without writing anything
		var wire bytes.Buffer
		err := b2.NewFramer(&wire, nil).WriteData(1, false, fillOver)
		if err == nil || wire.Len() != 0 {
			r.Violation("write:data:length-2^24-accepted", fmt.Sprintf("WriteData with a 2^24-octet payload: err=%v, %d octets written", err, wire.Len()), map[string]interface{}{"len": 1 << 24})
		}
		r.Evals(1)
	}
	n1 := r.N(30000, 1500000)
	vkit.Parallel(n1, 0, func(i int) {
		g := r.Rng("c32-ops", i)
		c := &c32Case{Ops: c32GenOps(g, 1+g.Intn(12), true)}
		r.Try(func() interface{} { return c.witness() }, func() { c32RoundTrip(r, c) })
		key := vkit.Hash64(fmt.Sprintf("%v", c.witness().Ops))
		r.Case(key, len(c.Ops) >= 2)
		if len(c.Ops) <= 3 && r.WantSample() {
			r.Sample(c.witness())
		}
	})
	n2 := r.N(100000, 5000000)
	vkit.Parallel(n2, 0, func(i int) { c32CheckStream(r, c32GenStream(r, i)) })
	n3 := r.N(10000, 300000)
	vkit.Parallel(n3, 0, func(i int) { c32CheckStream(r, c32GenMeta(r, i)) })
	c32C.flush(r)
	for _, k := range []string{"frames_read_back_identical_bfe->bfe", "frames_read_back_identical_bfe->xnet", "frames_read_back_identical_xnet->bfe",
		"frames_accepted_and_conformant", "truncated_frame_rejected", "meta_frames_read",
		"rejected:frame-size:exceeds-max-frame-size", "rejected:stream-0:data", "rejected:stream-0:settings-on-stream",
		"rejected:padding:data-pad-length-exceeds-payload", "rejected:padding:headers-pad-length-exceeds-remaining", "rejected:padding:push-promise-pad-length-exceeds-remaining",
		"rejected:settings:length-not-multiple-of-6", "rejected:settings:ack-with-payload",
		"rejected:sequencing:non-continuation-inside-header-block", "rejected:sequencing:continuation-on-other-stream", "rejected:sequencing:continuation-without-open-header-block",
		"rejected-by-Setting.Valid:settings-value:enable-push-not-0-or-1", "rejected-by-Setting.Valid:settings-value:max-frame-size-out-of-range"} {
		if c32C.get(k) == 0 {
			r.Inconclusive("workload never observed: " + k)
		}
	}
}
