package main

import (
	"encoding/hex"
	"fmt"
	"strings"

	bh "github.com/bfenetworks/bfe/bfe_http2/hpack"
	xh "golang.org/x/net/http2/hpack"

	"verifharness/ref/hpackx"
	"verifharness/vkit"
)

// C31: for every byte string (a sequence of header blocks fed to one decoding
// context) bfe's HPACK decoder either emits exactly the fields an RFC 7541
// reference decoder emits or reports an error; it never panics; the result
// does not depend on how the block is split over Write calls. The error
// classes the statement names must be errors.
//
// References: ref/hpackx (written from RFC 7541) and golang.org/x/net's hpack
// at the version bfe pins. The oracle only speaks where the two agree (see
// c31References for the one documented difference).

// c31StrictUpdatePos: RFC 7541 4.2 requires the *encoder* to put a dynamic
// table size update at the start of a block; it does not say that a decoder
// must reject one that follows a field, and the C31 statement does not name it
// among the errors. So bfe accepting it is counted (update_mid_block_accepted),
// not alarmed. Set to true to alarm with sig size-update:not-at-block-start.
const c31StrictUpdatePos = false

type c31Case struct {
	Gen       string   `json:"gen"`
	MaxTable  uint32   `json:"max_table"`
	MaxStrLen int      `json:"max_str_len"`
	Blocks    []string `json:"blocks_hex"`
	Split     string   `json:"split,omitempty"`
	blocks    [][]byte
}

func (c *c31Case) witness() *c31Case {
	w := *c
	w.Blocks = nil
	for _, b := range c.blocks {
		w.Blocks = append(w.Blocks, hex.EncodeToString(b))
	}
	return &w
}

type c31Out struct {
	Fields []hpackx.Field `json:"fields"`
	Err    string         `json:"err"`
}

type c31Splitter struct {
	name string
	fn   func(bi int, b []byte) [][]byte
}

func c31Whole() c31Splitter {
	return c31Splitter{"whole", func(_ int, b []byte) [][]byte { return [][]byte{b} }}
}

func c31Bytewise() c31Splitter {
	return c31Splitter{"bytewise", func(_ int, b []byte) [][]byte {
		out := make([][]byte, 0, len(b))
		for i := range b {
			out = append(out, b[i:i+1])
		}
		return out
	}}
}

// c31CutAt cuts every block of >= 2 bytes in two at 1 + j mod (len-1).
func c31CutAt(j int) c31Splitter {
	return c31Splitter{fmt.Sprintf("cut@1+%d mod (len-1)", j), func(_ int, b []byte) [][]byte {
		if len(b) < 2 {
			return [][]byte{b}
		}
		k := 1 + j%(len(b)-1)
		return [][]byte{b[:k], b[k:]}
	}}
}

func c31RunBfe(c *c31Case, blocks [][]byte, sp c31Splitter) []c31Out {
	var cur []hpackx.Field
	d := bh.NewDecoder(c.MaxTable, func(f bh.HeaderField) error {
		cur = append(cur, hpackx.Field{Name: f.Name, Value: f.Value, Sensitive: f.Sensitive})
		return nil
	})
	if c.MaxStrLen != 0 {
		d.SetMaxStringLength(c.MaxStrLen)
	}
	var outs []c31Out
	for bi, b := range blocks {
		cur = nil
		var err error
		for _, ch := range sp.fn(bi, b) {
			if _, err = d.Write(ch); err != nil {
				break
			}
		}
		if err == nil {
			err = d.Close()
		}
		o := c31Out{Fields: cur}
		if err != nil {
			o.Err = err.Error()
		}
		outs = append(outs, o)
		if err != nil {
			break
		}
	}
	return outs
}

func c31FieldsEq(a, b []hpackx.Field) bool {
	if len(a) != len(b) {
		return false
	}
	for i := range a {
		if a[i] != b[i] {
			return false
		}
	}
	return true
}

func c31IsPrefix(p, full []hpackx.Field) bool {
	return len(p) <= len(full) && c31FieldsEq(p, full[:len(p)])
}

func c31DiffShape(got, want []hpackx.Field) string {
	for i := range got {
		if i >= len(want) {
			return "extra-field"
		}
		switch {
		case got[i].Name != want[i].Name:
			return "name"
		case got[i].Value != want[i].Value:
			return "value"
		case got[i].Sensitive != want[i].Sensitive:
			return "never-index-flag"
		}
	}
	return "missing-field"
}

type c31Ref struct {
	fields []hpackx.Field
	cls    string // lenient reference
	scls   string // strict (update position) reference
}

// c31References runs both references over the blocks. It returns the verdicts
// for the blocks on which they agree, and ok=false when they disagree in a way
// that is not one of the documented differences (harness defect: the case is
// skipped and the run becomes inconclusive).
func c31References(c *c31Case) (refs []c31Ref, ok bool, why string) {
	ref := hpackx.NewDecoder(c.MaxTable)
	var xcur []hpackx.Field
	xd := xh.NewDecoder(c.MaxTable, func(f xh.HeaderField) {
		xcur = append(xcur, hpackx.Field{Name: f.Name, Value: f.Value, Sensitive: f.Sensitive})
	})
	for _, b := range c.blocks {
		s := ref.Clone()
		s.Strict = true
		_, scls := s.DecodeBlock(b)
		x := ref.Clone()
		x.XNetRule = true
		xf, xcls := x.DecodeBlock(b)
		rf, rcls := ref.DecodeBlock(b)
		xcur = nil
		_, xerr := xd.Write(b)
		if xerr == nil {
			xerr = xd.Close()
		}
		// The only difference between the two references is the rule for the
		// position of size updates; hpackx in XNetRule mode must agree with
		// x/net exactly (same fields, error on the same blocks). x/net's integer
		// limit (9 continuation octets) is the limit hpackx adopts too.
		if (xerr == nil) != (xcls == "") || !c31FieldsEq(xf, xcur) {
			return refs, false, fmt.Sprintf("x/net: %v err=%v; hpackx(x/net rule): %v %q", xcur, xerr, xf, xcls)
		}
		if xcls != "" && rcls == "" && xcls != hpackx.ErrUpdateXNetRule {
			return refs, false, fmt.Sprintf("hpackx lenient accepts, x/net-rule mode rejects with %q", xcls)
		}
		refs = append(refs, c31Ref{rf, rcls, scls})
		if rcls != "" || xerr != nil {
			break // connection is dead for at least one reference: judge no further
		}
	}
	return refs, true, ""
}

var c31C = newCtrs()

func c31Check(r *vkit.Run, c *c31Case) {
	if c.blocks == nil {
		for _, h := range c.Blocks {
			b, err := hex.DecodeString(h)
			if err != nil {
				r.Inconclusive("bad replay hex: " + err.Error())
				return
			}
			c.blocks = append(c.blocks, b)
		}
	}
	refs, ok, why := c31References(c)
	if !ok {
		c31C.add("ref_disagree", 1)
		if n := c31C.get("ref_disagree"); n <= 3 {
			r.Extra(fmt.Sprintf("ref_disagree_%d", n), map[string]interface{}{"case": c.witness(), "why": why})
		}
		r.Evals(1)
		return
	}
	blocks := c.blocks[:len(refs)]
	total := 0
	for _, b := range blocks {
		total += len(b)
	}

	var whole []c31Out
	if r.Try(func() interface{} { return c.witness() }, func() { whole = c31RunBfe(c, blocks, c31Whole()) }) {
		c31C.add("bfe_panics", 1)
		c31Account(r, c, refs)
		return
	}
	violated := false
	for bi, o := range whole {
		rf := refs[bi]
		if o.Err != "" {
			if rf.cls != "" {
				c31C.add("both_reject", 1)
			} else {
				c31C.add("bfe_rejects_ref_accepts(allowed)", 1)
			}
			break
		}
		if rf.cls != "" {
			r.Violation(rf.cls,
				fmt.Sprintf("bfe decoder accepts block %d (emits %d fields, no error from Write/Close) which RFC 7541 makes a decoding error: %s", bi, len(o.Fields), rf.cls),
				map[string]interface{}{"case": c.witness(), "block": bi, "reference_error": rf.cls, "bfe_fields": o.Fields})
			violated = true
			break
		}
		if !c31FieldsEq(o.Fields, rf.fields) {
			r.Violation("fields-differ:"+c31DiffShape(o.Fields, rf.fields),
				fmt.Sprintf("bfe decoder emits different fields than both references for block %d", bi),
				map[string]interface{}{"case": c.witness(), "block": bi, "bfe_fields": o.Fields, "reference_fields": rf.fields})
			violated = true
			break
		}
		c31C.add("both_accept_same_fields", 1)
		if rf.scls == hpackx.ErrUpdateNotAtStart {
			c31C.add("update_mid_block_accepted(not alarmed)", 1)
			if c31StrictUpdatePos {
				r.Violation(hpackx.ErrUpdateNotAtStart, "bfe accepts a dynamic table size update after a field representation",
					map[string]interface{}{"case": c.witness(), "block": bi})
				violated = true
				break
			}
		}
	}
	c31Account(r, c, refs)
	if violated {
		return
	}

	// incremental delivery: the result must not depend on the split
	var sps []c31Splitter
	maxLen := 0
	for _, b := range blocks {
		if len(b) > maxLen {
			maxLen = len(b)
		}
	}
	if maxLen >= 2 {
		sps = append(sps, c31Bytewise())
		if maxLen <= 24 {
			for j := 0; j < maxLen-1; j++ {
				sps = append(sps, c31CutAt(j))
			}
		} else {
			g := vkit.NewRand(vkit.Hash64(string(blocks[len(blocks)-1])))
			for k := 0; k < 4; k++ {
				sps = append(sps, c31CutAt(g.Intn(maxLen-1)))
			}
		}
	}
	if c.Split != "" { // replay of a split-dependence witness: only that split
		var keep []c31Splitter
		for _, sp := range sps {
			if sp.name == c.Split {
				keep = append(keep, sp)
			}
		}
		sps = keep
	}
	for _, sp := range sps {
		var outs []c31Out
		if r.Try(func() interface{} { w := c.witness(); w.Split = sp.name; return w }, func() { outs = c31RunBfe(c, blocks, sp) }) {
			c31C.add("bfe_panics", 1)
			return
		}
		c31C.add("split_runs", 1)
		shape := ""
		if len(outs) != len(whole) {
			shape = "error-at-different-block"
		} else {
			for i := range outs {
				switch {
				case (outs[i].Err == "") != (whole[i].Err == "") && whole[i].Err == "":
					shape = "whole-accepts-split-rejects"
				case (outs[i].Err == "") != (whole[i].Err == ""):
					shape = "whole-rejects-split-accepts"
				case !c31FieldsEq(outs[i].Fields, whole[i].Fields):
					shape = "fields"
				}
				if shape != "" {
					break
				}
			}
		}
		if shape != "" {
			w := c.witness()
			w.Split = sp.name
			r.Violation("split-dependence:"+shape, "result of decoding depends on how the block is split over Write calls ("+sp.name+")",
				map[string]interface{}{"case": w, "whole": whole, "split": outs})
			return
		}
	}
}

func c31Account(r *vkit.Run, c *c31Case, refs []c31Ref) {
	var sb strings.Builder
	fmt.Fprintf(&sb, "%d|%d", c.MaxTable, c.MaxStrLen)
	nfields := 0
	for i, b := range c.blocks {
		sb.WriteByte('|')
		sb.Write(b)
		if i < len(refs) {
			nfields += len(refs[i].fields)
			if refs[i].cls != "" {
				c31C.add("ref_err_"+refs[i].cls, 1)
			}
		}
	}
	// non-trivial: the reference decoder got past the first header field
	// (>= 1 field decoded before the end or the error)
	r.CaseS(sb.String(), nfields >= 1)
	c31C.add("gen_"+c.Gen, 1)
	if r.WantSample() && nfields >= 2 && len(refs) > 0 && refs[len(refs)-1].cls != "" {
		r.Sample(map[string]interface{}{"case": c.witness(), "reference_error": refs[len(refs)-1].cls, "fields_before": nfields})
	}
}

// ---- generators --------------------------------------------------------

var c31Names = []string{"a", "x-k", "cookie", "custom-key", ":path", "x-long-name-0123456789", "accept", "etag", "X-Upper"}
var c31Values = []string{"", "v", "1", "gzip", "custom-value", "/index.html", "Mon, 21 Oct 2013 20:13:21 GMT",
	"https://www.example.com", strings.Repeat("a", 126), strings.Repeat("b7", 64), strings.Repeat("z", 300), "\x00\x01\xff", "~~~~"}

type c31Gen struct {
	g       *vkit.Rand
	st      *hpackx.Decoder // model of the state after the bytes generated so far
	allowed uint32
}

func (b *c31Gen) str(pool []string) string {
	g := b.g
	switch g.Intn(10) {
	case 0:
		return string(g.Bytes(g.Intn(12)))
	case 1:
		n := g.Intn(6)
		s := make([]byte, n)
		for i := range s {
			s[i] = "0aeiost-/:"[g.Intn(10)]
		}
		return string(s)
	}
	return g.PickS(pool)
}

func (b *c31Gen) validIndex() uint64 { return uint64(1 + b.g.Intn(61+len(b.st.Dyn))) }

// validRepr appends one valid representation and updates the model.
func (b *c31Gen) validRepr(dst []byte, atStart bool) []byte {
	g := b.g
	start := len(dst)
	switch k := g.Intn(12); {
	case k < 3:
		dst = hpackx.AppendIndexed(dst, b.validIndex())
	case k == 3 && atStart:
		v := uint64(g.Intn(int(b.allowed) + 1))
		switch g.Intn(4) {
		case 0:
			v = 0
		case 1:
			v = uint64(b.allowed)
		}
		dst = hpackx.AppendSizeUpdate(dst, v)
	default:
		kind := []byte{hpackx.KindIncremental, hpackx.KindIncremental, hpackx.KindWithout, hpackx.KindNever}[g.Intn(4)]
		if g.Bool() {
			dst = hpackx.AppendLiteralHead(dst, kind, b.validIndex())
		} else {
			dst = hpackx.AppendLiteralHead(dst, kind, 0)
			dst = hpackx.AppendString(dst, b.str(c31Names), g.Bool())
		}
		dst = hpackx.AppendString(dst, b.str(c31Values), g.Bool())
	}
	b.st.DecodeBlock(dst[start:])
	return dst
}

func (b *c31Gen) validBlock(nmax int) []byte {
	var dst []byte
	n := 1 + b.g.Intn(nmax)
	atStart := true
	for i := 0; i < n; i++ {
		before := len(dst)
		dst = b.validRepr(dst, atStart)
		if dst[before]&0xe0 != 0x20 {
			atStart = false
		}
	}
	return dst
}

var c31Boundary = []byte{0x00, 0x01, 0x0f, 0x10, 0x1f, 0x20, 0x3f, 0x40, 0x7f, 0x80, 0xbe, 0xff}

func c31Mutate(g *vkit.Rand, b []byte) []byte {
	b = append([]byte(nil), b...)
	n := 1 + g.Intn(3)
	for i := 0; i < n; i++ {
		if len(b) == 0 {
			b = append(b, c31Boundary[g.Intn(len(c31Boundary))])
			continue
		}
		p := g.Intn(len(b))
		switch g.Intn(8) {
		case 0:
			b[p] ^= 1 << uint(g.Intn(8))
		case 1:
			b[p] = c31Boundary[g.Intn(len(c31Boundary))]
		case 2:
			b[p] = byte(g.Intn(256))
		case 3: // insert
			b = append(b[:p], append([]byte{byte(g.Intn(256))}, b[p:]...)...)
		case 4: // delete
			b = append(b[:p], b[p+1:]...)
		case 5: // truncate
			b = b[:p]
		case 6: // duplicate a slice
			q := p + g.Intn(len(b)-p+1)
			b = append(b[:q], append(append([]byte(nil), b[p:q]...), b[q:]...)...)
		case 7: // last byte (Huffman tails live there)
			b[len(b)-1] = byte(g.Intn(256))
		}
	}
	return b
}

var c31LongSyms = []int{0, 1, 9, 10, 13, 22, 127, 128, 200, 249, 255, '\\', '{', '<', '!'}

// huffTail builds a Huffman payload with a chosen kind of tail.
func c31HuffTail(g *vkit.Rand) (payload []byte, tail string) {
	var w hpackx.Bits
	ns := g.Intn(7)
	for i := 0; i < ns; i++ {
		if g.Chance(1, 4) {
			w.AddSym(c31LongSyms[g.Intn(len(c31LongSyms))])
		} else {
			w.AddSym(int("0aeiost12-/%=.Xz"[g.Intn(16)]))
		}
	}
	switch k := g.Intn(11); k {
	case 0:
		w.Pad(1)
		tail = "valid"
	case 1:
		w.Pad(0)
		tail = "zero-pad"
	case 2:
		for w.N%8 != 0 {
			w.AddBit(byte(g.Intn(2)))
		}
		tail = "random-pad"
	case 3:
		w.Pad(1)
		for i, n := 0, 1+g.Intn(4); i < n; i++ {
			w.Add(0xff, 8)
		}
		tail = "extra-ff"
	case 4:
		w.AddSym(hpackx.EOS)
		w.Pad(1)
		tail = "eos-at-end"
	case 5:
		w.AddSym(hpackx.EOS)
		for i, n := 0, 1+g.Intn(3); i < n; i++ {
			w.AddSym(int("0aeiost"[g.Intn(7)]))
		}
		w.Pad(1)
		tail = "eos-inside"
	case 6, 7: // cut a long code
		sym := c31LongSyms[g.Intn(len(c31LongSyms))]
		code, n := hpackx.HuffCodeOf(sym)
		keep := 1 + g.Intn(int(n)-1)
		w.Add(code>>(uint(n)-uint(keep)), uint8(keep))
		w.Pad(byte(g.Intn(2)))
		tail = "cut-symbol"
	case 8:
		return g.Bytes(1 + g.Intn(8)), "random-bytes"
	case 9:
		n := 1 + g.Intn(5)
		for i := 0; i < n; i++ {
			w.Add(0xff, 8)
		}
		tail = "all-ones"
	case 10: // ones up to just below / at EOS length after a partial byte
		w.Pad(1)
		for w.N < 8 {
			w.Add(0xff, 8)
		}
		nb := 22 + g.Intn(10)
		for i := 0; i < nb; i++ {
			w.AddBit(1)
		}
		w.Pad(byte(g.Intn(2)))
		tail = "near-eos"
	}
	return w.B, tail
}

var c31Tables = []uint32{0, 1, 32, 33, 64, 100, 256, 4096, 4096, 4096, 65536}

func c31Generate(r *vkit.Run, i int) *c31Case {
	g := r.Rng("c31", i)
	c := &c31Case{MaxTable: c31Tables[g.Intn(len(c31Tables))]}
	if g.Chance(1, 8) {
		c.MaxStrLen = []int{1, 8, 64, 300}[g.Intn(4)]
	}
	b := &c31Gen{g: g, st: hpackx.NewDecoder(c.MaxTable), allowed: c.MaxTable}
	// 0-2 valid blocks first, so that the dynamic table has content
	for n := g.Intn(3); n > 0; n-- {
		c.blocks = append(c.blocks, b.validBlock(6))
	}
	var blk []byte
	atStart := true
	for n := g.Intn(3); n > 0; n-- { // valid representations in front of the target
		before := len(blk)
		blk = b.validRepr(blk, atStart)
		if blk[before]&0xe0 != 0x20 {
			atStart = false
		}
	}
	kinds := []byte{hpackx.KindIncremental, hpackx.KindWithout, hpackx.KindNever}
	idxChoices := func() uint64 {
		n := uint64(len(b.st.Dyn))
		return []uint64{0, 0, 1, 61, 62, 61 + n, 62 + n, 63 + n, 127, 128, 1 << 32, 1 << 62}[g.Intn(12)]
	}
	switch k := g.Intn(100); {
	case k < 12:
		c.Gen = "valid"
		blk = append(blk, b.validBlock(8)...)
	case k < 40:
		c.Gen = "mutate"
		blk = append(blk, b.validBlock(6)...)
		blk = c31Mutate(g, blk)
	case k < 62:
		payload, tail := c31HuffTail(g)
		c.Gen = "huff-" + tail
		kind := kinds[g.Intn(3)]
		if g.Chance(1, 3) { // as a name
			blk = hpackx.AppendLiteralHead(blk, kind, 0)
			blk = hpackx.AppendRawString(blk, true, payload, -1)
			blk = hpackx.AppendString(blk, b.str(c31Values), g.Bool())
		} else {
			if g.Bool() {
				blk = hpackx.AppendLiteralHead(blk, kind, b.validIndex())
			} else {
				blk = hpackx.AppendLiteralHead(blk, kind, 0)
				blk = hpackx.AppendString(blk, b.str(c31Names), g.Bool())
			}
			blk = hpackx.AppendRawString(blk, true, payload, -1)
		}
	case k < 70:
		c.Gen = "index"
		idx := idxChoices()
		if g.Bool() {
			blk = hpackx.AppendIndexed(blk, idx)
		} else {
			blk = hpackx.AppendLiteralHead(blk, kinds[g.Intn(3)], idx)
			if idx == 0 {
				if g.Bool() { // really index 0 as a *name reference* is "new name": make the indexed form instead
					blk = blk[:len(blk)-1]
					blk = hpackx.AppendIndexed(blk, 0)
				} else {
					blk = hpackx.AppendString(blk, b.str(c31Names), g.Bool())
					blk = hpackx.AppendString(blk, b.str(c31Values), g.Bool())
				}
			} else {
				blk = hpackx.AppendString(blk, b.str(c31Values), g.Bool())
			}
		}
	case k < 79:
		c.Gen = "size-update"
		a := uint64(c.MaxTable)
		vs := []uint64{0, 1, a, a + 1, a + 1, 2*a + 7, 4096, 4097, 65536, 65537, 1<<32 - 1, 1 << 32, 1 << 40}
		if a > 0 {
			vs = append(vs, a-1)
		}
		for n := 1 + g.Intn(2); n > 0; n-- {
			blk = hpackx.AppendSizeUpdate(blk, vs[g.Intn(len(vs))])
		}
		if g.Bool() { // something that references the (possibly evicted) table afterwards
			blk = hpackx.AppendIndexed(blk, 62+uint64(g.Intn(3)))
		}
	case k < 87:
		c.Gen = "varint"
		extra := 1 + g.Intn(12)
		switch g.Intn(5) {
		case 0:
			blk = hpackx.AppendInt(blk, 0x80, 7, 127+uint64(g.Intn(3)), extra)
		case 1:
			blk = hpackx.AppendInt(blk, 0x20, 5, 31+uint64(g.Intn(int(c.MaxTable)+2)), extra)
		case 2:
			kind := kinds[g.Intn(3)]
			n := uint8(4)
			if kind == hpackx.KindIncremental {
				n = 6
			}
			blk = hpackx.AppendInt(blk, kind, n, (1<<n-1)+uint64(g.Intn(3)), extra)
			blk = hpackx.AppendString(blk, "v", false)
		case 3: // string length with redundant octets
			blk = hpackx.AppendLiteralHead(blk, kinds[g.Intn(3)], 0)
			blk = hpackx.AppendString(blk, "n", false)
			s := strings.Repeat("q", 127+g.Intn(4))
			blk = hpackx.AppendInt(blk, 0, 7, uint64(len(s)), extra)
			blk = append(blk, s...)
		case 4: // all-ones continuation: huge values
			first := []byte{0xff, 0x7f, 0x3f, 0x1f, 0x0f, 0x4f}[g.Intn(6)]
			blk = append(blk, first)
			for n := 1 + g.Intn(12); n > 0; n-- {
				blk = append(blk, 0xff)
			}
			blk = append(blk, byte(g.Intn(128)))
		}
	case k < 93:
		c.Gen = "length"
		blk = hpackx.AppendLiteralHead(blk, kinds[g.Intn(3)], 0)
		blk = hpackx.AppendString(blk, "n", false)
		p := g.Bytes(g.Intn(10))
		huff := g.Bool()
		decl := []int64{int64(len(p)) + 1, int64(len(p)) + 100, int64(len(p)) - 1, 0, 127, 128, 16383, 1 << 32, 1 << 62}[g.Intn(9)]
		if decl < 0 {
			decl = 0
		}
		blk = hpackx.AppendRawString(blk, huff, p, decl)
	default:
		c.Gen = "random"
		blk = append(blk, g.Bytes(1+g.Intn(40))...)
		if g.Bool() {
			blk[len(blk)-1-g.Intn(len(blk))] = c31Boundary[g.Intn(len(c31Boundary))]
		}
	}
	// sometimes continue with valid-looking bytes after the target (does the decoder go on?)
	if g.Chance(1, 3) {
		blk = hpackx.AppendIndexed(blk, uint64(1+g.Intn(61)))
	}
	c.blocks = append(c.blocks, blk)
	if g.Chance(1, 4) {
		c.blocks = append(c.blocks, []byte{0x80 | byte(1+g.Intn(61)), 0xbe})
	}
	return c
}

// c31Seeds: literal without indexing, new name "a", Huffman-coded value.
var c31Seeds = []string{
	"00016181ff",         // value = ff: 8 one bits of padding
	"0001618100",         // value = 00: '0' (00000) + padding 000
	"00016182fffe",       // value = fffe: 16 bits of an unfinished code
	"00016185003fffffff", // value = '0' '0' + EOS (30 one bits), ends in the last octet
	"00016184ffffffff",   // value = EOS + 2 bits
	"000161820007",       // valid: "00" + 1-padding
	"82",                 // valid: :method GET
}

func c31(r *vkit.Run) {
	r.SetRule("case = decoder settings (max table 0..65536, optional max string length) + 1-5 header blocks fed to one bfe hpack.Decoder (Write..., Close per block): 0-2 valid blocks to fill the dynamic table, then a target block from one of: valid representations; byte mutations of a valid block; a literal whose Huffman payload has a chosen tail (valid 1-padding, 0-padding, random padding, 1-4 extra 0xff octets, EOS at end/inside, a long code cut mid-symbol, all ones, 22-31 one bits); index 0 / last / last+1 / huge in each indexed form; size updates 0/limit/limit+1/2^32.. at the start, after a field, twice; integers with 1-12 redundant continuation octets or all-ones continuation; string length above/below the remaining octets; random bytes. Oracle: ref/hpackx (RFC 7541) and x/net hpack must agree (else the case is skipped and the run is inconclusive); bfe may reject anything (the statement allows an error) but when it accepts a block both references must accept it with identical (name,value,never-index) lists; every run is wrapped in recover(); each case is re-run bytewise and cut in two at every position (blocks <= 24 octets) or 4 positions and must give the same fields/error. Not alarmed (RFC silent on the decoder side, statement does not name it): a size update after a field in the same block. Non-trivial = reference decoded >= 1 field before the end/error; distinct = (settings, block bytes)")
	r.Assume("golang.org/x/net/http2/hpack v0.0.0-20201021035429 as second reference; Huffman code table derived from x/net's encoder and validated (complete prefix code, RFC 7541 C.4/C.6 examples)")
	if r.Replay != "" {
		var w struct {
			Case c31Case `json:"case"`
		}
		if err := r.LoadReplay(&w); err != nil {
			r.Inconclusive(err.Error())
			return
		}
		c31Check(r, &w.Case)
		c31C.flush(r)
		r.SetMinDistinct(0)
		return
	}
	// hand-made minimal blocks first (sequentially), so that the first witness
	// kept per signature is a small one
	for _, h := range c31Seeds {
		c := &c31Case{Gen: "seed", MaxTable: 4096, Blocks: []string{h}}
		c31Check(r, c)
	}
	n := r.N(200000, 10000000)
	vkit.Parallel(n, 0, func(i int) {
		c31Check(r, c31Generate(r, i))
	})
	c31C.flush(r)
	if d := c31C.get("ref_disagree"); d > 0 {
		r.Inconclusive(fmt.Sprintf("the two reference decoders disagreed on %d cases (see ref_disagree_* in the evidence): harness defect", d))
	}
	for _, cls := range []string{hpackx.HuffEOS, hpackx.HuffPadOver7, hpackx.HuffTruncOver7, hpackx.HuffPadNotPrefix,
		hpackx.ErrIndexZero, hpackx.ErrIndexBeyond, hpackx.ErrUpdateAboveLimit, hpackx.ErrVarintOverlong, hpackx.ErrTruncated} {
		if c31C.get("ref_err_"+cls) == 0 {
			r.Inconclusive("workload never produced a block of error class " + cls)
		}
	}
	if c31C.get("both_accept_same_fields") == 0 || c31C.get("split_runs") == 0 {
		r.Inconclusive("no accepted block / no split run observed")
	}
}
