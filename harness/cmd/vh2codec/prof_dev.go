package main

import (
	"os"
	"runtime/pprof"
)

func init() {
	if p := os.Getenv("VH2_PROF"); p != "" {
		f, _ := os.Create(p)
		pprof.StartCPUProfile(f)
		profStop = func() { pprof.StopCPUProfile(); f.Close() }
	}
}

var profStop = func() {}
