package main

import (
	"bytes"
	"encoding/hex"
	"fmt"
	"os"
	"strings"
	"time"

	bh "github.com/bfenetworks/bfe/bfe_http2/hpack"
	xh "golang.org/x/net/http2/hpack"

	"verifharness/ref/hpackx"
	"verifharness/vkit"
)

// C30: any sequence of header lists encoded by bfe's HPACK encoder, interleaved
// with announced table size changes, decodes (same settings) to identical
// names, values and never-index flags, and both dynamic tables stay within the
// negotiated size.
//
// Three observers of every block the bfe encoder emits: bfe's own decoder,
// x/net's decoder and the RFC 7541 model ref/hpackx (strict about the position
// of size updates, since RFC 7541 4.2 is a MUST for encoders). The reverse
// direction feeds x/net's encoder output to bfe's decoder.
//
// Table sizes: the encoder's table is the one implied by its emitted stream
// (hpackx recomputes it: sum(len(name)+len(value)+32) with the eviction rules of
// RFC 7541 4.2-4.4); bfe's decoder table is read back through the public API by
// decoding indexed representations 62, 63, ... until the first invalid index
// (an indexed representation does not modify the table).

type c30F struct {
	N, V string
	S    bool
}

func (f c30F) MarshalJSON() ([]byte, error) {
	s := ""
	if f.S {
		s = "sensitive"
	}
	return []byte(fmt.Sprintf(`["%s","%s","%s"]`, hex.EncodeToString([]byte(f.N)), hex.EncodeToString([]byte(f.V)), s)), nil
}

func (f *c30F) UnmarshalJSON(b []byte) error {
	var a [3]string
	p := strings.Split(strings.Trim(string(b), "[] \n"), ",")
	for i := 0; i < 3 && i < len(p); i++ {
		a[i] = strings.Trim(strings.TrimSpace(p[i]), `"`)
	}
	n, err := hex.DecodeString(a[0])
	if err != nil {
		return err
	}
	v, err := hex.DecodeString(a[1])
	if err != nil {
		return err
	}
	f.N, f.V, f.S = string(n), string(v), a[2] == "sensitive"
	return nil
}

type c30Op struct {
	Kind   string `json:"kind"` // block | announce (new SETTINGS_HEADER_TABLE_SIZE of the decoding side) | limit (encoder's own SetMaxDynamicTableSizeLimit)
	V      uint32 `json:"v,omitempty"`
	Fields []c30F `json:"fields_hex,omitempty"`
}

type c30Case struct {
	Ops []c30Op `json:"ops"`
}

var c30C = newCtrs()

func c30Eq(a []c30F, b []hpackx.Field) string {
	for i := range a {
		if i >= len(b) {
			return "missing-field"
		}
		switch {
		case a[i].N != b[i].Name:
			return "name"
		case a[i].V != b[i].Value:
			return "value"
		case a[i].S != b[i].Sensitive:
			return "never-index-flag"
		}
	}
	if len(b) > len(a) {
		return "extra-field"
	}
	return ""
}

// c30Probe reads bfe's decoder table through the public API.
func c30Probe(d *bh.Decoder, sink *[]hpackx.Field) (n int, size uint64) {
	for i := uint64(62); i < 62+20000; i++ {
		*sink = (*sink)[:0]
		_, err := d.Write(hpackx.AppendIndexed(nil, i))
		d.Close()
		if err != nil || len(*sink) != 1 {
			break
		}
		n++
		size += uint64(len((*sink)[0].Name)) + uint64(len((*sink)[0].Value)) + 32
	}
	*sink = (*sink)[:0]
	return
}

// c30Run drives one direction. enc is "bfe" or "xnet". obs (may be nil) is told
// every integer the RFC model parses out of the stream bfe's encoder emitted.
func c30Run(r *vkit.Run, c *c30Case, encKind string, obs func(site string, prefix uint8, v uint64)) (nontrivial bool) {
	var buf bytes.Buffer
	var bEnc *bh.Encoder
	var xEnc *xh.Encoder
	if encKind == "bfe" {
		bEnc = bh.NewEncoder(&buf)
	} else {
		xEnc = xh.NewEncoder(&buf)
	}
	var bGot, xGot []hpackx.Field
	bDec := bh.NewDecoder(4096, func(f bh.HeaderField) error {
		bGot = append(bGot, hpackx.Field{Name: f.Name, Value: f.Value, Sensitive: f.Sensitive})
		return nil
	})
	xDec := xh.NewDecoder(4096, func(f xh.HeaderField) {
		xGot = append(xGot, hpackx.Field{Name: f.Name, Value: f.Value, Sensitive: f.Sensitive})
	})
	xAlive := encKind == "bfe" // x/net's decoder only observes the bfe encoder
	ref := hpackx.NewDecoder(4096)
	ref.Strict = true
	if encKind == "bfe" {
		ref.IntHook = obs
	}
	S := uint32(4096)
	wit := func(extra map[string]interface{}) map[string]interface{} {
		m := map[string]interface{}{"case": c, "encoder": encKind, "negotiated_max": S}
		for k, v := range extra {
			m[k] = v
		}
		if oi, ok := extra["op"].(int); ok && oi+1 < len(c.Ops) {
			// the run stops at the first violation: later ops are not part of the witness
			m["case"] = &c30Case{Ops: c.Ops[:oi+1]}
		}
		return m
	}
	dir := encKind + "-enc"
	nblk := 0
	for oi, op := range c.Ops {
		switch op.Kind {
		case "announce":
			// what an HTTP/2 endpoint does on a new SETTINGS_HEADER_TABLE_SIZE from the
			// decoding peer: the encoder is told (bfe: serverConn.processSetting), the
			// decoder's limit for size updates follows its own announcement.
			S = op.V
			if bEnc != nil {
				bEnc.SetMaxDynamicTableSize(op.V)
			} else {
				xEnc.SetMaxDynamicTableSize(op.V)
			}
			bDec.SetAllowedMaxDynamicTableSize(op.V)
			xDec.SetAllowedMaxDynamicTableSize(op.V)
			ref.SetAllowed(op.V)
			continue
		case "limit":
			if bEnc != nil {
				bEnc.SetMaxDynamicTableSizeLimit(op.V)
			} else {
				xEnc.SetMaxDynamicTableSizeLimit(op.V)
			}
			continue
		}
		buf.Reset()
		for _, f := range op.Fields {
			var err error
			if bEnc != nil {
				err = bEnc.WriteField(bh.HeaderField{Name: f.N, Value: f.V, Sensitive: f.S})
			} else {
				err = xEnc.WriteField(xh.HeaderField{Name: f.N, Value: f.V, Sensitive: f.S})
			}
			if err != nil {
				if bEnc != nil {
					r.Violation("encode-error", "Encoder.WriteField failed: "+err.Error(), wit(map[string]interface{}{"op": oi}))
				}
				return
			}
		}
		blk := append([]byte(nil), buf.Bytes()...)
		nblk++
		c30C.add("blocks_"+dir, 1)
		c30C.add("fields_"+dir, int64(len(op.Fields)))
		w := func() map[string]interface{} {
			return wit(map[string]interface{}{"op": oi, "block_hex": hex.EncodeToString(blk)})
		}

		// x/net's decoder rule for size updates (see hpackx.Decoder.XNetRule): predict it
		xq := ref.Clone() // state before the block; only decoded if x/net rejects
		xq.Strict, xq.XNetRule, xq.IntHook = false, true, nil

		// (a) the RFC model on the emitted stream
		updBefore, evBefore, refsBefore := ref.Updates, ref.Evicted, ref.DynRefs
		rf, cls := ref.DecodeBlock(blk)
		if cls != "" {
			if encKind == "bfe" {
				r.Violation("encoder-stream:"+cls, "the block emitted by bfe's encoder is not a valid RFC 7541 header block: "+cls, w())
			} else {
				c30C.add("xnet_encoder_stream_rejected_by_model", 1)
			}
			return
		}
		c30C.add("size_updates_in_stream_"+dir, int64(ref.Updates-updBefore))
		c30C.add("evictions_"+dir, int64(ref.Evicted-evBefore))
		c30C.add("dynamic_refs_"+dir, int64(ref.DynRefs-refsBefore))
		if ref.Size == uint64(S) && S > 0 {
			c30C.add("table_exactly_full_"+dir, 1)
		}
		if sh := c30Eq(op.Fields, rf); sh != "" {
			if encKind == "bfe" {
				r.Violation("roundtrip:bfe-enc->rfc-model:"+sh, "the RFC 7541 model decodes the bfe encoder's block to different fields than were encoded",
					wit(map[string]interface{}{"op": oi, "block_hex": hex.EncodeToString(blk), "decoded": rf}))
			} else {
				c30C.add("xnet_encoder_stream_differs_in_model", 1)
			}
			return
		}
		if encKind == "bfe" && (ref.Size > uint64(S) || ref.Max > uint64(S)) {
			r.Violation("table-size:bfe-encoder-exceeds-negotiated",
				fmt.Sprintf("after the block the dynamic table implied by bfe's encoder stream has size %d / maximum %d, negotiated maximum is %d", ref.Size, ref.Max, S), w())
			return
		}

		// (b) bfe's decoder
		bGot = bGot[:0]
		_, err := bDec.Write(blk)
		if err == nil {
			err = bDec.Close()
		}
		if err != nil {
			r.Violation("decode-error:"+dir+"->bfe-dec", "bfe's decoder rejects a valid block: "+err.Error(), w())
			return
		}
		if sh := c30Eq(op.Fields, bGot); sh != "" {
			r.Violation("roundtrip:"+dir+"->bfe-dec:"+sh, "bfe's decoder returns different fields than were encoded",
				wit(map[string]interface{}{"op": oi, "block_hex": hex.EncodeToString(blk), "decoded": append([]hpackx.Field(nil), bGot...)}))
			return
		}
		pn, psize := c30Probe(bDec, &bGot)
		c30C.add("probed_entries", int64(pn))
		if psize > uint64(S) {
			r.Violation("table-size:bfe-decoder-exceeds-negotiated",
				fmt.Sprintf("after the block bfe's decoder holds %d dynamic entries of total size %d, negotiated maximum is %d", pn, psize, S), w())
			return
		}
		if pn != len(ref.Dyn) || psize != ref.Size {
			c30C.add("probe_differs_from_model(not alarmed)", 1)
		}

		// (c) x/net's decoder on bfe's stream
		if xAlive {
			xGot = xGot[:0]
			_, xerr := xDec.Write(blk)
			if xerr == nil {
				xerr = xDec.Close()
			}
			xqCls := ""
			if xerr != nil {
				_, xqCls = xq.DecodeBlock(blk)
			}
			switch {
			case xqCls == hpackx.ErrUpdateXNetRule:
				// x/net's decoder (at this version) rejects a second size update in a
				// block when its table is non-empty, which RFC 7541 4.2 allows: not a bfe fault.
				xAlive = false
				c30C.add("xnet_decoder_quirk_sequences_cut", 1)
			case xerr != nil:
				r.Violation("cross:bfe-enc->xnet-dec:error", "x/net's decoder rejects the block emitted by bfe's encoder: "+xerr.Error(), w())
				return
			default:
				if sh := c30Eq(op.Fields, xGot); sh != "" {
					r.Violation("cross:bfe-enc->xnet-dec:"+sh, "x/net's decoder returns different fields than bfe's encoder was given",
						wit(map[string]interface{}{"op": oi, "block_hex": hex.EncodeToString(blk), "decoded": append([]hpackx.Field(nil), xGot...)}))
					return
				}
				c30C.add("xnet_decoder_blocks_agree", 1)
			}
		}
	}
	return nblk >= 2 && ref.Evicted > 0 && ref.DynRefs > 0
}

func c30Check(r *vkit.Run, c *c30Case) {
	nt := false
	if r.Try(func() interface{} { return c }, func() { nt = c30Run(r, c, "bfe", c30bObserve) }) {
		return
	}
	if r.Try(func() interface{} { return c }, func() { c30Run(r, c, "xnet", nil) }) {
		return
	}
	var sb strings.Builder
	nupd := 0
	for _, op := range c.Ops {
		fmt.Fprintf(&sb, "%s/%d", op.Kind[:1], op.V)
		if op.Kind != "block" {
			nupd++
		}
		for _, f := range op.Fields {
			fmt.Fprintf(&sb, "|%s=%s/%v", f.N, f.V, f.S)
		}
		sb.WriteByte(';')
	}
	r.CaseS(sb.String(), nt)
	if nt && nupd > 0 && len(c.Ops) <= 8 && r.WantSample() {
		r.Sample(c)
	}
}

var c30NamePool = []string{":path", ":authority", "cookie", "accept-encoding", "x-a", "x-b", "x-custom-key", "k", "etag", "X-Mixed-Case", "x-\x7f\xff", ""}
var c30ValuePool = []string{"", "1", "v", "/", "/index.html", "gzip, deflate", "custom-value", "0123456789", "~~{{||}}\\\\", "\x00\x01\x02\xfe\xff",
	"www.example.com", "aaaaaaaaaaaaaaaaaaaaaaaaaaaaaaaa", "Mon, 21 Oct 2013 20:13:21 GMT", "no-cache", "session=0123456789abcdef0123456789abcdef"}

func c30Generate(r *vkit.Run, i int) *c30Case {
	g := r.Rng("c30", i)
	// focus size: values are sized so that entries hit T-1, T, T+1 exactly
	T := []int{33, 40, 64, 100, 200, 256, 1000, 4096}[g.Intn(8)]
	big := g.Chance(1, 100)
	if big {
		T = 65536
	}
	nn, nv := 2+g.Intn(5), 2+g.Intn(6)
	names := make([]string, nn)
	for k := range names {
		names[k] = c30NamePool[g.Intn(len(c30NamePool))]
	}
	values := make([]string, nv)
	for k := range values {
		values[k] = c30ValuePool[g.Intn(len(c30ValuePool))]
	}
	fill := []string{"a", "~", "\xfe", "0"}
	for k := 0; k < 3; k++ { // sized values
		nm := names[g.Intn(nn)]
		l := T - 32 - len(nm) + []int{-1, 0, 1, 0, -T / 2}[g.Intn(5)]
		if l < 0 {
			l = 0
		}
		values = append(values, strings.Repeat(fill[g.Intn(len(fill))], l))
	}
	sizes := []uint32{0, 0, 1, 32, 33, 34, uint32(T) - 1, uint32(T), uint32(T) + 1, 2 * uint32(T), 3*uint32(T) + 5, 100, 256, 4096, 4096, 4097, 65536}
	c := &c30Case{}
	nb := 1 + g.Intn(40)
	if big {
		nb = 1 + g.Intn(6) // 64 KiB values: keep the sequence short
	}
	for b := 0; b < nb; b++ {
		if g.Chance(1, 3) {
			for n := 1 + g.Intn(2); n > 0; n-- {
				c.Ops = append(c.Ops, c30Op{Kind: "announce", V: sizes[g.Intn(len(sizes))]})
			}
		}
		if g.Chance(1, 12) {
			c.Ops = append(c.Ops, c30Op{Kind: "limit", V: []uint32{0, 64, uint32(T), 4096, 4096, 65536}[g.Intn(6)]})
		}
		op := c30Op{Kind: "block"}
		for n := 1 + g.Intn(8); n > 0; n-- {
			f := c30F{N: names[g.Intn(nn)], V: values[g.Intn(len(values))], S: g.Chance(1, 6)}
			if g.Chance(1, 10) {
				st := hpackx.Static[g.Intn(61)]
				f.N, f.V = st.Name, st.Value
			}
			op.Fields = append(op.Fields, f)
		}
		c.Ops = append(c.Ops, op)
	}
	return c
}

func c30(r *vkit.Run) {
	r.SetRule("case = 1-40 header blocks of 1-8 fields drawn from a per-sequence universe of 2-6 names x 5-10 values (incl. values sized so that an entry is T-1/T/T+1 octets for a focus size T in 33..65536, Huffman-friendly and -unfriendly octets, 1/6 never-indexed, 1/10 static-table pairs), interleaved (1/3 of the gaps) with 1-2 announcements of a new SETTINGS_HEADER_TABLE_SIZE in {0,1,32,33,34,T-1,T,T+1,2T,100,256,4096,4097,65536} applied as an HTTP/2 endpoint does (Encoder.SetMaxDynamicTableSize + Decoder.SetAllowedMaxDynamicTableSize) and (1/12) Encoder.SetMaxDynamicTableSizeLimit. Each sequence runs bfe-encoder -> {bfe decoder, x/net decoder, RFC 7541 model} and x/net-encoder -> {bfe decoder, model}; after every block: decoded (name,value,never-index) == encoded; size of the table implied by the emitted stream (model) and of bfe's decoder table (read back by decoding indexes 62..) <= negotiated maximum. x/net's decoder is dropped for the rest of a sequence when its own non-RFC rule (second size update with non-empty table) rejects the block. Non-trivial = >= 2 blocks and the stream contained >= 1 eviction and >= 1 dynamic-table reference; distinct = the op list." + c30bRule)
	r.Assume("golang.org/x/net/http2/hpack v0.0.0-20201021035429 as independent encoder/decoder; ref/hpackx as RFC 7541 model of the table implied by a stream")
	if r.Replay != "" {
		var w struct {
			Case c30Case `json:"case"`
		}
		if err := r.LoadReplay(&w); err != nil {
			r.Inconclusive(err.Error())
			return
		}
		c30Check(r, &w.Case)
		c30C.flush(r)
		c30bFinish(r, true)
		r.SetMinDistinct(0)
		return
	}
	t0 := time.Now()
	c30b(r) // boundary-directed histories (c30b.go)
	r.Extra("c30_directed_part_wall_s", time.Since(t0).Seconds())
	fmt.Fprintf(os.Stderr, "c30: directed part %.1fs\n", time.Since(t0).Seconds())
	n := r.N(20000, 1000000)
	vkit.Parallel(n, 0, func(i int) { c30Check(r, c30Generate(r, i)) })
	c30C.flush(r)
	c30bFinish(r, false)
	for _, k := range []string{"evictions_bfe-enc", "dynamic_refs_bfe-enc", "size_updates_in_stream_bfe-enc", "table_exactly_full_bfe-enc",
		"evictions_xnet-enc", "dynamic_refs_xnet-enc", "probed_entries", "xnet_decoder_blocks_agree"} {
		if c30C.get(k) == 0 {
			r.Inconclusive("workload never observed: " + k)
		}
	}
	if n := c30C.get("xnet_encoder_stream_rejected_by_model") + c30C.get("xnet_encoder_stream_differs_in_model"); n > 0 {
		r.Inconclusive(fmt.Sprintf("the RFC model rejected or mis-decoded %d blocks of x/net's encoder: harness defect", n))
	}
}
