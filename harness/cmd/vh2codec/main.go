// vh2codec decides the HTTP/2 codec properties C30 (HPACK round-trip and table
// limits), C31 (HPACK decoding conformance) and C32 (HTTP/2 framer).
package main

import (
	"fmt"
	"os"

	"verifharness/ref/hpackx"
	"verifharness/vkit"
)

func main() {
	r := vkit.Start("exploration")
	if hpackx.InitErr != nil && r.Prop != "C32" {
		r.Inconclusive("reference model self-check failed: " + hpackx.InitErr.Error())
		r.Finish()
	}
	switch r.Prop {
	case "C30":
		c30(r)
	case "C31":
		c31(r)
	case "C32":
		c32(r)
	default:
		fmt.Fprintln(os.Stderr, "vh2codec: unknown property", r.Prop)
		os.Exit(vkit.ExitInconclusive)
	}
	r.Finish()
}
