package main

import "verifharness/vkit"

func c32(r *vkit.Run) {}
