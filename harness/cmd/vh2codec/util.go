package main

import (
	"sync"
	"sync/atomic"

	"verifharness/vkit"
)

// ctrs is a low-contention set of named counters, flushed into the Run's
// counters at the end (vkit.Run.Count takes one global lock per call).
type ctrs struct {
	mu sync.RWMutex
	m  map[string]*int64
}

func newCtrs() *ctrs { return &ctrs{m: map[string]*int64{}} }

func (c *ctrs) add(name string, d int64) {
	c.mu.RLock()
	p := c.m[name]
	c.mu.RUnlock()
	if p == nil {
		c.mu.Lock()
		if p = c.m[name]; p == nil {
			p = new(int64)
			c.m[name] = p
		}
		c.mu.Unlock()
	}
	atomic.AddInt64(p, d)
}

func (c *ctrs) get(name string) int64 {
	c.mu.RLock()
	defer c.mu.RUnlock()
	if p := c.m[name]; p != nil {
		return atomic.LoadInt64(p)
	}
	return 0
}

func (c *ctrs) flush(r *vkit.Run) {
	c.mu.RLock()
	defer c.mu.RUnlock()
	for k, p := range c.m {
		r.Count(k, atomic.LoadInt64(p))
	}
}
