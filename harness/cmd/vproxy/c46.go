package main

import (
	"bytes"
	"fmt"
	"io"
	"net"
	"net/netip"
	"strings"
	"sync"
	"sync/atomic"
	"time"

	"github.com/bfenetworks/bfe/bfe_proxy"

	pp "verifharness/ref/proxyproto"
	"verifharness/vkit"
)

// C46: for every v1/v2 PROXY header a spec-conformant sender produces, BFE
// reports exactly the advertised source/destination (or the real socket
// addresses for LOCAL and UNKNOWN) and hands the application every following
// byte unchanged; a malformed header ends the connection without delivering
// data; a connection without a header is passed through untouched.
//
// Sender and classifier: ref/proxyproto (from haproxy's proxy-protocol.txt).
// Observation: bfe_proxy.NewConn(conn, timeout, limit) over a scripted
// net.Conn or a net.Pipe; RemoteAddr(), VirtualAddr(), every byte Read
// returns, the error that ends reading, and whether bfe closed the
// underlying connection.

// ---------------------------------------------------------------- transports

type c46Addr struct{ s string }

func (a c46Addr) Network() string { return "tcp" }
func (a c46Addr) String() string  { return a.s }

var (
	c46RealRemote = &net.TCPAddr{IP: net.IPv4(198, 51, 100, 7), Port: 40001}
	c46RealLocal  = &net.TCPAddr{IP: net.IPv4(203, 0, 113, 9), Port: 443}
)

// c46Script is a net.Conn that delivers prepared chunks, one Read per chunk at
// most, then EOF.
type c46Script struct {
	chunks [][]byte
	i      int
	closed bool
	wrote  int
}

func (c *c46Script) Read(p []byte) (int, error) {
	if c.closed {
		return 0, net.ErrClosed
	}
	if len(p) == 0 {
		return 0, nil
	}
	for c.i < len(c.chunks) && len(c.chunks[c.i]) == 0 {
		c.i++
	}
	if c.i >= len(c.chunks) {
		return 0, io.EOF
	}
	n := copy(p, c.chunks[c.i])
	c.chunks[c.i] = c.chunks[c.i][n:]
	return n, nil
}
func (c *c46Script) Write(p []byte) (int, error) {
	if c.closed {
		return 0, net.ErrClosed
	}
	c.wrote += len(p)
	return len(p), nil
}
func (c *c46Script) Close() error                       { c.closed = true; return nil }
func (c *c46Script) LocalAddr() net.Addr                { return c46RealLocal }
func (c *c46Script) RemoteAddr() net.Addr               { return c46RealRemote }
func (c *c46Script) SetDeadline(t time.Time) error      { return nil }
func (c *c46Script) SetReadDeadline(t time.Time) error  { return nil }
func (c *c46Script) SetWriteDeadline(t time.Time) error { return nil }

// c46Rec records whether the code under test closed the connection.
type c46Rec struct {
	net.Conn
	closed atomic.Bool
}

func (c *c46Rec) Close() error { c.closed.Store(true); return c.Conn.Close() }

// ---------------------------------------------------------------- case

type c46Case struct {
	Origin    string `json:"origin"` // sender | mutated | noheader
	Stream    []byte `json:"stream"`
	Chunks    []int  `json:"chunks"` // sizes of the pieces the stream is delivered in (nil = one piece)
	Transport string `json:"transport"`
	AddrFirst bool   `json:"addr_first"` // RemoteAddr() before the first Read
	Limit     int64  `json:"limit"`      // maxProxyHeaderBytes given to NewConn (0 = default)
	ReadBuf   int    `json:"read_buf"`
	Note      string `json:"note,omitempty"`
}

type c46Obs struct {
	data        []byte
	err         error
	remote      net.Addr
	virtual     net.Addr
	realRemote  net.Addr
	realLocal   net.Addr
	closedByBfe bool
}

func c46Pieces(c *c46Case) [][]byte {
	if len(c.Chunks) == 0 {
		return [][]byte{append([]byte{}, c.Stream...)}
	}
	var out [][]byte
	p := 0
	for _, n := range c.Chunks {
		if p+n > len(c.Stream) {
			n = len(c.Stream) - p
		}
		if n > 0 {
			out = append(out, append([]byte{}, c.Stream[p:p+n]...))
		}
		p += n
	}
	if p < len(c.Stream) {
		out = append(out, append([]byte{}, c.Stream[p:]...))
	}
	return out
}

// c46Run drives the real bfe_proxy.Conn over the case.
func c46Run(c *c46Case) *c46Obs {
	obs := &c46Obs{}
	var under net.Conn
	var wg sync.WaitGroup
	if c.Transport == "pipe" {
		a, b := net.Pipe()
		under = b
		wg.Add(1)
		go func() {
			defer wg.Done()
			for _, p := range c46Pieces(c) {
				if _, err := a.Write(p); err != nil {
					break
				}
			}
			a.Close()
		}()
	} else {
		under = &c46Script{chunks: c46Pieces(c)}
	}
	rec := &c46Rec{Conn: under}
	obs.realRemote, obs.realLocal = under.RemoteAddr(), under.LocalAddr()
	conn := bfe_proxy.NewConn(rec, time.Hour, c.Limit)
	if c.AddrFirst {
		obs.remote = conn.RemoteAddr()
		obs.virtual = conn.VirtualAddr()
	}
	n := c.ReadBuf
	if n <= 0 {
		n = 4096
	}
	buf := make([]byte, n)
	for {
		k, err := conn.Read(buf)
		obs.data = append(obs.data, buf[:k]...)
		if err != nil {
			obs.err = err
			break
		}
		if len(obs.data) > len(c.Stream)+64 {
			obs.err = fmt.Errorf("harness: more bytes delivered than were sent")
			break
		}
	}
	if !c.AddrFirst {
		obs.remote = conn.RemoteAddr()
		obs.virtual = conn.VirtualAddr()
	}
	obs.closedByBfe = rec.closed.Load()
	if c.Transport == "pipe" {
		under.Close() // unblock the writer if the code under test stopped reading
		wg.Wait()
	}
	return obs
}

func c46SameTCP(a net.Addr, want netip.AddrPort) bool {
	t, ok := a.(*net.TCPAddr)
	if !ok || t == nil {
		return false
	}
	ip, ok := netip.AddrFromSlice(t.IP)
	if !ok {
		return false
	}
	return ip.Unmap() == want.Addr().Unmap() && t.Port == int(want.Port())
}

func c46SameAddr(a, b net.Addr) bool {
	if a == nil || b == nil {
		return a == nil && b == nil
	}
	return a.Network() == b.Network() && a.String() == b.String()
}

func c46IsNil(a net.Addr) bool {
	if a == nil {
		return true
	}
	if t, ok := a.(*net.TCPAddr); ok && t == nil {
		return true
	}
	return false
}

// c46Judge returns "" when obs satisfies what the verdict demands, else the
// shape of the deviation.
func c46Judge(c *c46Case, v pp.Verdict, obs *c46Obs) (shape, detail string) {
	errS := "nil"
	if obs.err != nil {
		errS = obs.err.Error()
	}
	detail = fmt.Sprintf("delivered %d bytes, end error %q, RemoteAddr=%v VirtualAddr=%v closed-by-bfe=%v", len(obs.data), errS, obs.remote, obs.virtual, obs.closedByBfe)
	rejectClean := len(obs.data) == 0 && obs.err != nil && obs.err != io.EOF || (len(obs.data) == 0 && obs.closedByBfe)
	// accepted(kind): data, end of stream and liveness as an accepted connection owes them
	accepted := func(payload []byte, hdr []byte) string {
		switch {
		case obs.closedByBfe:
			return "connection-closed"
		case !bytes.Equal(obs.data, payload):
			if len(obs.data) > len(payload) && bytes.HasSuffix(obs.data, payload) && bytes.HasSuffix(hdr, obs.data[:len(obs.data)-len(payload)]) {
				return "header-bytes-leak-into-stream"
			}
			if bytes.HasPrefix(payload, obs.data) {
				return "payload-truncated"
			}
			if bytes.HasSuffix(payload, obs.data) {
				return "payload-head-lost"
			}
			return "payload-corrupted"
		case obs.err != io.EOF:
			return "read-error"
		}
		return ""
	}
	real := func() string {
		if !c46SameAddr(obs.remote, obs.realRemote) {
			return "wrong-remote-addr"
		}
		if !c46IsNil(obs.virtual) && !c46SameAddr(obs.virtual, obs.realLocal) {
			return "wrong-virtual-addr"
		}
		return ""
	}
	advertised := func() string {
		if !c46SameTCP(obs.remote, v.Src) {
			return "wrong-remote-addr"
		}
		if !c46SameTCP(obs.virtual, v.Dst) {
			return "wrong-virtual-addr"
		}
		return ""
	}
	switch v.Duty {
	case pp.Advertised:
		if s := accepted(c.Stream[v.HdrLen:], c.Stream[:v.HdrLen]); s != "" {
			return s, detail
		}
		return advertised(), detail
	case pp.Real:
		if s := accepted(c.Stream[v.HdrLen:], c.Stream[:v.HdrLen]); s != "" {
			return s, detail
		}
		return real(), detail
	case pp.NoHeader:
		if s := accepted(c.Stream, nil); s != "" {
			return s, detail
		}
		if !c46SameAddr(obs.remote, obs.realRemote) {
			return "wrong-remote-addr", detail
		}
		if !c46IsNil(obs.virtual) {
			return "wrong-virtual-addr", detail
		}
		return "", detail
	case pp.Malformed:
		switch {
		case !obs.closedByBfe:
			return "accepted", detail
		case len(obs.data) > 0:
			return "data-delivered-despite-close", detail
		}
		return "", detail
	case pp.Fallback:
		if rejectClean && obs.closedByBfe {
			return "", detail
		}
		s := accepted(c.Stream[v.HdrLen:], c.Stream[:v.HdrLen])
		if s == "" {
			if real() == "" || (v.HasAddr && advertised() == "") {
				return "", detail
			}
			return "wrong-addr", detail
		}
		detail += " (as accepted: " + s + ")"
		return "neither-rejected-cleanly-nor-accepted", detail
	}
	return "", detail
}

// ---------------------------------------------------------------- generators

func c46V4(g *vkit.Rand) netip.Addr {
	switch g.Intn(8) {
	case 0:
		return netip.AddrFrom4([4]byte{0, 0, 0, 0})
	case 1:
		return netip.AddrFrom4([4]byte{255, 255, 255, 255})
	case 2:
		return netip.AddrFrom4([4]byte{127, 0, 0, 1})
	case 3:
		return netip.AddrFrom4([4]byte{10, 0, 0, byte(g.Intn(256))})
	}
	b := g.Bytes(4)
	return netip.AddrFrom4([4]byte{b[0], b[1], b[2], b[3]})
}

func c46V6(g *vkit.Rand, allowMapped bool) netip.Addr {
	var a [16]byte
	switch g.Intn(9) {
	case 0: // ::
	case 1:
		a[15] = 1
	case 2:
		for i := range a {
			a[i] = 0xff
		}
	case 3:
		copy(a[:], []byte{0x20, 0x01, 0x0d, 0xb8})
		a[15] = byte(1 + g.Intn(255))
	case 4:
		copy(a[:], []byte{0xfe, 0x80})
		copy(a[8:], g.Bytes(8))
	case 5:
		copy(a[:], g.Bytes(16))
		a[4], a[5], a[6], a[7] = 0, 0, 0, 0 // a run of zeroes in the middle
	default:
		copy(a[:], g.Bytes(16))
	}
	ad := netip.AddrFrom16(a)
	if ad.Is4In6() && !allowMapped {
		a[0] = 0x20
		ad = netip.AddrFrom16(a)
	}
	return ad
}

func c46Port(g *vkit.Rand) uint16 {
	switch g.Intn(6) {
	case 0:
		return 0
	case 1:
		return 65535
	case 2:
		return 1
	case 3:
		return 80
	}
	return uint16(g.Intn(65536))
}

func c46TLVs(g *vkit.Rand) []pp.TLV {
	var out []pp.TLV
	n := g.Intn(4)
	total := 0 // "this block is always smaller than an MSS": keep the whole header below 1400 bytes
	for i := 0; i < n; i++ {
		t := []byte{0x01, 0x02, 0x03, 0x04, 0x05, 0x20, 0x30, 0xE0, byte(g.Intn(256))}[g.Intn(9)]
		ln := g.Intn(40)
		switch g.Intn(8) {
		case 0:
			ln = 0
		case 1:
			ln = 200 + g.Intn(600)
		}
		if total+3+ln > 1300 {
			ln = 0
		}
		total += 3 + ln
		v := g.Bytes(ln)
		if t == 0x04 {
			v = make([]byte, ln) // NOOP padding is zero filled
		}
		out = append(out, pp.TLV{Type: t, Value: v})
	}
	return out
}

// c46V6Text renders an IPv6 address in one of the textual forms the
// specification permits (hex groups, upper or lower case, one "::").
func c46V6Text(g *vkit.Rand, a netip.Addr) string {
	switch g.Intn(4) {
	case 0:
		return a.StringExpanded()
	case 1:
		return strings.ToUpper(a.String())
	case 2:
		return strings.ToUpper(a.StringExpanded())
	}
	s := a.String()
	if strings.Contains(s, ".") { // netip prints v4-mapped with a dotted quad; the header must not
		return a.StringExpanded()
	}
	return s
}

// c46Sender draws one header a conformant sender may emit.
func c46Sender(g *vkit.Rand) []byte {
	switch g.Intn(20) {
	case 0, 1, 2:
		h := pp.Header{Version: 1, V1Proto: "TCP4", Src: c46V4(g), Dst: c46V4(g), SrcPort: c46Port(g), DstPort: c46Port(g)}
		return h.Bytes()
	case 3, 4, 5:
		s, d := c46V6(g, false), c46V6(g, false)
		return []byte(fmt.Sprintf("PROXY TCP6 %s %s %d %d\r\n", c46V6Text(g, s), c46V6Text(g, d), c46Port(g), c46Port(g)))
	case 6:
		return []byte("PROXY UNKNOWN\r\n")
	case 7:
		tails := []string{
			" ffff:f0f0:ffff:f0f0:ffff:f0f0:ffff:f0f0 ffff:f0f0:ffff:f0f0:ffff:f0f0:ffff:f0f0 65535 65535",
			" 192.0.2.1 192.0.2.2 1 2", " ", " some text the receiver must ignore", " ::1 ::1 0 0", " TCP9 x y z",
		}
		h := pp.Header{Version: 1, V1Proto: "UNKNOWN", V1Tail: g.PickS(tails)}
		return h.Bytes()
	case 8, 9, 10:
		h := pp.Header{Version: 2, Fam: pp.AFInet, Prot: pp.TPStream, Src: c46V4(g), Dst: c46V4(g), SrcPort: c46Port(g), DstPort: c46Port(g)}
		if g.Bool() {
			h.TLVs = c46TLVs(g)
		}
		return h.Bytes()
	case 11, 12, 13:
		h := pp.Header{Version: 2, Fam: pp.AFInet6, Prot: pp.TPStream, Src: c46V6(g, false), Dst: c46V6(g, false), SrcPort: c46Port(g), DstPort: c46Port(g)}
		if g.Bool() {
			h.TLVs = c46TLVs(g)
		}
		return h.Bytes()
	case 14: // LOCAL as haproxy sends it for health checks: family byte 0, length 0
		h := pp.Header{Version: 2, Local: true, Raw: []byte{}}
		return h.Bytes()
	case 15: // LOCAL carrying an address block and TLVs: the receiver must skip `len` bytes
		h := pp.Header{Version: 2, Local: true, Fam: pp.AFInet, Prot: pp.TPStream, Src: c46V4(g), Dst: c46V4(g), SrcPort: c46Port(g), DstPort: c46Port(g), TLVs: c46TLVs(g)}
		if g.Bool() {
			h = pp.Header{Version: 2, Local: true, Fam: pp.AFInet6, Prot: pp.TPStream, Src: c46V6(g, true), Dst: c46V6(g, true), TLVs: c46TLVs(g)}
		}
		if g.Chance(1, 4) {
			h = pp.Header{Version: 2, Local: true, Raw: g.Bytes(1 + g.Intn(60))}
		}
		return h.Bytes()
	case 16: // PROXY with AF_UNSPEC
		h := pp.Header{Version: 2, Raw: g.Bytes(g.Intn(30))}
		return h.Bytes()
	case 17: // DGRAM
		h := pp.Header{Version: 2, Fam: pp.AFInet, Prot: pp.TPDgram, Src: c46V4(g), Dst: c46V4(g), SrcPort: c46Port(g), DstPort: c46Port(g)}
		if g.Bool() {
			h = pp.Header{Version: 2, Fam: pp.AFInet6, Prot: pp.TPDgram, Src: c46V6(g, false), Dst: c46V6(g, false), SrcPort: c46Port(g), DstPort: c46Port(g)}
		}
		return h.Bytes()
	case 18: // AF_UNIX
		h := pp.Header{Version: 2, Fam: pp.AFUnix, Prot: byte(1 + g.Intn(2)), UnixSrc: []byte("/var/run/src.sock"), UnixDst: []byte("/var/run/dst.sock")}
		if g.Bool() {
			h.TLVs = c46TLVs(g)
		}
		return h.Bytes()
	default: // IPv4-mapped IPv6 addresses
		if g.Bool() {
			s, d := netip.AddrFrom16(c46V4(g).As16()), netip.AddrFrom16(c46V4(g).As16())
			return []byte(fmt.Sprintf("PROXY TCP6 %s %s %d %d\r\n", s.StringExpanded(), d.StringExpanded(), c46Port(g), c46Port(g)))
		}
		h := pp.Header{Version: 2, Fam: pp.AFInet6, Prot: pp.TPStream, Src: netip.AddrFrom16(c46V4(g).As16()), Dst: c46V6(g, false), SrcPort: c46Port(g), DstPort: c46Port(g)}
		return h.Bytes()
	}
}

func c46Payload(g *vkit.Rand) []byte {
	switch g.Intn(10) {
	case 0:
		return nil
	case 1:
		return []byte("PROXY TCP4 1.2.3.4 5.6.7.8 9 10\r\nGET / HTTP/1.1\r\n\r\n") // a second header is application data
	case 2:
		return append(append([]byte{}, pp.SigV2...), 0x21, 0x11, 0x00, 0x0c, 1, 2, 3, 4, 5, 6, 7, 8, 0, 9, 0, 10, 'x')
	case 3:
		return g.Bytes(4000 + g.Intn(3000)) // larger than bfe's 4096-byte reader
	case 4:
		return []byte("GET /index.html HTTP/1.1\r\nHost: example.org\r\n\r\n")
	case 5:
		return []byte{byte(g.Intn(256))}
	}
	return g.Bytes(1 + g.Intn(300))
}

// c46Mutate damages the header part of a valid stream with one edit.
func c46Mutate(g *vkit.Rand, hdr []byte) ([]byte, string) {
	b := append([]byte{}, hdr...)
	i := g.Intn(len(b))
	// the signature itself stays: a stream without it is the no-header class
	sig := 6
	if b[0] == 0x0d {
		sig = 12
	}
	if i < sig && len(b) > sig {
		i = sig + g.Intn(len(b)-sig)
	}
	text := b[0] == 'P'
	switch g.Intn(9) {
	case 0:
		b[i] ^= 1 << uint(g.Intn(8))
		return b, "bit-flip"
	case 1:
		b[i]++
		return b, "+1"
	case 2:
		b[i]--
		return b, "-1"
	case 3:
		if text {
			const repl = " 0+-:.\r\nx\x00\tA9"
			b[i] = repl[g.Intn(len(repl))]
		} else {
			b[i] = []byte{0, 0xff, 0x20, 0x21, 0x22, 0x11, 0x12, 0x31, 0x41, 0x13}[g.Intn(10)]
		}
		return b, "replace"
	case 4:
		return append(b[:i:i], b[i+1:]...), "delete-byte"
	case 5:
		ins := byte(g.Intn(256))
		if text {
			const insc = " 0+-:.1x"
			ins = insc[g.Intn(len(insc))]
		}
		return append(b[:i:i], append([]byte{ins}, hdr[i:]...)...), "insert-byte"
	case 6:
		return b[:i], "truncate-header"
	case 7:
		if text { // leading zero / sign in front of a number, double space
			if j := bytes.LastIndexByte(b[:len(b)-2], ' '); j > 0 {
				ins := []string{"0", "+", "-", " ", "00"}[g.Intn(5)]
				return append(b[:j+1:j+1], append([]byte(ins), hdr[j+1:]...)...), "number-prefix-" + ins
			}
		}
		// v2: length field +-
		if len(b) >= 16 {
			d := []int{-1, 1, -12, 12, 256}[g.Intn(5)]
			ln := int(b[14])<<8 | int(b[15])
			ln += d
			if ln < 0 {
				ln = 0
			}
			b[14], b[15] = byte(ln>>8), byte(ln)
			return b, fmt.Sprintf("v2-length%+d", d)
		}
		return b[:i], "truncate-header"
	default:
		if text { // extra field before CRLF / LF only / no CR
			switch g.Intn(3) {
			case 0:
				return append(append(b[:len(b)-2:len(b)-2], []byte(" extra")...), '\r', '\n'), "extra-field"
			case 1:
				return append(b[:len(b)-2:len(b)-2], '\n'), "lf-only"
			}
			return append(b[:len(b)-2:len(b)-2], '\r'), "cr-only"
		}
		// v2: version/command and family/transport bytes
		if len(b) >= 14 {
			if g.Bool() {
				b[12] = []byte{0x10, 0x22, 0x2f, 0x31, 0x00, 0x01}[g.Intn(6)]
				return b, "v2-version-command"
			}
			b[13] = []byte{0x41, 0x13, 0xff, 0x14, 0x40}[g.Intn(5)]
			return b, "v2-family-transport"
		}
		return b[:i], "truncate-header"
	}
}

func c46NoHeader(g *vkit.Rand) []byte {
	switch g.Intn(12) {
	case 0:
		return []byte("GET / HTTP/1.1\r\nHost: a\r\n\r\n")
	case 1:
		return append([]byte{0x16, 0x03, 0x01, 0x00, 0x30}, g.Bytes(48)...)
	case 2:
		return []byte("PUT /x HTTP/1.1\r\n\r\n")
	case 3:
		return []byte("PROXZ TCP4 1.2.3.4 5.6.7.8 1 2\r\nhello")
	case 4:
		return []byte("\r\n\r\nGET / HTTP/1.1\r\n\r\n")
	case 5:
		b := append([]byte{}, pp.SigV2...)
		b[11] = 0x0b // differs in the last signature byte
		return append(b, g.Bytes(30)...)
	case 6:
		return append([]byte{}, pp.SigV1[:1+g.Intn(4)]...) // "P".."PROX" then EOF
	case 7:
		return append([]byte{}, pp.SigV2[:1+g.Intn(11)]...) // signature prefix then EOF
	case 8:
		return []byte("POST")
	case 9:
		return []byte("proxy TCP4 1.2.3.4 5.6.7.8 1 2\r\nhello")
	case 10:
		return g.Bytes(1 + g.Intn(4))
	}
	b := g.Bytes(1 + g.Intn(200))
	if b[0] == 'P' || b[0] == 0x0d {
		b[0] = 'G'
	}
	return b
}

func c46Chunking(g *vkit.Rand, n, hdrLen, mode int) []int {
	switch mode {
	case 0:
		return nil
	case 1: // byte by byte through the header and a little beyond, rest whole
		var out []int
		for i := 0; i < hdrLen+3 && i < n; i++ {
			out = append(out, 1)
		}
		return out
	case 2: // random pieces
		var out []int
		for p := 0; p < n; {
			k := 1 + g.Intn(40)
			out = append(out, k)
			p += k
		}
		return out
	}
	return nil
}

// ---------------------------------------------------------------- driver

type c46Stats struct {
	byDuty   [6]int64
	okByDuty [6]int64
}

func c46Check(r *vkit.Run, st *c46Stats, c *c46Case) {
	v := pp.Classify(c.Stream)
	atomic.AddInt64(&st.byDuty[v.Duty], 1)
	if v.Duty == pp.Ambiguous {
		r.Evals(1)
		return
	}
	var obs *c46Obs
	if r.Try(func() interface{} { return c }, func() { obs = c46Run(c) }) {
		r.Evals(1)
		return
	}
	shape, detail := c46Judge(c, v, obs)
	if shape == "" {
		atomic.AddInt64(&st.okByDuty[v.Duty], 1)
	} else {
		class := v.Class
		if v.Duty == pp.Malformed {
			class = "malformed:" + v.Reason
			if shape == "data-delivered-despite-close" {
				// Headers of these kinds get past the parser and fail only when the
				// addresses are resolved; that failure closes the connection without
				// recording the error, so bytes already buffered still reach the
				// application. One shape whatever else the header breaks.
				for _, x := range v.Reasons {
					switch x {
					case "v1-unknown-proto-token", "v1-bad-ipv6", "v2-local-truncated-body", "v2-local-truncated-fixed-part":
						class = "malformed:reaches-address-resolution"
					}
				}
			}
		}
		if v.Duty == pp.NoHeader {
			class = "no-header:" + v.Class
		}
		r.Violation(class+":"+shape,
			fmt.Sprintf("%s stream (%s, duty %s): %s", c.Origin, v.Class+v.Reason, v.Duty, detail),
			map[string]interface{}{"case": c, "class": v.Class, "reason": v.Reason, "duty": v.Duty.String(), "hdr_len": v.HdrLen,
				"want_src": v.Src.String(), "want_dst": v.Dst.String(), "stream_text": fmt.Sprintf("%q", c46Trunc(c.Stream, 160)), "observed": detail})
	}
	nt := v.Duty != pp.NoHeader || len(c.Stream) > 0
	r.Case(vkit.Hash64(string(c.Stream), fmt.Sprint(c.Chunks), c.Transport, fmt.Sprint(c.AddrFirst, c.Limit, c.ReadBuf)), nt)
	if r.WantSample() && v.Duty != pp.NoHeader && len(c.Chunks) > 0 && len(c.Chunks) < 6 {
		r.Sample(map[string]interface{}{"class": v.Class, "duty": v.Duty.String(), "stream": fmt.Sprintf("%q", c46Trunc(c.Stream, 120)), "chunks": c.Chunks, "transport": c.Transport})
	}
}

func c46Trunc(b []byte, n int) []byte {
	if len(b) > n {
		return b[:n]
	}
	return b
}

func c46(r *vkit.Run) {
	r.SetRule("sender cases: headers drawn from the specification's grammar (v1 TCP4/TCP6 with boundary addresses/ports and every permitted IPv6 spelling, UNKNOWN bare and with text up to 107 bytes; " +
		"v2 PROXY INET/INET6 STREAM with 0..3 TLVs incl. NOOP padding and 200..800 byte values, LOCAL bare / with address block + TLVs / with opaque bytes, PROXY with AF_UNSPEC, DGRAM, AF_UNIX, IPv4-mapped IPv6) followed by a payload " +
		"(empty, 1 byte, random <=300, > 4096, a second PROXY header as data); EACH header is delivered whole, split at EVERY byte offset up to header+2 (sampled beyond 160), byte by byte and in random pieces, " +
		"through a scripted net.Conn and through net.Pipe, with RemoteAddr() before or after the first Read, read buffers 1/7/4096/65536, header limit default or exactly the header length. " +
		"mutated cases: one edit of a valid header (bit flip, +-1, replace with a separator/sign/digit or a v2 nibble value, delete, insert, truncate, number prefixed by 0/+/-/space, extra field, LF/CR only, v2 length +-1/12/256, version/command, family/transport), " +
		"then classified by the strict reference parser: still valid (other values) / malformed by a MUST / not settled (skipped and counted: 'should' rules such as the 107-byte line limit, embedded dotted quads, broken TLV chains, PROXY glued to text). " +
		"no-header cases: HTTP, TLS, near-signatures, signature prefixes followed by EOF, random. Duties: advertised => exact addresses + payload byte-exact + EOF + connection left open; real (LOCAL, UNKNOWN) => socket addresses (VirtualAddr nil or the local address); " +
		"fallback (combinations a receiver need not support) => clean reject OR accept with real/advertised addresses; malformed => zero bytes delivered, an error, connection closed; no-header => every byte delivered, socket addresses. " +
		"Non-trivial = every case that reaches the code (ambiguous ones are not run); distinct = hash(stream, chunking, transport, call order, limit, read buffer).")
	r.Assume("header timeout set to 1h so that no wall-clock event takes part; the sender always closes after the last byte")
	st := &c46Stats{}
	if r.Replay != "" {
		var w struct {
			Case c46Case `json:"case"`
		}
		if err := r.LoadReplay(&w); err != nil {
			r.Inconclusive(err.Error())
			return
		}
		c46Check(r, st, &w.Case)
		r.SetMinDistinct(0)
		return
	}
	bufs := []int{1, 7, 4096, 65536}
	mk := func(g *vkit.Rand, origin string, stream []byte, chunks []int, note string, hdrLen int) *c46Case {
		c := &c46Case{Origin: origin, Stream: stream, Chunks: chunks, Transport: "script", AddrFirst: g.Bool(), ReadBuf: bufs[g.Intn(4)], Note: note}
		if g.Chance(1, 6) {
			c.Transport = "pipe"
		}
		if origin == "sender" && hdrLen > 0 && g.Chance(1, 8) {
			c.Limit = int64(hdrLen)
		}
		return c
	}
	nHdr := r.N(260, 8000)
	vkit.Parallel(nHdr, 0, func(i int) {
		g := r.Rng("sender", i)
		hdr := c46Sender(g)
		payload := c46Payload(g)
		stream := append(append([]byte{}, hdr...), payload...)
		c46Check(r, st, mk(g, "sender", stream, nil, "whole", len(hdr)))
		c46Check(r, st, mk(g, "sender", stream, c46Chunking(g, len(stream), len(hdr), 1), "byte-by-byte", len(hdr)))
		c46Check(r, st, mk(g, "sender", stream, c46Chunking(g, len(stream), len(hdr), 2), "random-pieces", len(hdr)))
		// split at every byte
		limit := len(hdr) + 2
		if limit > len(stream) {
			limit = len(stream)
		}
		for k := 1; k <= limit; k++ {
			if k > 160 && !g.Chance(1, 12) {
				continue
			}
			c46Check(r, st, mk(g, "sender", stream, []int{k}, "split", len(hdr)))
		}
		// mutations of this header
		nm := 24
		for m := 0; m < nm; m++ {
			mh, kind := c46Mutate(g, hdr)
			ms := append(append([]byte{}, mh...), payload...)
			c46Check(r, st, mk(g, "mutated", ms, c46Chunking(g, len(ms), len(mh), g.Intn(3)), kind, 0))
		}
	})
	// fixed probes: the minimal witness of every deviation seen so far, at every tier and seed
	probes := []string{
		"PROXY UNKNOWN\r\nX",
		"PROXY UNKNOWN ::1 ::1 1 2\r\nX",
		"PROXY TCP6 0000:0000:0000:0000:0000:ffff:0102:0304 2001:db8::1 1 2\r\nX",
		"PROXY TCP4 0000:0000:0000:0000:0000:ffff:0102:0304 0000:0000:0000:0000:0000:ffff:0506:0708 1 2\r\nX",
		"PROXY TCP4 1.2.3.4 5.6.7.8 01 2\r\nX",
		"PROXY TCP4 1.2.3.4 5.6.7.8 +1 2\r\nX",
		"PROXY TCP4 1.2.3.4 5.6.7.8 1 2 3\r\nX",
		"PROXY TCP5 1.2.3.4 5.6.7.8 1 2\r\nX",
		"PROXY TCP6 2001:db8::1 2001:db8:::2 1 2\r\nX",
		string(pp.SigV2) + "\x20\x00\x00\x00X",
		string(pp.SigV2) + "\x20\x11\x00\x0c\x01\x02\x03\x04\x05\x06\x07\x08\x00\x01\x00\x02X",
		string(pp.SigV2) + "\x20\x00\x00",
		string(pp.SigV2) + "\x20\x00\x00\x05XY",
		string(pp.SigV2) + "\x21\x12\x00\x0c\x01\x02\x03\x04\x05\x06\x07\x08\x00\x01\x00\x02X",
		string(pp.SigV2) + "\x21\x21\x00\x24" + string(make([]byte, 10)) + "\xff\xff\x01\x02\x03\x04" + "\x20\x01\x0d\xb8" + string(make([]byte, 11)) + "\x01\x00\x01\x00\x02X",
		"P", "PROX", "POST", "\r\n\r\n",
	}
	for i, p := range probes {
		for mode := 0; mode < 3; mode++ {
			g := r.Rng("probe", i, mode)
			c46Check(r, st, mk(g, "probe", []byte(p), c46Chunking(g, len(p), len(p), mode), "fixed probe", 0))
		}
	}
	nNo := r.N(3000, 100000)
	vkit.Parallel(nNo, 0, func(i int) {
		g := r.Rng("noheader", i)
		s := c46NoHeader(g)
		c46Check(r, st, mk(g, "noheader", s, c46Chunking(g, len(s), len(s), g.Intn(3)), "", 0))
	})
	for d := pp.Advertised; d <= pp.Ambiguous; d++ {
		r.Count("duty_"+d.String(), st.byDuty[d])
		r.Count("duty_"+d.String()+"_satisfied", st.okByDuty[d])
	}
	for d := pp.Advertised; d <= pp.NoHeader; d++ {
		if st.byDuty[d] == 0 {
			r.Inconclusive("no case with duty " + d.String() + " was produced")
		}
	}
}
