// vproxy decides C46 (PROXY protocol headers are parsed per specification)
// through the exported bfe_proxy.NewConn API against the independent sender
// and classifier in ref/proxyproto.
package main

import (
	"fmt"
	"os"

	"verifharness/vkit"
)

func main() {
	r := vkit.Start("exploration")
	switch r.Prop {
	case "C46":
		c46(r)
	default:
		fmt.Fprintln(os.Stderr, "vproxy: unknown property", r.Prop)
		os.Exit(vkit.ExitInconclusive)
	}
	r.Finish()
}
