// Package vkit is the shared plumbing of the /verif runtime-monitoring harness:
// seeded PRNG sub-streams, tier sizes, case/distinct accounting, violation and
// replay writing, known-findings matching, evidence output and exit codes.
package vkit

import (
	"encoding/json"
	"flag"
	"fmt"
	"hash/fnv"
	"os"
	"path/filepath"
	"regexp"
	"runtime"
	"runtime/debug"
	"sort"
	"strings"
	"sync"
	"sync/atomic"
	"time"
)

// Exit codes of a check process.
const (
	ExitHeld         = 0
	ExitViolation    = 1
	ExitInconclusive = 3 // mapped to 2 by bin/check; 2 is what Go itself exits with on a fatal error
)

type finding struct {
	Property string `json:"property"`
	Sig      string `json:"sig"`
	State    string `json:"state"` // "known" | "fixed"
	What     string `json:"what"`
	Commit   string `json:"commit,omitempty"`
}

type violation struct {
	Sig     string      `json:"sig"`
	What    string      `json:"what"`
	Witness interface{} `json:"witness"`
	Replay  string      `json:"replay"`
}

const nShards = 64

// Run is one execution of one property check.
type Run struct {
	Prop   string
	Tier   string
	Seed   int64
	Replay string
	Root   string // /verif
	Level  string // exploration | fault_enumeration

	start time.Time

	evals  int64
	shards [nShards]struct {
		sync.Mutex
		m map[uint64]struct{}
	}
	mu          sync.Mutex
	samples     []interface{}
	maxSample   int
	counters    map[string]int64
	rule        string
	exhaustive  bool
	assumptions []string
	extra       map[string]interface{}

	known       map[string]finding // sig -> finding (state known) for this property
	knownHit    map[string]int64
	viols       []violation
	violCount   map[string]int64
	inconcl     []string
	minDistinct int64

	raceScope       []string
	autoSamples     int
	incidentalRaces []string
}

var (
	fProp   = flag.String("prop", "", "property id (Cnn)")
	fTier   = flag.String("tier", "", "quick|thorough (default $VERIF_TIER or quick)")
	fSeed   = flag.Int64("seed", -1, "seed (default $VERIF_SEED or 1)")
	fReplay = flag.String("replay", "", "replay file")
)

// Start parses flags and environment and returns the Run. level is the
// evidence level claimed ("exploration" or "fault_enumeration").
func Start(level string) *Run {
	if !flag.Parsed() {
		flag.Parse()
	}
	r := &Run{Prop: *fProp, Tier: *fTier, Seed: *fSeed, Replay: *fReplay, Level: level}
	if r.Prop == "" {
		fmt.Fprintln(os.Stderr, "missing -prop")
		os.Exit(ExitInconclusive)
	}
	if r.Tier == "" {
		r.Tier = os.Getenv("VERIF_TIER")
	}
	if r.Tier != "thorough" {
		r.Tier = "quick"
	}
	if r.Seed < 0 {
		r.Seed = 1
		if s := os.Getenv("VERIF_SEED"); s != "" {
			var v int64
			if _, err := fmt.Sscan(s, &v); err == nil && v >= 0 {
				r.Seed = v
			}
		}
	}
	r.Root = os.Getenv("VERIF_ROOT")
	if r.Root == "" {
		r.Root = "/verif"
	}
	r.start = time.Now()
	r.maxSample = 8
	r.counters = map[string]int64{}
	r.extra = map[string]interface{}{}
	r.known = map[string]finding{}
	r.knownHit = map[string]int64{}
	r.violCount = map[string]int64{}
	r.minDistinct = 2
	for i := range r.shards {
		r.shards[i].m = map[uint64]struct{}{}
	}
	r.loadKnown()
	if p := os.Getenv("VERIF_CRASH_OUTPUT"); p != "" {
		r.crashReport(p, os.Getenv("VERIF_CRASH_CASE"))
	}
	return r
}

// crashReport turns the output of a child that died abnormally (fatal runtime
// error, unrecovered panic in a goroutine) into a violation and exits.
func (r *Run) crashReport(outPath, casePath string) {
	out, _ := os.ReadFile(outPath)
	var cur interface{}
	if casePath != "" {
		if b, err := os.ReadFile(casePath); err == nil {
			json.Unmarshal(b, &cur)
		}
	}
	sig := "crash:" + strings.TrimPrefix(PanicSig(out), "panic:")
	first := ""
	for _, l := range strings.Split(string(out), "\n") {
		if strings.HasPrefix(l, "fatal error:") || strings.HasPrefix(l, "panic:") {
			first = l
			break
		}
	}
	r.Violation(sig, "child process died: "+first, map[string]interface{}{"cur_case": cur, "output_tail": truncate(string(out), 8000)})
	r.Evals(1)
	r.Finish()
}

func (r *Run) loadKnown() {
	b, err := os.ReadFile(filepath.Join(r.Root, "known_findings.json"))
	if err != nil {
		return
	}
	var f struct {
		Findings []finding `json:"findings"`
	}
	if err := json.Unmarshal(b, &f); err != nil {
		fmt.Fprintf(os.Stderr, "known_findings.json: %v\n", err)
		os.Exit(ExitInconclusive)
	}
	for _, x := range f.Findings {
		if x.Property == r.Prop && x.State == "known" {
			r.known[x.Sig] = x
		}
	}
}

// Quick reports whether this is the quick tier.
func (r *Run) Quick() bool { return r.Tier == "quick" }

// N picks a size by tier.
func (r *Run) N(quick, thorough int) int {
	if r.Quick() {
		return quick
	}
	return thorough
}

// SetRule states how cases are generated and what makes one non-trivial.
func (r *Run) SetRule(s string)       { r.rule = s }
func (r *Run) SetExhaustive(b bool)   { r.exhaustive = b }
func (r *Run) Assume(s string)        { r.mu.Lock(); r.assumptions = append(r.assumptions, s); r.mu.Unlock() }
func (r *Run) SetMinDistinct(n int64) { r.minDistinct = n }
func (r *Run) Extra(k string, v interface{}) {
	r.mu.Lock()
	r.extra[k] = v
	r.mu.Unlock()
}

// Hash64 is the canonical case hash.
func Hash64(parts ...string) uint64 {
	h := fnv.New64a()
	for _, p := range parts {
		h.Write([]byte(p))
		h.Write([]byte{0xff})
	}
	return h.Sum64()
}

// Case accounts one evaluated case. key identifies the case for distinct
// counting; only non-trivial cases are counted as distinct.
func (r *Run) Case(key uint64, nontrivial bool) {
	atomic.AddInt64(&r.evals, 1)
	if !nontrivial {
		return
	}
	s := &r.shards[key%nShards]
	s.Lock()
	s.m[key] = struct{}{}
	s.Unlock()
}

// CaseS is Case with a string key.
func (r *Run) CaseS(key string, nontrivial bool) {
	r.Case(Hash64(key), nontrivial)
	if nontrivial {
		r.mu.Lock()
		if r.autoSamples < 2 && len(r.samples) < r.maxSample {
			// guarantee that the evidence shows at least what a case key looks like
			r.autoSamples++
			r.samples = append(r.samples, map[string]interface{}{"case_key": truncate(key, 600)})
		}
		r.mu.Unlock()
	}
}

// Evals adds n evaluations that carry no distinct key of their own.
func (r *Run) Evals(n int64) { atomic.AddInt64(&r.evals, n) }

// outRoot is where evidence and replays are written: the /verif root, or - for monitor
// self-tests against a scratch copy of bfe (bin/check with VERIF_REPO) - a scratch
// directory, so that a run against a mutant never overwrites the evidence of /repo.
func (r *Run) outRoot() string {
	if e := os.Getenv("VERIF_OUT_ROOT"); e != "" {
		return e
	}
	return r.Root
}

// Count bumps a named counter reported in the evidence.
func (r *Run) Count(name string, d int64) {
	r.mu.Lock()
	r.counters[name] += d
	r.mu.Unlock()
}

func (r *Run) Counter(name string) int64 {
	r.mu.Lock()
	defer r.mu.Unlock()
	return r.counters[name]
}

// Sample keeps a few literal cases for the evidence file.
func (r *Run) Sample(v interface{}) {
	r.mu.Lock()
	if len(r.samples) < r.maxSample {
		r.samples = append(r.samples, v)
	}
	r.mu.Unlock()
}

// WantSample reports whether more samples are wanted (to avoid building them).
func (r *Run) WantSample() bool {
	r.mu.Lock()
	defer r.mu.Unlock()
	return len(r.samples) < r.maxSample
}

var sigClean = regexp.MustCompile(`[^A-Za-z0-9_.:+-]+`)

// Violation records a violation of the property with a signature describing
// the shape of the failing case. If the signature is listed as a known finding
// it is reported as KNOWN-FINDING instead.
func (r *Run) Violation(sig, what string, witness interface{}) {
	sig = sigClean.ReplaceAllString(sig, "_")
	r.mu.Lock()
	defer r.mu.Unlock()
	if k, ok := r.known[sig]; ok {
		if r.knownHit[sig] == 0 {
			fmt.Printf("KNOWN-FINDING: property=%s %s [%s]\n", r.Prop, k.What, sig)
		}
		r.knownHit[sig]++
		return
	}
	r.violCount[sig]++
	if r.violCount[sig] > 2 || len(r.viols) >= 40 {
		return
	}
	dir := filepath.Join(r.outRoot(), "replays", r.Prop)
	os.MkdirAll(dir, 0o755)
	wb, _ := json.Marshal(witness)
	name := fmt.Sprintf("%s-%016x.json", truncate(sig, 60), Hash64(string(wb)))
	path := filepath.Join(dir, name)
	rec := map[string]interface{}{
		"property": r.Prop, "sig": sig, "what": what, "seed": r.Seed, "tier": r.Tier, "witness": witness,
	}
	b, _ := json.MarshalIndent(rec, "", " ")
	os.WriteFile(path, b, 0o644)
	r.viols = append(r.viols, violation{Sig: sig, What: what, Witness: witness, Replay: path})
	fmt.Printf("VIOLATION property=%s replay=%s\n", r.Prop, path)
	fmt.Printf("  sig=%s: %s\n", sig, truncate(what, 400))
}

func truncate(s string, n int) string {
	if len(s) <= n {
		return s
	}
	return s[:n]
}

// Inconclusive marks the run as inconclusive (unless a violation is found).
func (r *Run) Inconclusive(why string) {
	r.mu.Lock()
	r.inconcl = append(r.inconcl, why)
	r.mu.Unlock()
}

// Violations returns the number of (unknown) violation signatures so far.
func (r *Run) Violations() int {
	r.mu.Lock()
	defer r.mu.Unlock()
	return len(r.violCount)
}

// PanicSig derives a signature from a panic stack: the innermost bfe frame
// (function name with receiver, arguments stripped).
func PanicSig(stack []byte) string {
	for _, line := range strings.Split(string(stack), "\n") {
		line = strings.TrimSpace(line)
		if !strings.HasPrefix(line, "github.com/bfenetworks/bfe/") {
			continue
		}
		fn := strings.TrimPrefix(line, "github.com/bfenetworks/bfe/")
		if i := strings.LastIndexByte(fn, '('); i > 0 {
			fn = fn[:i]
		}
		fn = strings.TrimSuffix(fn, ".func1")
		return "panic:" + fn
	}
	return "panic:unknown"
}

// Try runs fn and converts a panic into a violation. desc is only called on
// panic and must describe the case. It returns true if fn panicked.
func (r *Run) Try(desc func() interface{}, fn func()) (panicked bool) {
	defer func() {
		if e := recover(); e != nil {
			panicked = true
			st := debug.Stack()
			var w interface{}
			if desc != nil {
				w = desc()
			}
			r.Violation(PanicSig(st), fmt.Sprintf("panic: %v", e),
				map[string]interface{}{"case": w, "panic": fmt.Sprint(e), "stack": truncate(string(st), 3000)})
		}
	}()
	fn()
	return false
}

// WriteAhead writes the current case to $VERIF_SCRATCH/cur_case.json so that a
// fatal crash leaves a witness. No-op when VERIF_SCRATCH is unset.
func (r *Run) WriteAhead(v interface{}) {
	d := os.Getenv("VERIF_SCRATCH")
	if d == "" {
		return
	}
	b, _ := json.Marshal(map[string]interface{}{"property": r.Prop, "seed": r.Seed, "tier": r.Tier, "case": v})
	os.WriteFile(filepath.Join(d, "cur_case."+r.Prop+".json"), b, 0o644)
}

// Distinct returns the measured distinct non-trivial count.
func (r *Run) Distinct() int64 {
	var n int64
	for i := range r.shards {
		r.shards[i].Lock()
		n += int64(len(r.shards[i].m))
		r.shards[i].Unlock()
	}
	return n
}

// Finish writes the evidence file, prints the verdict and exits.
func (r *Run) Finish() {
	r.collectRaces()
	distinct := r.Distinct()
	evals := atomic.LoadInt64(&r.evals)
	r.mu.Lock()
	cov := map[string]interface{}{
		"evaluations":         evals,
		"distinct_nontrivial": distinct,
		"rule":                r.rule,
		"samples":             r.samples,
		"exhaustive":          r.exhaustive,
	}
	if len(r.samples) == 0 {
		cov["samples"] = []interface{}{}
	}
	keys := make([]string, 0, len(r.counters))
	for k := range r.counters {
		keys = append(keys, k)
	}
	sort.Strings(keys)
	cnt := map[string]int64{}
	for _, k := range keys {
		cnt[k] = r.counters[k]
	}
	cov["counters"] = cnt
	for k, v := range r.extra {
		cov[k] = v
	}
	kh := map[string]int64{}
	for k, v := range r.knownHit {
		kh[k] = v
	}
	cov["known_findings_hit"] = kh
	if len(r.incidentalRaces) > 0 {
		cov["incidental_races_not_judged"] = r.incidentalRaces
	}
	vs := map[string]int64{}
	for k, v := range r.violCount {
		vs[k] = v
	}
	cov["violation_signatures"] = vs
	nviol := len(r.violCount)
	verdict := "held"
	code := ExitHeld
	if nviol > 0 {
		verdict, code = "violated", ExitViolation
	} else {
		if evals < 1 || distinct < r.minDistinct {
			r.inconcl = append(r.inconcl, fmt.Sprintf("too few cases observed: evaluations=%d distinct_nontrivial=%d (need >=%d)", evals, distinct, r.minDistinct))
		}
		if len(r.inconcl) > 0 {
			verdict, code = "inconclusive", ExitInconclusive
		}
	}
	cov["verdict"] = verdict
	if len(r.inconcl) > 0 {
		cov["inconclusive_reasons"] = r.inconcl
	}
	ev := map[string]interface{}{
		"property_id": r.Prop,
		"tier":        r.Tier,
		"seed":        r.Seed,
		"level":       r.Level,
		"coverage":    cov,
		"assumptions": append([]string{"go " + runtime.Version() + "; only executions actually produced by this run are covered"}, r.assumptions...),
		"wall_s":      time.Since(r.start).Seconds(),
		"violations":  nviol,
	}
	r.mu.Unlock()
	if r.Replay == "" {
		b, _ := json.MarshalIndent(ev, "", " ")
		dir := filepath.Join(r.outRoot(), "evidence")
		os.MkdirAll(dir, 0o755)
		tmp := filepath.Join(dir, "."+r.Prop+".json.tmp")
		if err := os.WriteFile(tmp, b, 0o644); err == nil {
			os.Rename(tmp, filepath.Join(dir, r.Prop+".json"))
		}
	}
	fmt.Printf("%s %s tier=%s seed=%d evaluations=%d distinct_nontrivial=%d wall=%.1fs verdict=%s\n",
		r.Prop, r.Level, r.Tier, r.Seed, evals, distinct, time.Since(r.start).Seconds(), verdict)
	for _, k := range keys {
		fmt.Printf("  %s=%d\n", k, cnt[k])
	}
	for _, w := range r.inconcl {
		fmt.Printf("INCONCLUSIVE %s: %s\n", r.Prop, w)
	}
	os.Exit(code)
}

// LoadReplay reads the "witness" of a replay file into v.
func (r *Run) LoadReplay(v interface{}) error {
	b, err := os.ReadFile(r.Replay)
	if err != nil {
		return err
	}
	var rec struct {
		Witness json.RawMessage `json:"witness"`
	}
	if err := json.Unmarshal(b, &rec); err != nil {
		return err
	}
	return json.Unmarshal(rec.Witness, v)
}

// Parallel runs fn(i) for i in [0,n) on up to workers goroutines (0 = NumCPU).
func Parallel(n, workers int, fn func(i int)) {
	if workers <= 0 {
		workers = runtime.NumCPU()
	}
	if workers > n {
		workers = n
	}
	if workers <= 1 {
		for i := 0; i < n; i++ {
			fn(i)
		}
		return
	}
	var next int64 = -1
	var wg sync.WaitGroup
	for w := 0; w < workers; w++ {
		wg.Add(1)
		go func() {
			defer wg.Done()
			for {
				i := int(atomic.AddInt64(&next, 1))
				if i >= n {
					return
				}
				fn(i)
			}
		}()
	}
	wg.Wait()
}
