package vkit

import "hash/fnv"

// Rand is a splitmix64 stream. It is not safe for concurrent use: take one
// per goroutine / per case with Run.Rng.
type Rand struct{ s uint64 }

func NewRand(seed uint64) *Rand { return &Rand{s: seed} }

// Rng returns the sub-stream of this run named by parts (generator name,
// case index, ...). Adding a generator never perturbs another.
func (r *Run) Rng(name string, idx ...int) *Rand {
	h := fnv.New64a()
	h.Write([]byte(r.Prop))
	h.Write([]byte{0})
	h.Write([]byte(name))
	s := h.Sum64() ^ (uint64(r.Seed) * 0x9E3779B97F4A7C15)
	for _, i := range idx {
		s = mix(s + uint64(i)*0xBF58476D1CE4E5B9 + 0x94D049BB133111EB)
	}
	return &Rand{s: mix(s)}
}

func mix(z uint64) uint64 {
	z = (z ^ (z >> 30)) * 0xBF58476D1CE4E5B9
	z = (z ^ (z >> 27)) * 0x94D049BB133111EB
	return z ^ (z >> 31)
}

func (r *Rand) State() uint64 { return r.s }

func (r *Rand) U64() uint64 {
	r.s += 0x9E3779B97F4A7C15
	return mix(r.s)
}

// Intn returns a value in [0,n). n<=0 returns 0.
func (r *Rand) Intn(n int) int {
	if n <= 0 {
		return 0
	}
	return int(r.U64() % uint64(n))
}

// Range returns a value in [lo,hi].
func (r *Rand) Range(lo, hi int) int {
	if hi <= lo {
		return lo
	}
	return lo + r.Intn(hi-lo+1)
}

func (r *Rand) Bool() bool { return r.U64()&1 == 1 }

// Chance is true with probability num/den.
func (r *Rand) Chance(num, den int) bool { return r.Intn(den) < num }

func (r *Rand) Bytes(n int) []byte {
	b := make([]byte, n)
	for i := 0; i < n; i += 8 {
		v := r.U64()
		for j := 0; j < 8 && i+j < n; j++ {
			b[i+j] = byte(v >> (8 * uint(j)))
		}
	}
	return b
}

// Pick returns a random element index weighted uniformly.
func (r *Rand) Pick(n int) int { return r.Intn(n) }

func (r *Rand) PickS(xs []string) string { return xs[r.Intn(len(xs))] }

func (r *Rand) Perm(n int) []int {
	p := make([]int, n)
	for i := range p {
		p[i] = i
	}
	for i := n - 1; i > 0; i-- {
		j := r.Intn(i + 1)
		p[i], p[j] = p[j], p[i]
	}
	return p
}

// Fork derives an independent child stream.
func (r *Rand) Fork() *Rand { return &Rand{s: mix(r.U64() ^ 0xD6E8FEB86659FD93)} }
