package vkit

import (
	"os"
	"path/filepath"
	"regexp"
	"strings"
)

var raceFrame = regexp.MustCompile(`(?m)^  (\S+)\(`)

// RaceScope declares which race reports are violations of THIS property: a
// report is in scope when a frame of either access stack contains one of the
// patterns (e.g. "bfe_balance/"). Without a scope every race report is only
// recorded in the evidence as incidental (counter race_out_of_scope): races
// belong to the properties whose statement names them (C05, C15).
func (r *Run) RaceScope(patterns ...string) {
	r.mu.Lock()
	r.raceScope = append(r.raceScope, patterns...)
	r.mu.Unlock()
}

// collectRaces parses the race detector's log files (GORACE log_path) and
// reports each distinct report (by the innermost bfe frame of the two stacks)
// as a violation. Reports without any bfe frame are harness races and make the
// run inconclusive.
func (r *Run) collectRaces() {
	base := os.Getenv("VERIF_RACE_LOG")
	if base == "" {
		return
	}
	files, _ := filepath.Glob(base + ".*")
	total := 0
	seen := map[string]bool{}
	for _, f := range files {
		b, err := os.ReadFile(f)
		if err != nil {
			continue
		}
		blocks := strings.Split(string(b), "WARNING: DATA RACE")
		for _, blk := range blocks[1:] {
			total++
			if i := strings.Index(blk, "=================="); i >= 0 {
				blk = blk[:i]
			}
			// the two access stacks come first; goroutine creation stacks follow
			acc := blk
			if i := strings.Index(acc, "\nGoroutine "); i >= 0 {
				acc = acc[:i]
			}
			var bfe []string
			for _, m := range raceFrame.FindAllStringSubmatch(acc, -1) {
				if strings.Contains(m[1], "github.com/bfenetworks/bfe/") {
					fn := strings.TrimPrefix(m[1], "github.com/bfenetworks/bfe/")
					bfe = append(bfe, fn)
				}
			}
			if len(bfe) == 0 {
				r.Inconclusive("race report without a bfe frame (harness race?): " + truncate(blk, 600))
				continue
			}
			// first bfe frame of each stack: take first and the first after the "Previous" marker
			a := bfe[0]
			bb := a
			if i := strings.Index(acc, "Previous "); i >= 0 {
				for _, m := range raceFrame.FindAllStringSubmatch(acc[i:], -1) {
					if strings.Contains(m[1], "github.com/bfenetworks/bfe/") {
						bb = strings.TrimPrefix(m[1], "github.com/bfenetworks/bfe/")
						break
					}
				}
			}
			if bb < a {
				a, bb = bb, a
			}
			sig := "race:" + a + "~" + bb
			if seen[sig] {
				continue
			}
			seen[sig] = true
			inScope := false
			for _, pat := range r.raceScope {
				if strings.Contains(acc, pat) {
					inScope = true
				}
			}
			if !inScope {
				r.mu.Lock()
				r.counters["race_out_of_scope"]++
				if len(r.incidentalRaces) < 10 {
					r.incidentalRaces = append(r.incidentalRaces, sig+"\n"+truncate(acc, 1800))
				}
				r.mu.Unlock()
				continue
			}
			r.Violation(sig, "data race reported by the Go race detector", map[string]interface{}{"report": truncate(blk, 6000)})
		}
	}
	r.mu.Lock()
	r.counters["race_reports"] += int64(total)
	r.counters["race_distinct"] += int64(len(seen))
	r.mu.Unlock()
}
