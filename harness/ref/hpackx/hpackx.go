package hpackx

import (
	"fmt"

	xh "golang.org/x/net/http2/hpack"
)

// Field is one decoded header field.
type Field struct {
	Name, Value string
	Sensitive   bool // never-indexed literal (RFC 7541 section 6.2.3)
}

// Size is the table size of an entry (RFC 7541 section 4.1).
func (f Field) Size() uint64 { return uint64(len(f.Name)) + uint64(len(f.Value)) + 32 }

// Static is the static table of RFC 7541 Appendix A (index i is Static[i-1]).
var Static = [61]Field{
	{Name: ":authority"},
	{Name: ":method", Value: "GET"},
	{Name: ":method", Value: "POST"},
	{Name: ":path", Value: "/"},
	{Name: ":path", Value: "/index.html"},
	{Name: ":scheme", Value: "http"},
	{Name: ":scheme", Value: "https"},
	{Name: ":status", Value: "200"},
	{Name: ":status", Value: "204"},
	{Name: ":status", Value: "206"},
	{Name: ":status", Value: "304"},
	{Name: ":status", Value: "400"},
	{Name: ":status", Value: "404"},
	{Name: ":status", Value: "500"},
	{Name: "accept-charset"},
	{Name: "accept-encoding", Value: "gzip, deflate"},
	{Name: "accept-language"},
	{Name: "accept-ranges"},
	{Name: "accept"},
	{Name: "access-control-allow-origin"},
	{Name: "age"},
	{Name: "allow"},
	{Name: "authorization"},
	{Name: "cache-control"},
	{Name: "content-disposition"},
	{Name: "content-encoding"},
	{Name: "content-language"},
	{Name: "content-length"},
	{Name: "content-location"},
	{Name: "content-range"},
	{Name: "content-type"},
	{Name: "cookie"},
	{Name: "date"},
	{Name: "etag"},
	{Name: "expect"},
	{Name: "expires"},
	{Name: "from"},
	{Name: "host"},
	{Name: "if-match"},
	{Name: "if-modified-since"},
	{Name: "if-none-match"},
	{Name: "if-range"},
	{Name: "if-unmodified-since"},
	{Name: "last-modified"},
	{Name: "link"},
	{Name: "location"},
	{Name: "max-forwards"},
	{Name: "proxy-authenticate"},
	{Name: "proxy-authorization"},
	{Name: "range"},
	{Name: "referer"},
	{Name: "refresh"},
	{Name: "retry-after"},
	{Name: "server"},
	{Name: "set-cookie"},
	{Name: "strict-transport-security"},
	{Name: "transfer-encoding"},
	{Name: "user-agent"},
	{Name: "vary"},
	{Name: "via"},
	{Name: "www-authenticate"},
}

func init() {
	if InitErr != nil {
		return
	}
	// The static table above was typed from RFC 7541 Appendix A; cross-check
	// it once against x/net's decoder so that a typo cannot become an alarm.
	var got []xh.HeaderField
	d := xh.NewDecoder(0, func(f xh.HeaderField) { got = append(got, f) })
	for i := 1; i <= 61; i++ {
		if _, err := d.Write([]byte{0x80 | byte(i)}); err != nil {
			InitErr = fmt.Errorf("static table: x/net rejects index %d: %v", i, err)
			return
		}
	}
	d.Close()
	for i, f := range got {
		if f.Name != Static[i].Name || f.Value != Static[i].Value {
			InitErr = fmt.Errorf("static table: entry %d is %q=%q here, %q=%q in x/net", i+1, Static[i].Name, Static[i].Value, f.Name, f.Value)
			return
		}
	}
	if len(got) != 61 {
		InitErr = fmt.Errorf("static table: %d entries decoded", len(got))
	}
}

// Decoding error classes of the block decoder (besides the Huff* classes).
const (
	ErrIndexZero        = "index:zero"                     // 6.1: "The index value of 0 is not used. It MUST be treated as a decoding error"
	ErrIndexBeyond      = "index:beyond-table"             // 2.3.3: index strictly greater than the sum of both table lengths
	ErrUpdateAboveLimit = "size-update:above-limit"        // 6.3: new maximum must be <= the limit set by the protocol using HPACK
	ErrUpdateNotAtStart = "size-update:not-at-block-start" // 4.2 (only reported by a Strict decoder)
	ErrVarintOverlong   = "varint:overlong"                // 5.1: exceeds implementation limits (here: > 9 continuation octets)
	ErrTruncated        = "truncated:block-ends-inside-representation"
	ErrUpdateXNetRule   = "size-update:xnet-rule" // only with Decoder.XNetRule
)

// MaxVarintContinuation is this reference's implementation limit on the octet
// length of an integer (RFC 7541 section 5.1 lets every implementation choose):
// a prefix plus at most 9 continuation octets, which always fits in 64 bits.
const MaxVarintContinuation = 9

// Decoder is the reference decoding context.
type Decoder struct {
	Dyn     []Field // Dyn[0] is the newest entry (index 62)
	Size    uint64  // current dynamic table size
	Max     uint64  // current maximum (set by size updates)
	Allowed uint64  // limit set by the protocol (SETTINGS_HEADER_TABLE_SIZE)
	// Strict makes a dynamic table size update that follows a field
	// representation in the same block an error (RFC 7541 4.2 states the
	// requirement on the encoder; it does not say what a decoder does).
	Strict bool
	// XNetRule mimics the rule of golang.org/x/net's decoder instead: a size
	// update is an error when it is not the first representation of the block
	// and the dynamic table is not empty (this also rejects the second of two
	// updates at the start of a block, which RFC 7541 4.2 explicitly allows).
	// Only used to cross-validate this model against x/net exactly.
	XNetRule bool
	// Reprs counts the representations completely parsed so far.
	Reprs int
	// Observation counters: entries evicted, references to dynamic entries
	// (whole field or name), size updates processed, entries inserted.
	Evicted, DynRefs, Updates, Inserted int
	// IntHook, if set, is called for every integer (RFC 7541 5.1) that was
	// parsed completely: site names which integer of which representation it
	// is (Site* constants), prefix is its N, v the value. Observation only.
	IntHook func(site string, prefix uint8, v uint64)
}

// Sites reported to Decoder.IntHook.
const (
	SiteIndexed         = "indexed"
	SiteSizeUpdate      = "size-update"
	SiteNameIdxIncr     = "name-index:incremental"
	SiteNameIdxWithout  = "name-index:without-indexing"
	SiteNameIdxNever    = "name-index:never-indexed"
	SiteNameLenRaw      = "name-length:raw"
	SiteNameLenHuffman  = "name-length:huffman"
	SiteValueLenRaw     = "value-length:raw"
	SiteValueLenHuffman = "value-length:huffman"
)

func (d *Decoder) hookInt(site string, prefix uint8, v uint64) {
	if d.IntHook != nil {
		d.IntHook(site, prefix, v)
	}
}

// readStr is readString plus the IntHook report of the length integer.
func (d *Decoder) readStr(p []byte, rawSite, huffSite string) (s string, rest []byte, cls string) {
	s, rest, cls = readString(p)
	if cls == "" && d.IntHook != nil {
		n, _, _ := readInt(p, 7)
		if p[0]&0x80 != 0 {
			d.IntHook(huffSite, 7, n)
		} else {
			d.IntHook(rawSite, 7, n)
		}
	}
	return
}

func NewDecoder(max uint32) *Decoder {
	return &Decoder{Max: uint64(max), Allowed: uint64(max)}
}

// SetAllowed sets the protocol limit (a new SETTINGS_HEADER_TABLE_SIZE).
func (d *Decoder) SetAllowed(v uint32) { d.Allowed = uint64(v) }

// Clone returns an independent copy.
func (d *Decoder) Clone() *Decoder {
	c := *d
	c.Dyn = append([]Field(nil), d.Dyn...)
	return &c
}

func (d *Decoder) evict() {
	for d.Size > d.Max && len(d.Dyn) > 0 {
		last := d.Dyn[len(d.Dyn)-1]
		d.Size -= last.Size()
		d.Dyn = d.Dyn[:len(d.Dyn)-1]
		d.Evicted++
	}
}

func (d *Decoder) add(f Field) {
	// 4.4: evict until size <= max - newsize; an entry larger than max empties the table.
	sz := f.Size()
	if sz > d.Max {
		d.Evicted += len(d.Dyn)
		d.Dyn = d.Dyn[:0]
		d.Size = 0
		return
	}
	for d.Size+sz > d.Max {
		last := d.Dyn[len(d.Dyn)-1]
		d.Size -= last.Size()
		d.Dyn = d.Dyn[:len(d.Dyn)-1]
		d.Evicted++
	}
	d.Inserted++
	d.Dyn = append(d.Dyn, Field{})
	copy(d.Dyn[1:], d.Dyn)
	d.Dyn[0] = Field{Name: f.Name, Value: f.Value}
	d.Size += sz
}

func (d *Decoder) at(i uint64) (Field, string) {
	if i == 0 {
		return Field{}, ErrIndexZero
	}
	if i <= 61 {
		return Static[i-1], ""
	}
	if i-61 > uint64(len(d.Dyn)) {
		return Field{}, ErrIndexBeyond
	}
	d.DynRefs++
	return d.Dyn[i-62], ""
}

// readInt parses an N-bit-prefix integer (RFC 7541 5.1).
func readInt(p []byte, n uint8) (v uint64, rest []byte, cls string) {
	if len(p) == 0 {
		return 0, nil, ErrTruncated
	}
	mask := uint64(1)<<n - 1
	v = uint64(p[0]) & mask
	p = p[1:]
	if v < mask {
		return v, p, ""
	}
	cont := 0
	shift := uint(0)
	for {
		if len(p) == 0 {
			// cannot know yet whether it would have been over-long
			if cont > MaxVarintContinuation {
				return 0, nil, ErrVarintOverlong
			}
			return 0, nil, ErrTruncated
		}
		b := p[0]
		p = p[1:]
		cont++
		if cont > MaxVarintContinuation {
			return 0, nil, ErrVarintOverlong
		}
		v += uint64(b&0x7f) << shift // cont<=9: at most 2^63-1 + 255, no overflow
		shift += 7
		if b&0x80 == 0 {
			return v, p, ""
		}
	}
}

func readString(p []byte) (s string, rest []byte, cls string) {
	if len(p) == 0 {
		return "", nil, ErrTruncated
	}
	huff := p[0]&0x80 != 0
	n, p, cls := readInt(p, 7)
	if cls != "" {
		return "", nil, cls
	}
	if n > uint64(len(p)) {
		return "", nil, ErrTruncated
	}
	raw := p[:n]
	p = p[n:]
	if !huff {
		return string(raw), p, ""
	}
	s, cls = HuffDecode(raw)
	if cls != "" {
		return "", nil, cls
	}
	return s, p, ""
}

// DecodeBlock decodes one complete header block. It returns the fields decoded
// before the first error and the class of that error ("" = block is valid).
// After an error the context is unusable (as for a real connection).
func (d *Decoder) DecodeBlock(p []byte) (fields []Field, cls string) {
	sawField := false
	first := true
	for ; len(p) > 0; first = false {
		b := p[0]
		switch {
		case b&0x80 != 0: // 6.1 indexed
			idx, rest, c := readInt(p, 7)
			if c != "" {
				return fields, c
			}
			f, c := d.at(idx)
			if c != "" {
				return fields, c
			}
			p = rest
			d.hookInt(SiteIndexed, 7, idx)
			fields = append(fields, Field{Name: f.Name, Value: f.Value})
			sawField = true
		case b&0xe0 == 0x20: // 6.3 dynamic table size update
			if d.Strict && sawField {
				return fields, ErrUpdateNotAtStart
			}
			if d.XNetRule && !first && d.Size > 0 {
				return fields, ErrUpdateXNetRule
			}
			v, rest, c := readInt(p, 5)
			if c != "" {
				return fields, c
			}
			if v > d.Allowed {
				return fields, ErrUpdateAboveLimit
			}
			d.Max = v
			d.evict()
			d.Updates++
			d.hookInt(SiteSizeUpdate, 5, v)
			p = rest
		default: // literals: 6.2.1 (01), 6.2.2 (0000), 6.2.3 (0001)
			var n uint8 = 4
			incremental := b&0xc0 == 0x40
			if incremental {
				n = 6
			}
			never := !incremental && b&0xf0 == 0x10
			idx, rest, c := readInt(p, n)
			if c != "" {
				return fields, c
			}
			var f Field
			if idx != 0 {
				e, c := d.at(idx)
				if c != "" {
					return fields, c
				}
				f.Name = e.Name
			} else {
				f.Name, rest, c = d.readStr(rest, SiteNameLenRaw, SiteNameLenHuffman)
				if c != "" {
					return fields, c
				}
			}
			switch {
			case incremental:
				d.hookInt(SiteNameIdxIncr, n, idx)
			case never:
				d.hookInt(SiteNameIdxNever, n, idx)
			default:
				d.hookInt(SiteNameIdxWithout, n, idx)
			}
			f.Value, rest, c = d.readStr(rest, SiteValueLenRaw, SiteValueLenHuffman)
			if c != "" {
				return fields, c
			}
			p = rest
			if incremental {
				d.add(f)
			}
			f.Sensitive = never
			fields = append(fields, f)
			sawField = true
		}
		d.Reprs++
	}
	return fields, ""
}

// ---- builders ----------------------------------------------------------

// AppendInt appends v as an N-bit-prefix integer; flags are the bits above the
// prefix in the first octet. extraZero > 0 appends that many redundant
// continuation octets (0x80 ... 0x00), a non-minimal but RFC-legal encoding;
// it forces the multi-octet form, so it is only applied when v >= 2^N-1.
func AppendInt(dst []byte, flags byte, n uint8, v uint64, extraZero int) []byte {
	k := uint64(1)<<n - 1
	if v < k {
		return append(dst, flags|byte(v))
	}
	dst = append(dst, flags|byte(k))
	v -= k
	for v >= 128 {
		dst = append(dst, 0x80|byte(v&0x7f))
		v >>= 7
	}
	if extraZero <= 0 {
		return append(dst, byte(v))
	}
	dst = append(dst, 0x80|byte(v))
	for i := 1; i < extraZero; i++ {
		dst = append(dst, 0x80)
	}
	return append(dst, 0)
}

// AppendRawString appends a string literal whose payload octets are given
// as is; huff sets the H bit; declared (if >= 0) overrides the length field.
func AppendRawString(dst []byte, huff bool, payload []byte, declared int64) []byte {
	var fl byte
	if huff {
		fl = 0x80
	}
	n := uint64(len(payload))
	if declared >= 0 {
		n = uint64(declared)
	}
	dst = AppendInt(dst, fl, 7, n, 0)
	return append(dst, payload...)
}

// AppendString appends s as a plain or canonical Huffman string literal.
func AppendString(dst []byte, s string, huff bool) []byte {
	if huff {
		return AppendRawString(dst, true, HuffEncode(s), -1)
	}
	return AppendRawString(dst, false, []byte(s), -1)
}

// Literal kinds (first-octet pattern and prefix size).
const (
	KindIncremental = 0x40
	KindWithout     = 0x00
	KindNever       = 0x10
)

func kindPrefix(kind byte) uint8 {
	if kind == KindIncremental {
		return 6
	}
	return 4
}

// AppendLiteralHead appends the first part of a literal representation: the
// kind with the name index (0 = a name string follows).
func AppendLiteralHead(dst []byte, kind byte, nameIdx uint64) []byte {
	return AppendInt(dst, kind, kindPrefix(kind), nameIdx, 0)
}

func AppendIndexed(dst []byte, idx uint64) []byte { return AppendInt(dst, 0x80, 7, idx, 0) }

func AppendSizeUpdate(dst []byte, v uint64) []byte { return AppendInt(dst, 0x20, 5, v, 0) }
