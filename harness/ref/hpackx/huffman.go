// Package hpackx is an independent RFC 7541 (HPACK) reference model for the
// /verif harness: a bit-level Huffman decoder with the strict padding rules of
// RFC 7541 section 5.2, a complete header-block decoder with the dynamic table
// of section 4, and byte-level builders for (valid and deliberately invalid)
// representations. It never calls bfe code.
//
// The 257-entry Huffman code (RFC 7541 Appendix B) is not typed in by hand: it
// is derived at init from the exported *encoder* of golang.org/x/net/http2/hpack
// (single-symbol encodings) and then validated structurally (prefix-free,
// Kraft sum complete once EOS = 30 one-bits is added) and against the RFC 7541
// Appendix C.4/C.6 example strings. The decoding logic and the padding checker
// below are written from the RFC text and share nothing with x/net or bfe.
package hpackx

import (
	"bytes"
	"encoding/hex"
	"fmt"
	"strings"

	xh "golang.org/x/net/http2/hpack"
)

// EOS is the symbol number of the end-of-string code.
const EOS = 256

var (
	huffCode [257]uint32
	huffLen  [257]uint8
)

type hnode struct {
	child [2]int32 // index into htrie; 0 = absent (root is never a child)
	sym   int32    // >=0 for leaves
}

var htrie []hnode

// InitErr is non-nil if the derived Huffman table failed its self-checks; a
// harness must treat that as inconclusive.
var InitErr error

func init() {
	for c := 0; c < 256; c++ {
		s := string([]byte{byte(c)})
		n := xh.HuffmanEncodeLength(strings.Repeat(s, 8)) // 8 copies are byte aligned: = code length in bits
		if n < 5 || n > 30 {
			InitErr = fmt.Errorf("huffman: implausible code length %d for symbol %d", n, c)
			return
		}
		enc := xh.AppendHuffmanString(nil, s)
		var v uint32
		for i := 0; i < 4; i++ {
			v <<= 8
			if i < len(enc) {
				v |= uint32(enc[i])
			} else {
				v |= 0xff
			}
		}
		huffLen[c] = uint8(n)
		huffCode[c] = v >> (32 - uint(n))
	}
	huffLen[EOS] = 30
	huffCode[EOS] = 0x3fffffff
	// Kraft equality: a complete prefix code.
	var sum uint64
	for c := 0; c <= EOS; c++ {
		sum += 1 << (30 - uint(huffLen[c]))
	}
	if sum != 1<<30 {
		InitErr = fmt.Errorf("huffman: Kraft sum %d != 2^30 (table incomplete or overfull)", sum)
		return
	}
	htrie = make([]hnode, 1, 600)
	htrie[0].sym = -1
	for c := 0; c <= EOS; c++ {
		cur := int32(0)
		for i := int(huffLen[c]) - 1; i >= 0; i-- {
			if htrie[cur].sym >= 0 {
				InitErr = fmt.Errorf("huffman: code of %d has a shorter code as prefix", c)
				return
			}
			b := (huffCode[c] >> uint(i)) & 1
			nx := htrie[cur].child[b]
			if nx == 0 {
				htrie = append(htrie, hnode{sym: -1})
				nx = int32(len(htrie) - 1)
				htrie[cur].child[b] = nx
			}
			cur = nx
		}
		if htrie[cur].sym >= 0 || htrie[cur].child[0] != 0 || htrie[cur].child[1] != 0 {
			InitErr = fmt.Errorf("huffman: code of %d collides", c)
			return
		}
		htrie[cur].sym = int32(c)
	}
	buildShort()
	// RFC 7541 C.4.1, C.4.2, C.4.3, C.6.1 example strings.
	for _, v := range [][2]string{
		{"www.example.com", "f1e3c2e5f23a6ba0ab90f4ff"},
		{"no-cache", "a8eb10649cbf"},
		{"custom-key", "25a849e95ba97d7f"},
		{"custom-value", "25a849e95bb8e8b4bf"},
		{"302", "6402"},
		{"private", "aec3771a4b"},
	} {
		want, _ := hex.DecodeString(v[1])
		if got := HuffEncode(v[0]); !bytes.Equal(got, want) {
			InitErr = fmt.Errorf("huffman: RFC 7541 example %q encodes to %x, RFC says %s", v[0], got, v[1])
			return
		}
		if s, cls := HuffDecode(want); cls != "" || s != v[0] {
			InitErr = fmt.Errorf("huffman: RFC 7541 example %s decodes to %q/%s", v[1], s, cls)
			return
		}
	}
}

// HuffCodeOf returns the code and its length in bits of sym (0..255, or EOS).
func HuffCodeOf(sym int) (uint32, uint8) { return huffCode[sym], huffLen[sym] }

// Huffman decoding error classes (RFC 7541 section 5.2).
const (
	HuffEOS          = "huffman:eos-encoded"                  // "A Huffman-encoded string literal containing the EOS symbol MUST be treated as a decoding error"
	HuffPadOver7     = "huffman:padding-over-7-bits"          // all-ones padding strictly longer than 7 bits
	HuffTruncOver7   = "huffman:truncated-symbol-over-7-bits" // trailing bits >7 that are not even an EOS prefix (incomplete symbol)
	HuffPadNotPrefix = "huffman:padding-not-eos-prefix"       // <=7 trailing bits containing a 0 bit
)

// HuffDecode decodes b bit by bit. class is "" when b is a valid Huffman
// string literal per RFC 7541 section 5.2, else one of the Huff* classes; s
// holds the symbols decoded before the problem.
func HuffDecode(b []byte) (s string, class string) {
	out := make([]byte, 0, len(b)+len(b)/2+1)
	var acc uint64 // bit reservoir: the low nacc bits are unread input
	nacc, i := 0, 0
	for {
		for nacc <= 56 && i < len(b) {
			acc = acc<<8 | uint64(b[i])
			i++
			nacc += 8
		}
		if nacc == 0 {
			return string(out), ""
		}
		if nacc >= 8 { // fast path: the 5..8-bit codes, one lookup
			if e := huffShort[byte(acc>>uint(nacc-8))]; e.n != 0 {
				out = append(out, e.sym)
				nacc -= int(e.n)
				continue
			}
		}
		// bit by bit from the root, for one symbol
		cur := int32(0)
		pend := 0       // bits consumed since the last complete symbol
		allOnes := true // whether those pending bits are all 1
		for {
			if nacc == 0 {
				if i < len(b) {
					acc = acc<<8 | uint64(b[i])
					i++
					nacc = 8
					continue
				}
				// input ends inside a symbol: the pending bits are the padding
				switch {
				case pend > 7 && allOnes:
					return string(out), HuffPadOver7
				case pend > 7:
					return string(out), HuffTruncOver7
				case !allOnes:
					return string(out), HuffPadNotPrefix
				}
				return string(out), ""
			}
			nacc--
			bit := (acc >> uint(nacc)) & 1
			cur = htrie[cur].child[bit]
			pend++
			if bit == 0 {
				allOnes = false
			}
			if sym := htrie[cur].sym; sym >= 0 {
				if sym == EOS {
					return string(out), HuffEOS
				}
				out = append(out, byte(sym))
				break
			}
		}
	}
}

// huffShort maps the next 8 input bits to the symbol whose code (of <= 8 bits)
// they start with; n == 0 when the code is longer than 8 bits.
var huffShort [256]struct {
	sym byte
	n   uint8
}

func buildShort() {
	for c := 0; c < 256; c++ {
		if n := huffLen[c]; n <= 8 {
			lo := int(huffCode[c]) << (8 - n)
			for k := lo; k < lo+1<<(8-n); k++ {
				huffShort[k].sym, huffShort[k].n = byte(c), n
			}
		}
	}
}

// Bits is a bit string under construction (for building Huffman literals with
// chosen tails).
type Bits struct {
	B []byte
	N int // number of valid bits
}

// Add appends the low nbits bits of code, most significant first.
func (w *Bits) Add(code uint32, nbits uint8) {
	for i := int(nbits) - 1; i >= 0; i-- {
		w.AddBit(byte(code>>uint(i)) & 1)
	}
}

func (w *Bits) AddBit(bit byte) {
	if w.N%8 == 0 {
		w.B = append(w.B, 0)
	}
	if bit != 0 {
		w.B[len(w.B)-1] |= 1 << uint(7-w.N%8)
	}
	w.N++
}

// AddSym appends the code of sym (0..255 or EOS).
func (w *Bits) AddSym(sym int) { w.Add(huffCode[sym], huffLen[sym]) }

// AddStr appends the codes of every byte of s.
func (w *Bits) AddStr(s string) {
	for i := 0; i < len(s); i++ {
		w.AddSym(int(s[i]))
	}
}

// Pad fills up to the next byte boundary with the given bit value.
func (w *Bits) Pad(bit byte) {
	for w.N%8 != 0 {
		w.AddBit(bit)
	}
}

// Room is the number of bits missing to the next byte boundary (0..7).
func (w *Bits) Room() int { return (8 - w.N%8) % 8 }

// HuffEncode is the canonical encoding: codes followed by 1-bit padding.
func HuffEncode(s string) []byte {
	var w Bits
	w.AddStr(s)
	w.Pad(1)
	return w.B
}

// HuffLenBits returns the encoded length of s in bits.
func HuffLenBits(s string) int {
	n := 0
	for i := 0; i < len(s); i++ {
		n += int(huffLen[s[i]])
	}
	return n
}
