package chunked

import (
	"bytes"
	"fmt"
)

// SelfTest checks the decoder against hand-derived cases from RFC 7230 section 4.1.
// A failure means the reference itself is broken and no verdict may be based
// on it.
func SelfTest() error {
	type tc struct {
		in       string
		class    string // "" = accept
		data     string
		consumed int // on accept; -1 = len(in)
	}
	cases := []tc{
		// RFC 7230 4.1 style example (the one from RFC 2616 19.4.6 / Wikipedia form)
		{"4\r\nWiki\r\n5\r\npedia\r\nE\r\n in\r\n\r\nchunks.\r\n0\r\n\r\n", "", "Wikipedia in\r\n\r\nchunks.", -1},
		{"0\r\n\r\n", "", "", -1},
		{"000\r\n\r\n", "", "", -1},
		{"0\r\n\r\nGET / HTTP/1.1\r\n", "", "", 5},
		{"5\r\nhello\r\n0\r\nX-T: v\r\nY: \tw \r\n\r\nrest", "", "hello", 31},
		{"5;a=b\r\nhello\r\n0;last\r\n\r\n", "", "hello", -1},
		{"5;a=\"q;\\\"x\"\r\nhello\r\n0\r\n\r\n", "", "hello", -1},
		{"A\r\n0123456789\r\n0\r\n\r\n", "", "0123456789", -1},
		{"a\r\n0123456789\r\n0\r\n\r\n", "", "0123456789", -1},
		{"0000000000000005\r\nhello\r\n0\r\n\r\n", "", "hello", -1},
		{"00000000000000005\r\nhello\r\n0\r\n\r\n", SizeTooManyDigits, "", 0},
		{"10000000000000005\r\nhello\r\n0\r\n\r\n", SizeTooManyDigits, "", 0},
		{"\r\nhello\r\n0\r\n\r\n", SizeEmptyLine, "", 0},
		{"5\r\nhello\r\n\r\n\r\n", SizeEmptyLine, "hello", 0},
		{"0x5\r\nhello\r\n0\r\n\r\n", SizeHexPrefix, "", 0},
		{"+5\r\nhello\r\n0\r\n\r\n", SizeSign, "", 0},
		{"-5\r\nhello\r\n0\r\n\r\n", SizeSign, "", 0},
		{" 5\r\nhello\r\n0\r\n\r\n", SizeLeadingWS, "", 0},
		{"5 \r\nhello\r\n0\r\n\r\n", SizeTrailingWS, "", 0},
		{"5\t\r\nhello\r\n0\r\n\r\n", SizeTrailingWS, "", 0},
		{"5 ;a\r\nhello\r\n0\r\n\r\n", ExtBWS, "", 0},
		{"5; a\r\nhello\r\n0\r\n\r\n", ExtBWS, "", 0},
		{"5;a =b\r\nhello\r\n0\r\n\r\n", ExtBWS, "", 0},
		{"5;a \r\nhello\r\n0\r\n\r\n", ExtInvalid, "", 0},
		{"5;\r\nhello\r\n0\r\n\r\n", ExtInvalid, "", 0},
		{"5;a=\r\nhello\r\n0\r\n\r\n", ExtInvalid, "", 0},
		{"5g\r\nhello\r\n0\r\n\r\n", SizeInvalidByte, "", 0},
		{"5\nhello\r\n0\r\n\r\n", LineBareLF, "", 0},
		{"5\r\rhello\r\n0\r\n\r\n", LineBareCR, "", 0},
		{"5\r\nhello\n0\r\n\r\n", DataMissingCRLF, "hello", 0},
		{"5\r\nhelloX\r\n0\r\n\r\n", DataMissingCRLF, "hello", 0},
		{"5\r\nhello\rX0\r\n\r\n", DataMissingCRLF, "hello", 0},
		{"5\r\nhello\r\n0\n\r\n", LineBareLF, "hello", 0},
		{"5\r\nhello\r\n0\r\n\n", TrailerPrefix + "bare-lf", "hello", 0},
		{"5\r\nhello\r\n0\r\nX : v\r\n\r\n", TrailerPrefix + "ws-before-colon", "hello", 0},
		{"5\r\nhello\r\n0\r\nX: v\r\n fold\r\n\r\n", TrailerPrefix + "obs-fold", "hello", 0},
		{"5\r\nhello\r\n0\r\nnocolon\r\n\r\n", TrailerPrefix + "no-colon", "hello", 0},
		{"0\r\n0\r\n X: v\r\n\r\n", TrailerPrefix + "obs-fold", "", 0},
		{" \r\n\r\n", SizeEmptyLine, "", 0},
		{"5\r\nhello\r\n\t \r\n\r\n", SizeEmptyLine, "hello", 0},
		{"5\r\nhel", Truncated, "hel", 0},
		{"5\r\nhello", Truncated, "hello", 0},
		{"5\r\nhello\r", Truncated, "hello", 0},
		{"5\r\nhello\r\n", Truncated, "hello", 0},
		{"5\r\nhello\r\n0", Truncated, "hello", 0},
		{"5\r\nhello\r\n0\r\n", Truncated, "hello", 0},
		{"5\r\nhello\r\n0\r\n\r", Truncated, "hello", 0},
		{"", Truncated, "", 0},
		{"FFFFFFFFFFFFFFFF\r\nabc", Truncated, "abc", 0},
	}
	for _, c := range cases {
		res, err := Decode([]byte(c.in))
		got := ""
		if err != nil {
			got = err.Class
		}
		if got != c.class {
			return fmt.Errorf("chunked self-test: Decode(%q) class %q, want %q (%v)", c.in, got, c.class, err)
		}
		if string(res.Data) != c.data {
			return fmt.Errorf("chunked self-test: Decode(%q) data %q, want %q", c.in, res.Data, c.data)
		}
		if err == nil {
			want := c.consumed
			if want < 0 {
				want = len(c.in)
			}
			if res.Consumed != want {
				return fmt.Errorf("chunked self-test: Decode(%q) consumed %d, want %d", c.in, res.Consumed, want)
			}
		}
	}
	// BWS tolerance
	if res, err := DecodeOpts([]byte("5 ; a = b\r\nhello\r\n0\r\n\r\n"), Options{BWS: true}); err != nil || string(res.Data) != "hello" {
		return fmt.Errorf("chunked self-test: BWS tolerance: %v %q", err, res.Data)
	}
	// TrailingWS tolerance: padding only directly before the line end
	if res, err := DecodeOpts([]byte("5 \t\r\nhello\r\n0 \r\n\r\nrest"), Options{TrailingWS: true}); err != nil || string(res.Data) != "hello" || res.Consumed != 18 || res.Chunks[0].Ext != "" {
		return fmt.Errorf("chunked self-test: TrailingWS tolerance: %v %q %d", err, res.Data, res.Consumed)
	}
	for in, class := range map[string]string{"5 \nhello\r\n0\r\n\r\n": LineBareLF, "5 x\r\nhello\r\n0\r\n\r\n": SizeTrailingWS, "5 ;a\r\nhello\r\n0\r\n\r\n": ExtBWS, " 5\r\nhello\r\n0\r\n\r\n": SizeLeadingWS, " \r\n\r\n": SizeEmptyLine} {
		if _, err := DecodeOpts([]byte(in), Options{TrailingWS: true}); err == nil || err.Class != class {
			return fmt.Errorf("chunked self-test: TrailingWS tolerance on %q: %v, want %s", in, err, class)
		}
	}
	// Encode/Decode round trip
	data := []byte("The quick brown fox\r\n0\r\n\r\njumps")
	enc := Encode(data, []int{1, 0, 7, 3})
	res, err := Decode(enc)
	if err != nil || !bytes.Equal(res.Data, data) || res.Consumed != len(enc) || len(res.Chunks) != 5 {
		return fmt.Errorf("chunked self-test: round trip: %v %q chunks=%d", err, res.Data, len(res.Chunks))
	}
	return nil
}
