// Package chunked is a strict reference decoder for the HTTP/1.1 "chunked"
// transfer coding, written from RFC 7230 section 4.1 (standard library only, no code
// shared with the implementation under test):
//
//	chunked-body   = *chunk last-chunk trailer-part CRLF
//	chunk          = chunk-size [ chunk-ext ] CRLF chunk-data CRLF
//	chunk-size     = 1*HEXDIG            ; here: 1 to 16 HEXDIG (fits 64 bits)
//	last-chunk     = 1*("0") [ chunk-ext ] CRLF
//	chunk-ext      = *( ";" chunk-ext-name [ "=" chunk-ext-val ] )
//	chunk-ext-name = token
//	chunk-ext-val  = token / quoted-string
//	trailer-part   = *( header-field CRLF )
//
// Decode works on a complete byte slice and reports, besides the decoded data
// and the number of bytes the chunked body occupies, a precise class for the
// first deviation from the grammar.
package chunked

import (
	"fmt"

	"verifharness/ref/httpfield"
)

// Reject classes.
const (
	Truncated          = "truncated"                         // input ends before the chunked body is complete
	SizeEmptyLine      = "chunk-size:empty-line"             // no hex digit before the line end
	SizeTooManyDigits  = "chunk-size:overflow-17plus-digits" // more than 16 hex digits
	SizeHexPrefix      = "chunk-size:0x-prefix"              // "0x" / "0X" prefix
	SizeSign           = "chunk-size:sign"                   // leading '+' or '-'
	SizeLeadingWS      = "chunk-size:leading-whitespace"     // SP / HTAB before the size
	SizeTrailingWS     = "chunk-size:trailing-whitespace"    // SP / HTAB after the size (no extension follows)
	SizeInvalidByte    = "chunk-size:invalid-byte"           // any other byte where a hex digit, ';' or CRLF is required
	ExtBWS             = "chunk-ext:bws"                     // whitespace around ';' or '=' of a chunk extension (RFC 7230 erratum 4667 / RFC 9112 BWS)
	ExtInvalid         = "chunk-ext:invalid"                 // malformed chunk extension
	LineBareLF         = "line-end:bare-lf"                  // size line ended by LF without CR
	LineBareCR         = "line-end:bare-cr"                  // CR not followed by LF in a size line
	DataMissingCRLF    = "chunk-data:missing-crlf"           // chunk-data not followed by CRLF
	TrailerPrefix      = "trailer:"                          // + httpfield class: malformed trailer-part
	maxSizeDigits      = 16
	trailerTruncatedCl = TrailerPrefix + httpfield.Truncated
)

// Error is a rejection.
type Error struct {
	Class  string
	Offset int // offset of the first offending byte
	Msg    string
}

func (e *Error) Error() string { return fmt.Sprintf("%s at %d: %s", e.Class, e.Offset, e.Msg) }

// Incomplete reports whether the input was a proper prefix of something that
// might still become valid (more bytes are needed), as opposed to malformed.
func (e *Error) Incomplete() bool { return e.Class == Truncated || e.Class == trailerTruncatedCl }

// Chunk describes one chunk of the input.
type Chunk struct {
	Offset int    // offset of the size line
	Size   uint64 // announced size
	Ext    string // raw chunk-ext including the leading ';' ("" if none)
}

// Result of decoding. On rejection Data holds every chunk-data byte that a
// streaming strict decoder would have delivered before it met the deviation:
// the data of all complete chunks, plus the available part of the data of a
// chunk whose size line was valid.
type Result struct {
	Data     []byte
	Consumed int // bytes of the input occupied by the chunked body (valid only on acceptance)
	Chunks   []Chunk
	Trailers []httpfield.Field
}

// Options select tolerated deviations; the zero value is strict.
type Options struct {
	// BWS accepts SP / HTAB around ';' and '=' in chunk extensions (RFC 7230
	// erratum 4667, RFC 9112 section 7.1.1).
	BWS bool
	// TrailingWS ignores SP / HTAB between the chunk-size and the CRLF of the
	// size line when no chunk-ext follows ("5 \r\n" is read as "5\r\n"; no RFC
	// sanction; the reading is "the whitespace is padding").
	TrailingWS bool
	// Trailer tolerances for the trailer-part field lines.
	Trailer httpfield.Tolerate
}

// Decode decodes one chunked body at the start of b, strictly.
func Decode(b []byte) (Result, *Error) { return DecodeOpts(b, Options{}) }

func isHex(c byte) (uint64, bool) {
	switch {
	case c >= '0' && c <= '9':
		return uint64(c - '0'), true
	case c >= 'a' && c <= 'f':
		return uint64(c-'a') + 10, true
	case c >= 'A' && c <= 'F':
		return uint64(c-'A') + 10, true
	}
	return 0, false
}

func isWS(c byte) bool { return c == ' ' || c == '\t' }

// DecodeOpts is Decode with tolerances.
func DecodeOpts(b []byte, o Options) (res Result, err *Error) {
	pos := 0
	for {
		// ---- chunk-size
		lineStart := pos
		var size uint64
		digits := 0
		for pos < len(b) {
			v, ok := isHex(b[pos])
			if !ok {
				break
			}
			digits++
			if digits > maxSizeDigits {
				return res, &Error{SizeTooManyDigits, pos, fmt.Sprintf("chunk-size has more than %d hex digits", maxSizeDigits)}
			}
			size = size<<4 | v
			pos++
		}
		if pos >= len(b) {
			return res, &Error{Truncated, len(b), "input ends in chunk-size"}
		}
		c := b[pos]
		if digits == 0 {
			switch {
			case c == '\r' || c == '\n':
				if c == '\r' && pos+1 >= len(b) {
					return res, &Error{Truncated, len(b), "input ends after CR"}
				}
				return res, &Error{SizeEmptyLine, pos, "chunk-size line without any hex digit"}
			case c == '+' || c == '-':
				return res, &Error{SizeSign, pos, "sign before chunk-size"}
			case isWS(c):
				q := pos
				for q < len(b) && isWS(b[q]) {
					q++
				}
				if q >= len(b) {
					return res, &Error{Truncated, len(b), "input ends in chunk-size line"}
				}
				if b[q] == '\r' || b[q] == '\n' {
					return res, &Error{SizeEmptyLine, pos, "chunk-size line holds only whitespace"}
				}
				return res, &Error{SizeLeadingWS, pos, "whitespace before chunk-size"}
			default:
				return res, &Error{SizeInvalidByte, pos, fmt.Sprintf("byte 0x%02x where chunk-size is required", c)}
			}
		}
		// ---- chunk-ext
		extStart := pos
		if isWS(c) {
			// whitespace after the size: BWS before an extension, or plain trailing whitespace
			q := pos
			for q < len(b) && isWS(b[q]) {
				q++
			}
			if q >= len(b) {
				return res, &Error{Truncated, len(b), "input ends after chunk-size"}
			}
			switch {
			case b[q] != ';' && o.TrailingWS && (b[q] == '\r' || b[q] == '\n'):
				// tolerated padding: the line end is judged below
				extStart = q
			case b[q] != ';':
				return res, &Error{SizeTrailingWS, pos, "whitespace after chunk-size"}
			case !o.BWS:
				return res, &Error{ExtBWS, pos, "whitespace before ';' of chunk-ext"}
			}
			pos = q
			c = b[pos]
		}
		if c == ';' {
			p2, e := parseExt(b, pos, o.BWS)
			if e != nil {
				return res, e
			}
			pos = p2
			if pos >= len(b) {
				return res, &Error{Truncated, len(b), "input ends in chunk-ext"}
			}
			c = b[pos]
		}
		ext := string(b[extStart:pos])
		// ---- CRLF
		switch {
		case c == '\n':
			return res, &Error{LineBareLF, pos, "chunk-size line ended by bare LF"}
		case c == '\r':
			if pos+1 >= len(b) {
				return res, &Error{Truncated, len(b), "input ends after CR"}
			}
			if b[pos+1] != '\n' {
				return res, &Error{LineBareCR, pos, "CR not followed by LF in chunk-size line"}
			}
			pos += 2
		case (c == 'x' || c == 'X') && digits == 1 && size == 0:
			return res, &Error{SizeHexPrefix, pos, "0x prefix in chunk-size"}
		default:
			return res, &Error{SizeInvalidByte, pos, fmt.Sprintf("byte 0x%02x in chunk-size line", c)}
		}
		res.Chunks = append(res.Chunks, Chunk{Offset: lineStart, Size: size, Ext: ext})
		if size == 0 {
			break // last-chunk
		}
		// ---- chunk-data CRLF
		avail := uint64(len(b) - pos)
		if size > avail {
			res.Data = append(res.Data, b[pos:]...)
			return res, &Error{Truncated, len(b), fmt.Sprintf("input ends inside chunk-data (%d of %d bytes)", avail, size)}
		}
		res.Data = append(res.Data, b[pos:pos+int(size)]...)
		pos += int(size)
		if pos >= len(b) {
			return res, &Error{Truncated, len(b), "input ends before CRLF after chunk-data"}
		}
		if b[pos] != '\r' {
			return res, &Error{DataMissingCRLF, pos, fmt.Sprintf("byte 0x%02x after chunk-data, CRLF required", b[pos])}
		}
		if pos+1 >= len(b) {
			return res, &Error{Truncated, len(b), "input ends inside CRLF after chunk-data"}
		}
		if b[pos+1] != '\n' {
			return res, &Error{DataMissingCRLF, pos + 1, fmt.Sprintf("byte 0x%02x after CR after chunk-data", b[pos+1])}
		}
		pos += 2
	}
	// ---- trailer-part CRLF
	fields, next, fe := httpfield.ParseSection(b, pos, o.Trailer)
	if fe != nil {
		cl := fe.Class
		if cl == httpfield.Truncated {
			return res, &Error{Truncated, len(b), "input ends in trailer-part: " + fe.Msg}
		}
		return res, &Error{TrailerPrefix + cl, fe.Offset, fe.Msg}
	}
	res.Trailers = fields
	res.Consumed = next
	return res, nil
}

// parseExt parses *( ";" name [ "=" val ] ) starting at b[pos]==';' and returns
// the offset of the first byte after the extensions. If the input ends inside
// the extensions it returns len(b) and the caller reports the truncation.
func parseExt(b []byte, pos int, bws bool) (int, *Error) {
	skipWS := func(p int) int {
		for p < len(b) && isWS(b[p]) {
			p++
		}
		return p
	}
	// bwsTo handles optional whitespace at pos that is only legal (as BWS) when
	// followed by one of the bytes in next.
	bwsTo := func(next string, what string) *Error {
		q := skipWS(pos)
		if q == pos {
			return nil
		}
		if q >= len(b) {
			pos = q
			return nil
		}
		ok := false
		for i := 0; i < len(next); i++ {
			if b[q] == next[i] {
				ok = true
			}
		}
		if !ok {
			return &Error{ExtInvalid, pos, "whitespace " + what + " in chunk-ext"}
		}
		if !bws {
			return &Error{ExtBWS, pos, "whitespace " + what + " in chunk-ext"}
		}
		pos = q
		return nil
	}
	for pos < len(b) && b[pos] == ';' {
		pos++
		// BWS after ';'
		if q := skipWS(pos); q != pos {
			if q >= len(b) {
				return len(b), nil
			}
			if !bws {
				return 0, &Error{ExtBWS, pos, "whitespace after ';' in chunk-ext"}
			}
			pos = q
		}
		n := 0
		for pos < len(b) && httpfield.IsTChar(b[pos]) {
			pos++
			n++
		}
		if pos >= len(b) {
			return len(b), nil
		}
		if n == 0 {
			return 0, &Error{ExtInvalid, pos, "empty chunk-ext-name"}
		}
		if e := bwsTo("=;", "after chunk-ext-name"); e != nil {
			return 0, e
		}
		if pos >= len(b) {
			return len(b), nil
		}
		if b[pos] != '=' {
			continue
		}
		pos++
		if q := skipWS(pos); q != pos {
			if q >= len(b) {
				return len(b), nil
			}
			if !bws {
				return 0, &Error{ExtBWS, pos, "whitespace after '=' in chunk-ext"}
			}
			pos = q
		}
		if pos >= len(b) {
			return len(b), nil
		}
		if b[pos] == '"' {
			pos++
			closed := false
			for pos < len(b) {
				c := b[pos]
				if c == '"' {
					pos++
					closed = true
					break
				}
				if c == '\\' {
					if pos+1 >= len(b) {
						return len(b), nil
					}
					d := b[pos+1]
					if !(d == '\t' || d == ' ' || d >= 0x21 && d <= 0x7e || d >= 0x80) {
						return 0, &Error{ExtInvalid, pos + 1, "invalid quoted-pair in chunk-ext-val"}
					}
					pos += 2
					continue
				}
				// qdtext = HTAB / SP / %x21 / %x23-5B / %x5D-7E / obs-text
				if !(c == '\t' || c == ' ' || c == 0x21 || c >= 0x23 && c <= 0x5b || c >= 0x5d && c <= 0x7e || c >= 0x80) {
					return 0, &Error{ExtInvalid, pos, fmt.Sprintf("byte 0x%02x in quoted chunk-ext-val", c)}
				}
				pos++
			}
			if !closed {
				return len(b), nil
			}
		} else {
			n := 0
			for pos < len(b) && httpfield.IsTChar(b[pos]) {
				pos++
				n++
			}
			if pos >= len(b) {
				return len(b), nil
			}
			if n == 0 {
				return 0, &Error{ExtInvalid, pos, "empty chunk-ext-val"}
			}
		}
		if e := bwsTo(";", "after chunk-ext-val"); e != nil {
			return 0, e
		}
	}
	return pos, nil
}

// Encode produces a canonical chunked body for data split at the given chunk
// sizes (zero sizes are skipped; a remainder becomes the last chunk), followed
// by the last-chunk and an empty trailer-part. It is used by self-tests and as
// a seed for mutation.
func Encode(data []byte, sizes []int) []byte {
	var out []byte
	for _, n := range sizes {
		if n <= 0 {
			continue
		}
		if n > len(data) {
			n = len(data)
		}
		if n == 0 {
			break
		}
		out = append(out, fmt.Sprintf("%x\r\n", n)...)
		out = append(out, data[:n]...)
		out = append(out, "\r\n"...)
		data = data[n:]
	}
	if len(data) > 0 {
		out = append(out, fmt.Sprintf("%x\r\n", len(data))...)
		out = append(out, data...)
		out = append(out, "\r\n"...)
	}
	return append(out, "0\r\n\r\n"...)
}
