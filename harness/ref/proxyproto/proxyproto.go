// Package proxyproto is an independent reference for the PROXY protocol
// (haproxy doc/proxy-protocol.txt, versions 1 and 2): a spec-conformant
// SENDER (Header.Bytes) and a strict CLASSIFIER (Classify) that says what a
// receiver owes to a byte stream. It is written from the specification and
// shares no code with bfe_proxy.
package proxyproto

import (
	"bytes"
	"encoding/binary"
	"fmt"
	"net"
	"net/netip"
	"strconv"
	"strings"
)

var (
	SigV1 = []byte("PROXY")
	SigV2 = []byte{0x0D, 0x0A, 0x0D, 0x0A, 0x00, 0x0D, 0x0A, 0x51, 0x55, 0x49, 0x54, 0x0A}
)

// Families / transport protocols of version 2 (high / low nibble of byte 14).
const (
	AFUnspec = 0
	AFInet   = 1
	AFInet6  = 2
	AFUnix   = 3

	TPUnspec = 0
	TPStream = 1
	TPDgram  = 2
)

// TLV is one type-length-value vector of a version 2 header.
type TLV struct {
	Type  byte
	Value []byte
}

// Header describes one header a conformant sender may emit.
type Header struct {
	Version int // 1 or 2

	// version 1
	V1Proto string // "TCP4", "TCP6" or "UNKNOWN"
	V1Tail  string // UNKNOWN only: text between "UNKNOWN" and CRLF ("" or " ...")

	// version 2
	Local     bool
	Fam, Prot byte
	UnixSrc   []byte // 108 bytes each for AF_UNIX
	UnixDst   []byte
	TLVs      []TLV
	Raw       []byte // UNSPEC family or LOCAL: opaque bytes after the 16-byte fixed part (instead of address+TLVs) when non-nil

	Src, Dst         netip.Addr
	SrcPort, DstPort uint16
}

// Bytes renders the header as the specification prescribes.
func (h *Header) Bytes() []byte {
	if h.Version == 1 {
		if h.V1Proto == "UNKNOWN" {
			return []byte("PROXY UNKNOWN" + h.V1Tail + "\r\n")
		}
		return []byte(fmt.Sprintf("PROXY %s %s %s %d %d\r\n", h.V1Proto, h.Src.String(), h.Dst.String(), h.SrcPort, h.DstPort))
	}
	b := append([]byte{}, SigV2...)
	cmd := byte(0x21)
	if h.Local {
		cmd = 0x20
	}
	b = append(b, cmd, h.Fam<<4|h.Prot)
	var body []byte
	if h.Raw != nil {
		body = h.Raw
	} else {
		switch h.Fam {
		case AFInet:
			s, d := h.Src.As4(), h.Dst.As4()
			body = append(body, s[:]...)
			body = append(body, d[:]...)
			body = binary.BigEndian.AppendUint16(body, h.SrcPort)
			body = binary.BigEndian.AppendUint16(body, h.DstPort)
		case AFInet6:
			s, d := h.Src.As16(), h.Dst.As16()
			body = append(body, s[:]...)
			body = append(body, d[:]...)
			body = binary.BigEndian.AppendUint16(body, h.SrcPort)
			body = binary.BigEndian.AppendUint16(body, h.DstPort)
		case AFUnix:
			body = append(body, pad108(h.UnixSrc)...)
			body = append(body, pad108(h.UnixDst)...)
		}
		for _, t := range h.TLVs {
			body = append(body, t.Type, byte(len(t.Value)>>8), byte(len(t.Value)))
			body = append(body, t.Value...)
		}
	}
	b = binary.BigEndian.AppendUint16(b, uint16(len(body)))
	return append(b, body...)
}

func pad108(p []byte) []byte {
	out := make([]byte, 108)
	copy(out, p)
	return out
}

// Duty is what the receiver owes to a stream.
type Duty int

const (
	// Advertised: report exactly the advertised addresses, deliver the payload.
	Advertised Duty = iota
	// Real: accept, report the real socket addresses, deliver the payload.
	Real
	// Fallback: a valid combination the receiver need not support (AF_UNIX,
	// DGRAM, UNSPEC nibbles with the PROXY command): either reject cleanly or
	// accept in UNSPEC mode (real addresses; the advertised ones are also
	// acceptable for INET/INET6) and deliver the payload.
	Fallback
	// Malformed: the header violates a MUST of the specification: end the
	// connection, deliver nothing.
	Malformed
	// NoHeader: the stream does not start with a signature: pass through.
	NoHeader
	// Ambiguous: the specification does not settle it (only "should", or
	// silent): no expectation.
	Ambiguous
)

func (d Duty) String() string {
	return [...]string{"advertised", "real", "fallback", "malformed", "no-header", "ambiguous"}[d]
}

// Verdict is the classification of a byte stream.
type Verdict struct {
	Duty    Duty
	Class   string   // shape of the header, e.g. "v1-tcp4", "v2-proxy-inet6-tlv", "v2-local"
	Reason  string   // for Malformed / Ambiguous: which rule (the first one broken)
	Reasons []string // Malformed: every rule the header breaks
	HdrLen  int      // bytes that belong to the header (Advertised, Real, Fallback)
	Src     netip.AddrPort
	Dst     netip.AddrPort
	HasAddr bool // Src/Dst meaningful (Advertised, or Fallback with INET/INET6)
}

func strictPort(s string) (uint16, bool) {
	if len(s) < 1 || len(s) > 5 {
		return 0, false
	}
	for _, c := range s {
		if c < '0' || c > '9' {
			return 0, false
		}
	}
	if len(s) > 1 && s[0] == '0' {
		return 0, false
	}
	v, _ := strconv.Atoi(s)
	if v > 65535 {
		return 0, false
	}
	return uint16(v), true
}

func strictIPv4(s string) (netip.Addr, bool) {
	parts := strings.Split(s, ".")
	if len(parts) != 4 {
		return netip.Addr{}, false
	}
	var a [4]byte
	for i, p := range parts {
		if len(p) < 1 || len(p) > 3 || (len(p) > 1 && p[0] == '0') {
			return netip.Addr{}, false
		}
		for _, c := range p {
			if c < '0' || c > '9' {
				return netip.Addr{}, false
			}
		}
		v, _ := strconv.Atoi(p)
		if v > 255 {
			return netip.Addr{}, false
		}
		a[i] = byte(v)
	}
	return netip.AddrFrom4(a), true
}

// strictIPv6: hexadecimal groups and colons only (no zone, no embedded dotted
// quad - the specification speaks of hexadecimal digits delimited by colons).
func strictIPv6(s string) (netip.Addr, bool, bool) {
	for _, c := range s {
		switch {
		case c >= '0' && c <= '9', c >= 'a' && c <= 'f', c >= 'A' && c <= 'F', c == ':':
		case c == '.':
			if a, err := netip.ParseAddr(s); err == nil && a.Is6() {
				return netip.Addr{}, false, true // embedded IPv4 notation: not settled by the text
			}
			return netip.Addr{}, false, false
		default:
			return netip.Addr{}, false, false
		}
	}
	if len(s) < 2 || len(s) > 39 {
		return netip.Addr{}, false, false
	}
	a, err := netip.ParseAddr(s)
	if err != nil || !a.Is6() || a.Zone() != "" {
		return netip.Addr{}, false, false
	}
	return a, true, false
}

// Classify decides what a receiver owes to the stream (header ‖ payload, or
// anything else), assuming the whole stream is delivered and then the sender
// closes.
func Classify(stream []byte) Verdict {
	switch {
	case len(stream) >= 12 && bytes.Equal(stream[:12], SigV2):
		return classifyV2(stream)
	case len(stream) >= 6 && bytes.Equal(stream[:5], SigV1):
		if stream[5] != ' ' {
			// "PROXY" not followed by the mandatory space: header or not? not settled
			return Verdict{Duty: Ambiguous, Class: "v1", Reason: "proxy-not-followed-by-space"}
		}
		return classifyV1(stream)
	case len(stream) == 5 && bytes.Equal(stream, SigV1):
		return Verdict{Duty: Ambiguous, Class: "v1", Reason: "only-signature"}
	}
	// a stream that ends before a receiver could compare the whole signature
	// carries no header either
	if len(stream) > 0 && ((stream[0] == SigV1[0] && len(stream) < len(SigV1)) || (stream[0] == SigV2[0] && len(stream) < len(SigV2))) {
		return Verdict{Duty: NoHeader, Class: "short-stream-first-byte-of-signature"}
	}
	return Verdict{Duty: NoHeader, Class: "no-signature"}
}

func classifyV1(stream []byte) Verdict {
	bad := func(r string) Verdict { return Verdict{Duty: Malformed, Class: "v1", Reason: r, Reasons: []string{r}} }
	i := bytes.Index(stream, []byte("\r\n"))
	lf := bytes.IndexByte(stream, '\n')
	if i < 0 {
		if len(stream) <= 107 {
			return bad("v1-no-crlf-before-eof")
		}
		return bad("v1-no-crlf")
	}
	if lf >= 0 && lf < i {
		return bad("v1-bare-lf")
	}
	if cr := bytes.IndexByte(stream[:i], '\r'); cr >= 0 {
		return Verdict{Duty: Ambiguous, Class: "v1", Reason: "bare-cr-inside-line"}
	}
	line := string(stream[:i])
	hdrLen := i + 2
	rest := line[6:]
	if strings.HasPrefix(rest, "UNKNOWN") {
		tail := rest[7:]
		if tail != "" && tail[0] != ' ' {
			return Verdict{Duty: Ambiguous, Class: "v1-unknown", Reason: "unknown-keyword-glued-to-text"}
		}
		if hdrLen > 107 {
			return Verdict{Duty: Ambiguous, Class: "v1-unknown", Reason: "line-longer-than-107"}
		}
		cl := "v1-unknown-bare"
		if tail != "" {
			cl = "v1-unknown-with-text"
		}
		return Verdict{Duty: Real, Class: cl, HdrLen: hdrLen}
	}
	if hdrLen > 107 {
		return Verdict{Duty: Ambiguous, Class: "v1", Reason: "line-longer-than-107"}
	}
	f := strings.Split(rest, " ")
	// collect every rule the line breaks (fields are judged by position as far as they exist)
	var reasons []string
	amb := false
	add := func(r string) {
		for _, x := range reasons {
			if x == r {
				return
			}
		}
		reasons = append(reasons, r)
	}
	if f[0] != "TCP4" && f[0] != "TCP6" {
		add("v1-unknown-proto-token")
	}
	if len(f) < 5 {
		add("v1-missing-field")
	}
	if len(f) > 5 {
		add("v1-extra-field-or-space")
	}
	var src, dst netip.Addr
	addr := func(i int) netip.Addr {
		if i >= len(f) {
			return netip.Addr{}
		}
		if f[0] == "TCP4" {
			a, ok := strictIPv4(f[i])
			if !ok {
				add("v1-bad-ipv4")
			}
			return a
		}
		a, ok, am := strictIPv6(f[i])
		if !ok {
			if am {
				amb = true
			} else {
				add("v1-bad-ipv6")
			}
		}
		return a
	}
	src, dst = addr(1), addr(2)
	var sp, dp uint16
	port := func(i int) uint16 {
		if i >= len(f) {
			return 0
		}
		p, ok := strictPort(f[i])
		if !ok {
			add("v1-bad-port")
		}
		return p
	}
	sp, dp = port(3), port(4)
	if len(reasons) > 0 {
		return Verdict{Duty: Malformed, Class: "v1", Reason: reasons[0], Reasons: reasons}
	}
	if amb {
		return Verdict{Duty: Ambiguous, Class: "v1-tcp6", Reason: "embedded-ipv4-notation"}
	}
	cl := "v1-" + strings.ToLower(f[0])
	if f[0] == "TCP6" && (src.Is4In6() || dst.Is4In6()) {
		cl = "v1-tcp6-v4mapped"
	}
	return Verdict{Duty: Advertised, Class: cl, HdrLen: hdrLen, HasAddr: true,
		Src: netip.AddrPortFrom(src, sp), Dst: netip.AddrPortFrom(dst, dp)}
}

func classifyV2(stream []byte) Verdict {
	bad := func(r string) Verdict { return Verdict{Duty: Malformed, Class: "v2", Reason: r, Reasons: []string{r}} }
	if len(stream) < 16 {
		if len(stream) >= 13 && stream[12] == 0x20 {
			return bad("v2-local-truncated-fixed-part")
		}
		return bad("v2-truncated-fixed-part")
	}
	vc, fp := stream[12], stream[13]
	if vc>>4 != 2 {
		return bad("v2-bad-version")
	}
	if vc&0xf > 1 {
		return bad("v2-bad-command")
	}
	fam, prot := fp>>4, fp&0xf
	ln := int(binary.BigEndian.Uint16(stream[14:16]))
	if vc&0xf == 0 {
		// LOCAL: "discard the protocol block including the family which is ignored"
		if len(stream) < 16+ln {
			return bad("v2-local-truncated-body")
		}
		return Verdict{Duty: Real, Class: "v2-local", HdrLen: 16 + ln}
	}
	if fam > 3 {
		return bad("v2-bad-family")
	}
	if prot > 2 {
		return bad("v2-bad-transport")
	}
	if len(stream) < 16+ln {
		return bad("v2-truncated-body")
	}
	body := stream[16 : 16+ln]
	hdrLen := 16 + ln
	need := map[byte]int{AFUnspec: 0, AFInet: 12, AFInet6: 36, AFUnix: 216}[fam]
	if ln < need {
		return bad("v2-length-shorter-than-address-block")
	}
	v := Verdict{HdrLen: hdrLen}
	famName := [...]string{"unspec", "inet", "inet6", "unix"}[fam]
	protName := [...]string{"unspec", "stream", "dgram"}[prot]
	switch fam {
	case AFInet:
		s, _ := netip.AddrFromSlice(body[0:4])
		d, _ := netip.AddrFromSlice(body[4:8])
		v.Src = netip.AddrPortFrom(s, binary.BigEndian.Uint16(body[8:10]))
		v.Dst = netip.AddrPortFrom(d, binary.BigEndian.Uint16(body[10:12]))
		v.HasAddr = true
	case AFInet6:
		s, _ := netip.AddrFromSlice(body[0:16])
		d, _ := netip.AddrFromSlice(body[16:32])
		v.Src = netip.AddrPortFrom(s, binary.BigEndian.Uint16(body[32:34]))
		v.Dst = netip.AddrPortFrom(d, binary.BigEndian.Uint16(body[34:36]))
		v.HasAddr = true
	}
	tlv := ""
	if ln > need {
		tlv = "-tlv"
		if fam != AFUnspec {
			// the bytes after the address block are TLVs; a broken TLV chain is not settled for a receiver that ignores TLVs
			t := body[need:]
			for len(t) > 0 {
				if len(t) < 3 || len(t) < 3+int(binary.BigEndian.Uint16(t[1:3])) {
					return Verdict{Duty: Ambiguous, Class: "v2-proxy-" + famName, Reason: "tlv-chain-broken"}
				}
				t = t[3+int(binary.BigEndian.Uint16(t[1:3])):]
			}
		}
	}
	v.Class = "v2-proxy-" + famName + "-" + protName + tlv
	if (fam == AFInet || fam == AFInet6) && prot == TPStream {
		v.Duty = Advertised
		if fam == AFInet6 && (v.Src.Addr().Is4In6() || v.Dst.Addr().Is4In6()) {
			v.Class = "v2-proxy-inet6-v4mapped-" + protName + tlv
		}
		return v
	}
	v.Duty = Fallback
	v.Class = "v2-proxy-unsupported-combination"
	return v
}

// TCPAddr converts for comparison with net.Addr values.
func TCPAddr(ap netip.AddrPort) *net.TCPAddr {
	return &net.TCPAddr{IP: net.IP(ap.Addr().AsSlice()), Port: int(ap.Port())}
}
