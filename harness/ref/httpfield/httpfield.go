// Package httpfield is the strict RFC 7230 section 3.2 header-field grammar shared by
// the reference HTTP/1 message parser (ref/http1) and the reference chunked
// decoder's trailer-part (ref/chunked). Standard library only; written from the
// RFC text, not from any implementation.
//
//	header-field   = field-name ":" OWS field-value OWS
//	field-name     = token
//	field-value    = *( field-content / obs-fold )
//	field-content  = field-vchar [ 1*( SP / HTAB ) field-vchar ]
//	field-vchar    = VCHAR / obs-text
//	obs-fold       = CRLF 1*( SP / HTAB )
//	token          = 1*tchar
//
// A field section is `*( header-field CRLF ) CRLF`.
package httpfield

import "fmt"

// Reject classes (the Class of an *Error).
const (
	Truncated         = "truncated"          // input ends inside the section (more bytes needed)
	BareLF            = "bare-lf"            // LF not preceded by CR
	BareCR            = "bare-cr"            // CR not followed by LF
	WSBeforeColon     = "ws-before-colon"    // SP / HTAB between field-name and ':'
	InvalidNameByte   = "invalid-name-byte"  // a non-tchar byte in the field-name
	EmptyName         = "empty-name"         // line starts with ':'
	NoColon           = "no-colon"           // field line without ':'
	ObsFold           = "obs-fold"           // continuation line (after at least one field line)
	LeadingWhitespace = "leading-whitespace" // first line of the section starts with SP / HTAB
	InvalidValueByte  = "invalid-value-byte" // CTL other than HTAB (incl. NUL, DEL) in the value
)

// Error is a rejection by the strict grammar.
type Error struct {
	Class  string // one of the constants above
	Offset int    // offset in the input of the first offending byte (or len(input) when truncated)
	Msg    string
}

func (e *Error) Error() string { return fmt.Sprintf("%s at %d: %s", e.Class, e.Offset, e.Msg) }

// Field is one header field as received.
type Field struct {
	Name  string // raw field-name bytes, case preserved
	Value string // field-value with surrounding OWS removed; folds (if tolerated) replaced by one SP
	Start int    // offset of the first byte of the field line
	End   int    // offset just after the line terminator of the (last line of the) field
}

// Tolerate selects deviations that the parser accepts instead of rejecting. The
// zero value is the strict grammar. Each tolerance has exactly one reading,
// taken from RFC 7230 where the RFC sanctions one:
type Tolerate struct {
	// BareLF: a lone LF terminates a line (RFC 7230 section 3.5 "MAY recognize a single LF
	// as a line terminator and ignore any preceding CR").
	BareLF bool
	// ObsFold: continuation lines are joined to the previous field value with one
	// SP (RFC 7230 section 3.2.4, "replace each received obs-fold with one or more SP").
	ObsFold bool
	// LeadingWhitespace: whitespace-preceded lines before the first field are
	// consumed without further processing (RFC 7230 section 3, second alternative).
	LeadingWhitespace bool
	// ValueBytes: any byte except LF is taken as part of the value (no RFC
	// sanction; the reading is "the bytes are data of that value").
	ValueBytes bool
	// EmptyName: a line starting with ':' is kept as a field with the name ""
	// (no RFC sanction; the reading is "the line is a field").
	EmptyName bool
}

// IsTChar reports whether c is an RFC 7230 tchar.
func IsTChar(c byte) bool {
	switch {
	case c >= '0' && c <= '9', c >= 'a' && c <= 'z', c >= 'A' && c <= 'Z':
		return true
	}
	switch c {
	case '!', '#', '$', '%', '&', '\'', '*', '+', '-', '.', '^', '_', '`', '|', '~':
		return true
	}
	return false
}

// IsToken reports whether s is a non-empty token.
func IsToken(s string) bool {
	if s == "" {
		return false
	}
	for i := 0; i < len(s); i++ {
		if !IsTChar(s[i]) {
			return false
		}
	}
	return true
}

// ReadLine finds the line starting at b[off]. It returns the offset of the end
// of the line content (excluding the terminator) and the offset after the
// terminator. Strict: the terminator is CRLF; a lone LF is BareLF, a CR not
// followed by LF is BareCR (unless valueBytes, in which case a lone CR is
// content). With bareLF a lone LF terminates the line too.
func ReadLine(b []byte, off int, bareLF, loneCROK bool) (contentEnd, next int, err *Error) {
	for i := off; i < len(b); i++ {
		switch b[i] {
		case '\n':
			if !bareLF {
				return 0, 0, &Error{BareLF, i, "LF not preceded by CR"}
			}
			return i, i + 1, nil
		case '\r':
			if i+1 >= len(b) {
				return 0, 0, &Error{Truncated, len(b), "input ends after CR"}
			}
			if b[i+1] == '\n' {
				return i, i + 2, nil
			}
			if !loneCROK {
				return 0, 0, &Error{BareCR, i, "CR not followed by LF"}
			}
		}
	}
	return 0, 0, &Error{Truncated, len(b), "input ends inside a line"}
}

func isWS(c byte) bool { return c == ' ' || c == '\t' }

// ParseSection parses `*( header-field CRLF ) CRLF` starting at b[off] and
// returns the fields in order and the offset just after the terminating empty
// line.
//
// Classification order for one field: problems of the field-name on the first
// line (in byte order), then obs-fold if a continuation line follows, then the
// value. A first line without ':' that is followed by a continuation line is
// classed obs-fold (the fold is what a tolerant reader would use to find a
// colon later); with ObsFold tolerated the continuation lines are joined first
// and the joined line is parsed.
func ParseSection(b []byte, off int, tol Tolerate) (fields []Field, next int, err *Error) {
	pos := off
	for {
		ce, nx, e := ReadLine(b, pos, tol.BareLF, tol.ValueBytes)
		if e != nil {
			return fields, pos, e
		}
		line := b[pos:ce]
		if len(line) == 0 {
			return fields, nx, nil
		}
		if isWS(line[0]) {
			// only reachable before the first field: continuation lines of a field
			// are consumed together with it below
			if len(fields) > 0 {
				return fields, pos, &Error{ObsFold, pos, "obs-fold continuation line"}
			}
			if !tol.LeadingWhitespace {
				return fields, pos, &Error{LeadingWhitespace, pos, "whitespace-preceded line before the first header field"}
			}
			pos = nx
			continue
		}
		// look ahead for continuation lines
		start := pos
		logical := line
		end := nx
		joined := false
		for {
			if end >= len(b) {
				// cannot know yet whether the field is continued
				return fields, pos, &Error{Truncated, len(b), "input ends after a field line"}
			}
			if !isWS(b[end]) {
				break
			}
			// the next line is a continuation of this field
			if !tol.ObsFold {
				// name problems of the first line come first in byte order
				if e := checkName(line, pos, tol); e != nil && e.Class != NoColon {
					return fields, pos, e
				}
				return fields, pos, &Error{ObsFold, end, "obs-fold continuation line"}
			}
			ce2, nx2, e2 := ReadLine(b, end, tol.BareLF, tol.ValueBytes)
			if e2 != nil {
				return fields, pos, e2
			}
			if !joined {
				logical = append([]byte{}, trimRightOWS(line)...)
				joined = true
			}
			logical = append(logical, ' ')
			logical = append(logical, trimOWS(b[end:ce2])...)
			end = nx2
		}
		if e := checkName(logical, pos, tol); e != nil {
			return fields, pos, e
		}
		colon := 0
		for logical[colon] != ':' {
			colon++
		}
		val := trimOWS(logical[colon+1:])
		if e := checkValue(val, pos+colon+1, tol); e != nil {
			return fields, pos, e
		}
		fields = append(fields, Field{Name: string(logical[:colon]), Value: string(val), Start: start, End: end})
		pos = end
	}
}

// checkName validates the part of a (logical) field line up to the colon.
func checkName(line []byte, pos int, tol Tolerate) *Error {
	colon := -1
	for i, c := range line {
		if c == ':' {
			colon = i
			break
		}
	}
	if colon < 0 {
		return &Error{NoColon, pos, fmt.Sprintf("field line without colon: %q", clip(line))}
	}
	name := line[:colon]
	if len(name) == 0 {
		if !tol.EmptyName {
			return &Error{EmptyName, pos, "empty field-name"}
		}
		return nil
	}
	// whitespace run directly before the colon?
	j := len(name)
	for j > 0 && isWS(name[j-1]) {
		j--
	}
	for i := 0; i < j; i++ {
		if !IsTChar(name[i]) {
			return &Error{InvalidNameByte, pos + i, fmt.Sprintf("byte 0x%02x in field-name %q", name[i], clip(name))}
		}
	}
	if j < len(name) {
		return &Error{WSBeforeColon, pos + j, fmt.Sprintf("whitespace between field-name %q and colon", clip(name[:j]))}
	}
	return nil
}

func trimRightOWS(v []byte) []byte {
	for len(v) > 0 && isWS(v[len(v)-1]) {
		v = v[:len(v)-1]
	}
	return v
}

func checkValue(v []byte, base int, tol Tolerate) *Error {
	if tol.ValueBytes {
		return nil
	}
	for i, c := range v {
		if c == '\t' || c == ' ' || c >= 0x21 && c <= 0x7e || c >= 0x80 {
			continue
		}
		return &Error{InvalidValueByte, base + i, fmt.Sprintf("byte 0x%02x in field-value", c)}
	}
	return nil
}

func trimOWS(v []byte) []byte {
	for len(v) > 0 && isWS(v[0]) {
		v = v[1:]
	}
	for len(v) > 0 && isWS(v[len(v)-1]) {
		v = v[:len(v)-1]
	}
	return v
}

func clip(b []byte) []byte {
	if len(b) > 60 {
		return b[:60]
	}
	return b
}
