package http1

import (
	"testing"

	"verifharness/ref/chunked"
)

func TestSelf(t *testing.T) {
	if err := chunked.SelfTest(); err != nil {
		t.Fatal(err)
	}
	if err := SelfTest(); err != nil {
		t.Fatal(err)
	}
}
