// Package http1 is a strict reference parser for HTTP/1.x messages on a byte
// stream, written from RFC 7230 (sections 3, 3.2, 3.3, 4.1, 5.4). It uses only the standard
// library and the sibling packages ref/httpfield and ref/chunked; it shares no
// code with bfe and does not use net/http's parser.
//
// # API
//
//	req,  n, err := http1.ParseRequest(b)                       // strict
//	req,  n, err := http1.ParseRequestOpts(b, opts)             // with named tolerances
//	resp, n, err := http1.ParseResponse(b, reqMethod, reqMinor) // strict
//	resp, n, err := http1.ParseResponseOpts(b, reqMethod, reqMinor, opts)
//
// b is everything received so far starting at the first byte of the message;
// n is the number of bytes the message occupies (the next message starts at
// b[n]). err is nil on acceptance; err.Incomplete means "b is a proper prefix:
// more bytes are needed" rather than "malformed". err.Class names the first
// deviation from the grammar met in a fixed left-to-right order (start-line,
// field lines, then framing rules in the order Transfer-Encoding, Content-Length,
// TE+CL, TE on HTTP/1.0, Host, then the body).
//
// What "strict" means: request-line / status-line exactly as in the ABNF with
// single SP separators; HTTP-version "HTTP/" DIGIT "." DIGIT with major 1;
// token field-names, no whitespace before ':', obs-fold rejected, no CTL in
// values, CRLF line ends only; Content-Length = 1*DIGIT, one value; the only
// supported Transfer-Encoding is a single "chunked" (case-insensitive), only on
// HTTP/1.1 or later, never together with Content-Length; exactly one Host on an
// HTTP/1.1 request; chunked bodies per ref/chunked.
//
// The request-target is only checked to be 1*( %x21-7E ); URI syntax is not
// validated.
package http1

import (
	"fmt"
	"strings"

	"verifharness/ref/chunked"
	"verifharness/ref/httpfield"
)

// Framing says how the end of the message body was determined.
type Framing int

const (
	FramingNone          Framing = iota // no body (no CL/TE on a request; HEAD/1xx/204/304 response)
	FramingContentLength                // Content-Length bytes
	FramingChunked                      // chunked transfer coding
	FramingClose                        // response body delimited by connection close (all remaining bytes)
	FramingTunnel                       // 2xx response to CONNECT: the connection becomes a tunnel
)

func (f Framing) String() string {
	return [...]string{"none", "content-length", "chunked", "close", "tunnel"}[f]
}

// Field is a header field (see httpfield.Field; offsets are relative to b).
type Field = httpfield.Field

// Reject classes produced by this package (header classes are
// "header:"+httpfield class; chunked body classes are "body:"+chunked class).
const (
	Truncated            = "truncated"
	LeadingEmptyLine     = "start-line:leading-empty-line"
	RequestLineMalformed = "request-line:malformed" // not three SP-separated parts
	RequestLineMethod    = "request-line:invalid-method"
	RequestLineTarget    = "request-line:invalid-target"
	RequestLineVersion   = "request-line:invalid-version"
	VersionUnsupported   = "start-line:version-unsupported" // well-formed but major != 1
	StatusLineMalformed  = "status-line:malformed"
	StatusLineVersion    = "status-line:invalid-version"
	StatusLineCode       = "status-line:invalid-status-code"
	StatusLineReason     = "status-line:invalid-reason-phrase"
	HeaderPrefix         = "header:"
	BodyPrefix           = "body:"
	CLInvalid            = "cl:invalid"         // not 1*DIGIT (sign, spaces inside, hex, empty, list with an invalid member)
	CLTooLarge           = "cl:too-large"       // 1*DIGIT but > 2^63-1
	CLConflicting        = "cl:conflicting"     // several differing values (lines or list members)
	CLDuplicateEqual     = "cl:duplicate-equal" // several identical values (RFC 7230 3.3.2: reject or collapse)
	TEMultipleLines      = "te:multiple-lines"  // more than one Transfer-Encoding line and the combined list is not exactly "chunked"
	TEChunkedRepeated    = "te:chunked-repeated"
	TENotFinalChunked    = "te:not-final-chunked" // chunked present but not the final coding ("chunked, identity")
	TENoChunked          = "te:no-chunked"        // codings without chunked ("identity", "gzip", unknown)
	TEUnsupportedCoding  = "te:unsupported-coding"
	TEInvalidSyntax      = "te:invalid-syntax" // a list member is not a token (or carries parameters), or the list is empty
	TEWithCL             = "te+cl"
	TEOnHTTP10           = "te:http10"
	HostMissing          = "host:missing"
	HostMultiple         = "host:multiple"
	BodyTruncated        = "body:truncated"
	maxContentLength     = int64(^uint64(0) >> 1)
)

// RejectError is a rejection by the reference parser.
type RejectError struct {
	Class      string
	Offset     int    // offset in b of the first offending byte (or len(b) when incomplete)
	Msg        string // human-readable detail
	Incomplete bool   // b is a proper prefix of a possibly valid message
}

func (e *RejectError) Error() string {
	return fmt.Sprintf("%s at %d: %s", e.Class, e.Offset, e.Msg)
}

// Options are named tolerances. The zero value is the strict parser. Every
// tolerance selects one fixed reading of the deviating input.
type Options struct {
	// Field tolerances for header lines; Field.BareLF also applies to the
	// start-line.
	Field httpfield.Tolerate
	// StartLineBytes: method and target are whatever lies between the first two
	// SP of the line (any bytes, possibly empty); the version is not validated
	// (treated as HTTP/1.1 for framing when it is not "HTTP/" DIGIT "." DIGIT).
	StartLineBytes bool
	// VersionAny accepts any well-formed HTTP-version major ("HTTP/2.0").
	VersionAny bool
	// SkipLeadingCRLF ignores empty lines before the start-line (RFC 7230 3.5).
	SkipLeadingCRLF bool
	// TEOverridesCL: with both present Transfer-Encoding wins and Content-Length
	// is ignored, unvalidated (RFC 7230 3.3.3 rule 3).
	TEOverridesCL bool
	// TEOnHTTP10: a Transfer-Encoding in an HTTP/1.0 message is honoured.
	TEOnHTTP10 bool
	// CLDuplicateEqual collapses identical repeated Content-Length values (RFC
	// 7230 3.3.2).
	CLDuplicateEqual bool
	// HostCount does not check the number of Host fields.
	HostCount bool
	// Chunked are tolerances of the chunked body decoder.
	Chunked chunked.Options
}

// Request is an accepted request.
type Request struct {
	Method, Target, Version string
	Major, Minor            int
	Fields                  []Field // in order received
	Framing                 Framing // none, content-length or chunked
	ContentLength           int64   // valid for FramingContentLength
	Body                    []byte  // decoded body bytes
	Trailers                []Field // chunked trailer-part
	Chunks                  []chunked.Chunk
	HeadLen                 int // bytes up to and including the empty line
}

// Response is an accepted response.
type Response struct {
	Version        string
	Major, Minor   int
	Status         int
	Reason         string
	Fields         []Field
	Framing        Framing
	ContentLength  int64
	Body           []byte
	CloseDelimited bool // Framing == FramingClose: Body is everything that followed the head
	Trailers       []Field
	Chunks         []chunked.Chunk
	HeadLen        int
}

// Names returns the field names in order.
func Names(fs []Field) []string {
	out := make([]string, len(fs))
	for i, f := range fs {
		out[i] = f.Name
	}
	return out
}

// Get returns the values of all fields with the given name (case-insensitive).
func Get(fs []Field, name string) []string {
	var out []string
	for _, f := range fs {
		if asciiEqualFold(f.Name, name) {
			out = append(out, f.Value)
		}
	}
	return out
}

// ParseRequest parses one request at the start of b, strictly.
func ParseRequest(b []byte) (*Request, int, *RejectError) { return ParseRequestOpts(b, Options{}) }

// ParseResponse parses one response at the start of b, strictly. reqMethod is
// the method of the request it answers ("" if unknown) and reqProtoMinor that
// request's HTTP/1.x minor version.
func ParseResponse(b []byte, reqMethod string, reqProtoMinor int) (*Response, int, *RejectError) {
	return ParseResponseOpts(b, reqMethod, reqProtoMinor, Options{})
}

func fieldErr(e *httpfield.Error, b []byte) *RejectError {
	if e.Class == httpfield.Truncated {
		return &RejectError{Truncated, len(b), e.Msg, true}
	}
	return &RejectError{HeaderPrefix + e.Class, e.Offset, e.Msg, false}
}

// startLine returns the content of the first line and the offset after it.
func startLine(b []byte, o Options) (line []byte, start, next int, err *RejectError) {
	pos := 0
	for {
		ce, nx, e := httpfield.ReadLine(b, pos, o.Field.BareLF, true)
		if e != nil {
			if e.Class == httpfield.Truncated {
				return nil, pos, 0, &RejectError{Truncated, len(b), e.Msg, true}
			}
			return nil, pos, 0, &RejectError{"start-line:" + e.Class, e.Offset, e.Msg, false}
		}
		if ce == pos {
			if !o.SkipLeadingCRLF {
				return nil, pos, 0, &RejectError{LeadingEmptyLine, pos, "empty line before the start-line", false}
			}
			pos = nx
			continue
		}
		return b[pos:ce], pos, nx, nil
	}
}

// parseVersion parses "HTTP/" DIGIT "." DIGIT.
func parseVersion(v string) (major, minor int, ok bool) {
	if len(v) != 8 || v[:5] != "HTTP/" || v[6] != '.' {
		return 0, 0, false
	}
	if v[5] < '0' || v[5] > '9' || v[7] < '0' || v[7] > '9' {
		return 0, 0, false
	}
	return int(v[5] - '0'), int(v[7] - '0'), true
}

// ParseRequestOpts is ParseRequest with tolerances.
func ParseRequestOpts(b []byte, o Options) (*Request, int, *RejectError) {
	line, lstart, pos, err := startLine(b, o)
	if err != nil {
		return nil, 0, err
	}
	s := string(line)
	s1 := strings.IndexByte(s, ' ')
	if s1 < 0 {
		return nil, 0, &RejectError{RequestLineMalformed, lstart, fmt.Sprintf("no SP in request-line %q", clip(s)), false}
	}
	s2 := strings.IndexByte(s[s1+1:], ' ')
	if s2 < 0 {
		return nil, 0, &RejectError{RequestLineMalformed, lstart, fmt.Sprintf("only one SP in request-line %q", clip(s)), false}
	}
	s2 += s1 + 1
	req := &Request{Method: s[:s1], Target: s[s1+1 : s2], Version: s[s2+1:]}
	var vok bool
	req.Major, req.Minor, vok = parseVersion(req.Version)
	if !o.StartLineBytes {
		if !httpfield.IsToken(req.Method) {
			return nil, 0, &RejectError{RequestLineMethod, lstart, fmt.Sprintf("method %q is not a token", clip(req.Method)), false}
		}
		if req.Target == "" {
			return nil, 0, &RejectError{RequestLineTarget, lstart + s1 + 1, "empty request-target", false}
		}
		for i := 0; i < len(req.Target); i++ {
			if c := req.Target[i]; c < 0x21 || c > 0x7e {
				return nil, 0, &RejectError{RequestLineTarget, lstart + s1 + 1 + i, fmt.Sprintf("byte 0x%02x in request-target", c), false}
			}
		}
		if !vok {
			return nil, 0, &RejectError{RequestLineVersion, lstart + s2 + 1, fmt.Sprintf("HTTP-version %q", clip(req.Version)), false}
		}
	}
	if !vok {
		req.Major, req.Minor = 1, 1
	} else if req.Major != 1 && !o.VersionAny && !o.StartLineBytes {
		return nil, 0, &RejectError{VersionUnsupported, lstart + s2 + 1, fmt.Sprintf("HTTP-version %q is not HTTP/1.x", req.Version), false}
	}
	fields, next, fe := httpfield.ParseSection(b, pos, o.Field)
	if fe != nil {
		return nil, 0, fieldErr(fe, b)
	}
	req.Fields = fields
	req.HeadLen = next
	atLeast11 := req.Major > 1 || req.Major == 1 && req.Minor >= 1

	fr, cl, rej := framing(fields, atLeast11, o)
	if rej != nil {
		return nil, 0, rej
	}
	if atLeast11 && !o.HostCount {
		switch n := len(Get(fields, "Host")); {
		case n == 0:
			return nil, 0, &RejectError{HostMissing, pos, "HTTP/1.1 request without Host", false}
		case n > 1:
			return nil, 0, &RejectError{HostMultiple, pos, "more than one Host field", false}
		}
	}
	req.Framing, req.ContentLength = fr, cl
	switch fr {
	case FramingNone:
		return req, next, nil
	case FramingContentLength:
		if int64(len(b)-next) < cl {
			return nil, 0, &RejectError{BodyTruncated, len(b), fmt.Sprintf("body has %d of %d bytes", len(b)-next, cl), true}
		}
		req.Body = b[next : next+int(cl)]
		return req, next + int(cl), nil
	default: // chunked
		res, ce := chunked.DecodeOpts(b[next:], o.Chunked)
		if ce != nil {
			if ce.Incomplete() {
				return nil, 0, &RejectError{BodyTruncated, len(b), ce.Msg, true}
			}
			return nil, 0, &RejectError{BodyPrefix + ce.Class, next + ce.Offset, ce.Msg, false}
		}
		req.Body, req.Trailers, req.Chunks = res.Data, shift(res.Trailers, next), res.Chunks
		return req, next + res.Consumed, nil
	}
}

func shift(fs []Field, d int) []Field {
	for i := range fs {
		fs[i].Start += d
		fs[i].End += d
	}
	return fs
}

func isWS(c byte) bool { return c == ' ' || c == '\t' }

func trimOWS(s string) string {
	for len(s) > 0 && isWS(s[0]) {
		s = s[1:]
	}
	for len(s) > 0 && isWS(s[len(s)-1]) {
		s = s[:len(s)-1]
	}
	return s
}

// parseCL parses 1*DIGIT.
func parseCL(v string) (n int64, class string) {
	if v == "" {
		return 0, CLInvalid
	}
	for i := 0; i < len(v); i++ {
		c := v[i]
		if c < '0' || c > '9' {
			return 0, CLInvalid
		}
		d := int64(c - '0')
		if n > (maxContentLength-d)/10 {
			// keep scanning for syntax; report too-large only for pure digits
			for j := i; j < len(v); j++ {
				if v[j] < '0' || v[j] > '9' {
					return 0, CLInvalid
				}
			}
			return 0, CLTooLarge
		}
		n = n*10 + d
	}
	return n, ""
}

// framing applies RFC 7230 3.3.3 to the field section of a message that may
// carry a body. It returns FramingNone when neither TE nor CL is present.
func framing(fields []Field, atLeast11 bool, o Options) (Framing, int64, *RejectError) {
	var teF, clF []Field
	for _, f := range fields {
		switch {
		case asciiEqualFold(f.Name, "Transfer-Encoding"):
			teF = append(teF, f)
		case asciiEqualFold(f.Name, "Content-Length"):
			clF = append(clF, f)
		}
	}
	if len(teF) > 0 {
		var list []string
		for _, f := range teF {
			for _, m := range strings.Split(f.Value, ",") {
				m = trimOWS(m)
				if m != "" { // empty list elements are ignored (RFC 7230 section 7)
					list = append(list, m)
				}
			}
		}
		off := teF[0].Start
		single := len(list) == 1 && asciiEqualFold(list[0], "chunked")
		if !single {
			if len(teF) > 1 {
				return 0, 0, &RejectError{TEMultipleLines, teF[1].Start, fmt.Sprintf("%d Transfer-Encoding lines, combined list %q", len(teF), list), false}
			}
			if len(list) == 0 {
				return 0, 0, &RejectError{TEInvalidSyntax, off, "empty Transfer-Encoding", false}
			}
			nch := 0
			for _, m := range list {
				if !httpfield.IsToken(m) {
					return 0, 0, &RejectError{TEInvalidSyntax, off, fmt.Sprintf("transfer-coding %q is not a plain token", m), false}
				}
				if asciiEqualFold(m, "chunked") {
					nch++
				}
			}
			last := asciiEqualFold(list[len(list)-1], "chunked")
			switch {
			case nch >= 2:
				return 0, 0, &RejectError{TEChunkedRepeated, off, fmt.Sprintf("chunked applied %d times: %q", nch, list), false}
			case nch == 1 && !last:
				return 0, 0, &RejectError{TENotFinalChunked, off, fmt.Sprintf("chunked is not the final coding: %q", list), false}
			case nch == 0:
				return 0, 0, &RejectError{TENoChunked, off, fmt.Sprintf("Transfer-Encoding without chunked: %q", list), false}
			default:
				return 0, 0, &RejectError{TEUnsupportedCoding, off, fmt.Sprintf("unsupported transfer-coding before chunked: %q", list), false}
			}
		}
		if len(clF) > 0 && !o.TEOverridesCL {
			return 0, 0, &RejectError{TEWithCL, clF[0].Start, "both Transfer-Encoding and Content-Length", false}
		}
		if !atLeast11 && !o.TEOnHTTP10 {
			return 0, 0, &RejectError{TEOnHTTP10, off, "Transfer-Encoding in an HTTP/1.0 message", false}
		}
		return FramingChunked, 0, nil
	}
	if len(clF) == 0 {
		return FramingNone, 0, nil
	}
	// All list members of all Content-Length lines. Differing members (as numbers
	// when all are valid, as text otherwise) are "conflicting"; an invalid value
	// that is not in conflict with another member is "invalid".
	var vals []int64
	var texts []string
	badClass, badAt := "", 0
	for _, f := range clF {
		for _, m := range strings.Split(f.Value, ",") {
			m = trimOWS(m)
			n, class := parseCL(m)
			if class != "" && badClass == "" {
				badClass, badAt = class, f.Start
			}
			vals = append(vals, n)
			texts = append(texts, m)
		}
	}
	if badClass != "" {
		for _, t := range texts[1:] {
			if t != texts[0] {
				return 0, 0, &RejectError{CLConflicting, clF[0].Start, fmt.Sprintf("conflicting Content-Length values %q", texts), false}
			}
		}
		return 0, 0, &RejectError{badClass, badAt, fmt.Sprintf("Content-Length value %q", texts[0]), false}
	}
	for _, v := range vals[1:] {
		if v != vals[0] {
			return 0, 0, &RejectError{CLConflicting, clF[0].Start, fmt.Sprintf("conflicting Content-Length values %v", vals), false}
		}
	}
	if len(vals) > 1 && !o.CLDuplicateEqual {
		return 0, 0, &RejectError{CLDuplicateEqual, clF[0].Start, fmt.Sprintf("Content-Length repeated %d times with the same value %d", len(vals), vals[0]), false}
	}
	return FramingContentLength, vals[0], nil
}

func clip(s string) string {
	if len(s) > 80 {
		return s[:80]
	}
	return s
}

// ParseResponseOpts is ParseResponse with tolerances.
func ParseResponseOpts(b []byte, reqMethod string, reqProtoMinor int, o Options) (*Response, int, *RejectError) {
	line, lstart, pos, err := startLine(b, o)
	if err != nil {
		return nil, 0, err
	}
	s := string(line)
	// status-line = HTTP-version SP status-code SP reason-phrase
	s1 := strings.IndexByte(s, ' ')
	if s1 < 0 {
		return nil, 0, &RejectError{StatusLineMalformed, lstart, fmt.Sprintf("no SP in status-line %q", clip(s)), false}
	}
	resp := &Response{Version: s[:s1]}
	var vok bool
	resp.Major, resp.Minor, vok = parseVersion(resp.Version)
	if !vok {
		return nil, 0, &RejectError{StatusLineVersion, lstart, fmt.Sprintf("HTTP-version %q", clip(resp.Version)), false}
	}
	if resp.Major != 1 && !o.VersionAny {
		return nil, 0, &RejectError{VersionUnsupported, lstart, fmt.Sprintf("HTTP-version %q is not HTTP/1.x", resp.Version), false}
	}
	rest := s[s1+1:]
	if len(rest) < 4 || rest[3] != ' ' {
		// "HTTP/1.1 200" without the SP before an (empty) reason-phrase is not in the grammar
		return nil, 0, &RejectError{StatusLineMalformed, lstart + s1 + 1, fmt.Sprintf("status-line %q lacks 3DIGIT SP", clip(s)), false}
	}
	for i := 0; i < 3; i++ {
		if rest[i] < '0' || rest[i] > '9' {
			return nil, 0, &RejectError{StatusLineCode, lstart + s1 + 1, fmt.Sprintf("status-code %q", rest[:3]), false}
		}
	}
	resp.Status = int(rest[0]-'0')*100 + int(rest[1]-'0')*10 + int(rest[2]-'0')
	resp.Reason = rest[4:]
	for i := 0; i < len(resp.Reason); i++ {
		c := resp.Reason[i]
		if !(c == '\t' || c == ' ' || c >= 0x21 && c <= 0x7e || c >= 0x80) {
			return nil, 0, &RejectError{StatusLineReason, lstart + s1 + 5 + i, fmt.Sprintf("byte 0x%02x in reason-phrase", c), false}
		}
	}
	fields, next, fe := httpfield.ParseSection(b, pos, o.Field)
	if fe != nil {
		return nil, 0, fieldErr(fe, b)
	}
	resp.Fields = fields
	resp.HeadLen = next
	// TE is only legal towards an HTTP/1.1 peer and in an HTTP/1.1 message.
	atLeast11 := (resp.Major > 1 || resp.Minor >= 1) && reqProtoMinor >= 1
	fr, cl, rej := framing(fields, atLeast11, o)
	if rej != nil {
		return nil, 0, rej
	}
	switch {
	case asciiEqualFold(reqMethod, "HEAD"), resp.Status/100 == 1, resp.Status == 204, resp.Status == 304:
		resp.Framing = FramingNone
		if fr == FramingContentLength {
			resp.ContentLength = cl // metadata only
		}
		return resp, next, nil
	case asciiEqualFold(reqMethod, "CONNECT") && resp.Status/100 == 2:
		resp.Framing = FramingTunnel
		return resp, next, nil
	}
	resp.Framing, resp.ContentLength = fr, cl
	switch fr {
	case FramingContentLength:
		if int64(len(b)-next) < cl {
			return nil, 0, &RejectError{BodyTruncated, len(b), fmt.Sprintf("body has %d of %d bytes", len(b)-next, cl), true}
		}
		resp.Body = b[next : next+int(cl)]
		return resp, next + int(cl), nil
	case FramingChunked:
		res, ce := chunked.DecodeOpts(b[next:], o.Chunked)
		if ce != nil {
			if ce.Incomplete() {
				return nil, 0, &RejectError{BodyTruncated, len(b), ce.Msg, true}
			}
			return nil, 0, &RejectError{BodyPrefix + ce.Class, next + ce.Offset, ce.Msg, false}
		}
		resp.Body, resp.Trailers, resp.Chunks = res.Data, shift(res.Trailers, next), res.Chunks
		return resp, next + res.Consumed, nil
	default:
		resp.Framing = FramingClose
		resp.CloseDelimited = true
		resp.Body = b[next:]
		return resp, len(b), nil
	}
}

// asciiEqualFold is case-insensitive equality over ASCII letters only. Unicode
// simple folding (strings.EqualFold) would equate U+212A KELVIN SIGN with 'k'
// and U+017F LONG S with 's', which are not ASCII token characters.
func asciiEqualFold(a, b string) bool {
	if len(a) != len(b) {
		return false
	}
	for i := 0; i < len(a); i++ {
		x, y := a[i], b[i]
		if 'A' <= x && x <= 'Z' {
			x += 'a' - 'A'
		}
		if 'A' <= y && y <= 'Z' {
			y += 'a' - 'A'
		}
		if x != y {
			return false
		}
	}
	return true
}
