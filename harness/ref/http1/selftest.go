package http1

import (
	"fmt"
	"strings"

	"verifharness/ref/httpfield"
)

// SelfTest checks the parser on hand-derived cases from RFC 7230. A failure
// means the reference itself is broken and no verdict may be based on it.
func SelfTest() error {
	type rc struct {
		in       string
		class    string // "" = accept
		inc      bool
		consumed int // -1 = len(in)
		method   string
		target   string
		names    string // comma-joined
		framing  Framing
		body     string
	}
	h := "Host: a\r\n"
	reqs := []rc{
		// RFC 7230 section 2.1 example
		{"GET /hello.txt HTTP/1.1\r\nUser-Agent: curl/7.16.3 libcurl/7.16.3 OpenSSL/0.9.7l zlib/1.2.3\r\nHost: www.example.com\r\nAccept-Language: en, mi\r\n\r\n",
			"", false, -1, "GET", "/hello.txt", "User-Agent,Host,Accept-Language", FramingNone, ""},
		{"POST /p HTTP/1.1\r\n" + h + "Content-Length: 5\r\n\r\nhelloGET / HTTP/1.1\r\n", "", false, 53, "POST", "/p", "Host,Content-Length", FramingContentLength, "hello"},
		{"POST /p HTTP/1.1\r\n" + h + "Content-Length:5  \r\n\r\nhello", "", false, -1, "POST", "/p", "Host,Content-Length", FramingContentLength, "hello"},
		{"POST /p HTTP/1.1\r\n" + h + "Transfer-Encoding: chunked\r\n\r\n5\r\nhello\r\n0\r\n\r\nXYZ", "", false, 72, "POST", "/p", "Host,Transfer-Encoding", FramingChunked, "hello"},
		{"POST /p HTTP/1.1\r\n" + h + "transfer-encoding:\tChunked\r\n\r\n0\r\n\r\n", "", false, -1, "POST", "/p", "Host,transfer-encoding", FramingChunked, ""},
		{"OPTIONS * HTTP/1.1\r\n" + h + "\r\n", "", false, -1, "OPTIONS", "*", "Host", FramingNone, ""},
		{"GET / HTTP/1.0\r\n\r\n", "", false, -1, "GET", "/", "", FramingNone, ""},
		{"GET / HTTP/1.1\r\n" + h + "X:\r\nY: \x80\xff ok\r\n\r\n", "", false, -1, "GET", "/", "Host,X,Y", FramingNone, ""},
		// incomplete
		{"GET / HTTP/1.1\r\n" + h, Truncated, true, 0, "", "", "", 0, ""},
		{"GET / HT", Truncated, true, 0, "", "", "", 0, ""},
		{"POST / HTTP/1.1\r\n" + h + "Content-Length: 5\r\n\r\nhell", BodyTruncated, true, 0, "", "", "", 0, ""},
		{"POST / HTTP/1.1\r\n" + h + "Transfer-Encoding: chunked\r\n\r\n5\r\nhello\r\n0\r\n", BodyTruncated, true, 0, "", "", "", 0, ""},
		// start-line
		{"\r\nGET / HTTP/1.1\r\n" + h + "\r\n", LeadingEmptyLine, false, 0, "", "", "", 0, ""},
		{"GET  / HTTP/1.1\r\n" + h + "\r\n", RequestLineTarget, false, 0, "", "", "", 0, ""},
		{"GET /\tx HTTP/1.1\r\n" + h + "\r\n", RequestLineTarget, false, 0, "", "", "", 0, ""},
		{"GET / HTTP/1.1 \r\n" + h + "\r\n", RequestLineVersion, false, 0, "", "", "", 0, ""},
		{"GET / http/1.1\r\n" + h + "\r\n", RequestLineVersion, false, 0, "", "", "", 0, ""},
		{"GET / HTTP/1.10\r\n" + h + "\r\n", RequestLineVersion, false, 0, "", "", "", 0, ""},
		{"GET / HTTP/2.0\r\n" + h + "\r\n", VersionUnsupported, false, 0, "", "", "", 0, ""},
		{"G(T / HTTP/1.1\r\n" + h + "\r\n", RequestLineMethod, false, 0, "", "", "", 0, ""},
		{"GET /\r\n" + h + "\r\n", RequestLineMalformed, false, 0, "", "", "", 0, ""},
		{"GET / HTTP/1.1\n" + h + "\r\n", "start-line:bare-lf", false, 0, "", "", "", 0, ""},
		// header grammar
		{"GET / HTTP/1.1\r\n" + h + "X : y\r\n\r\n", HeaderPrefix + httpfield.WSBeforeColon, false, 0, "", "", "", 0, ""},
		{"GET / HTTP/1.1\r\n" + h + "X\t: y\r\n\r\n", HeaderPrefix + httpfield.WSBeforeColon, false, 0, "", "", "", 0, ""},
		{"GET / HTTP/1.1\r\n" + h + "X Y: y\r\n\r\n", HeaderPrefix + httpfield.InvalidNameByte, false, 0, "", "", "", 0, ""},
		{"GET / HTTP/1.1\r\n" + h + "X\x00: y\r\n\r\n", HeaderPrefix + httpfield.InvalidNameByte, false, 0, "", "", "", 0, ""},
		{"GET / HTTP/1.1\r\n" + h + "X\x80: y\r\n\r\n", HeaderPrefix + httpfield.InvalidNameByte, false, 0, "", "", "", 0, ""},
		{"GET / HTTP/1.1\r\n" + h + "X(: y\r\n\r\n", HeaderPrefix + httpfield.InvalidNameByte, false, 0, "", "", "", 0, ""},
		{"GET / HTTP/1.1\r\n" + h + ": y\r\n\r\n", HeaderPrefix + httpfield.EmptyName, false, 0, "", "", "", 0, ""},
		{"GET / HTTP/1.1\r\n" + h + "nocolon\r\n\r\n", HeaderPrefix + httpfield.NoColon, false, 0, "", "", "", 0, ""},
		{"GET / HTTP/1.1\r\n" + h + "X: a\r\n b\r\n\r\n", HeaderPrefix + httpfield.ObsFold, false, 0, "", "", "", 0, ""},
		{"GET / HTTP/1.1\r\n X: a\r\n" + h + "\r\n", HeaderPrefix + httpfield.LeadingWhitespace, false, 0, "", "", "", 0, ""},
		{"GET / HTTP/1.1\r\n" + h + "X: a\nY: b\r\n\r\n", HeaderPrefix + httpfield.BareLF, false, 0, "", "", "", 0, ""},
		{"GET / HTTP/1.1\r\n" + h + "X: a\rb\r\n\r\n", HeaderPrefix + httpfield.BareCR, false, 0, "", "", "", 0, ""},
		{"GET / HTTP/1.1\r\n" + h + "X: a\x00b\r\n\r\n", HeaderPrefix + httpfield.InvalidValueByte, false, 0, "", "", "", 0, ""},
		{"GET / HTTP/1.1\r\n" + h + "nocolon\r\n x: y\r\n\r\n", HeaderPrefix + httpfield.ObsFold, false, 0, "", "", "", 0, ""},
		{"GET / HTTP/1.1\r\n" + h + "X : a\r\n b\r\n\r\n", HeaderPrefix + httpfield.WSBeforeColon, false, 0, "", "", "", 0, ""},
		// Content-Length
		{"POST / HTTP/1.1\r\n" + h + "Content-Length: +5\r\n\r\nhello", CLInvalid, false, 0, "", "", "", 0, ""},
		{"POST / HTTP/1.1\r\n" + h + "Content-Length: 5 5\r\n\r\nhello", CLInvalid, false, 0, "", "", "", 0, ""},
		{"POST / HTTP/1.1\r\n" + h + "Content-Length: 0x5\r\n\r\nhello", CLInvalid, false, 0, "", "", "", 0, ""},
		{"POST / HTTP/1.1\r\n" + h + "Content-Length: -5\r\n\r\nhello", CLInvalid, false, 0, "", "", "", 0, ""},
		{"POST / HTTP/1.1\r\n" + h + "Content-Length:\r\n\r\nhello", CLInvalid, false, 0, "", "", "", 0, ""},
		{"POST / HTTP/1.1\r\n" + h + "Content-Length: 9223372036854775808\r\n\r\nhello", CLTooLarge, false, 0, "", "", "", 0, ""},
		{"POST / HTTP/1.1\r\n" + h + "Content-Length: 5\r\nContent-Length: 6\r\n\r\nhello!", CLConflicting, false, 0, "", "", "", 0, ""},
		{"POST / HTTP/1.1\r\n" + h + "Content-Length: 5, 6\r\n\r\nhello!", CLConflicting, false, 0, "", "", "", 0, ""},
		{"POST / HTTP/1.1\r\n" + h + "Content-Length: 5\r\nContent-Length: +5\r\n\r\nhello", CLConflicting, false, 0, "", "", "", 0, ""},
		{"POST / HTTP/1.1\r\n" + h + "Content-Length: +5\r\nContent-Length: +5\r\n\r\nhello", CLInvalid, false, 0, "", "", "", 0, ""},
		{"POST / HTTP/1.1\r\n" + h + "Content-Length: 5\r\nContent-Length: 05\r\n\r\nhello", CLDuplicateEqual, false, 0, "", "", "", 0, ""},
		{"POST / HTTP/1.1\r\n" + h + "Content-Length: 5\r\ncontent-length: 5\r\n\r\nhello", CLDuplicateEqual, false, 0, "", "", "", 0, ""},
		{"POST / HTTP/1.1\r\n" + h + "Content-Length: 5, 5\r\n\r\nhello", CLDuplicateEqual, false, 0, "", "", "", 0, ""},
		// Transfer-Encoding
		{"POST / HTTP/1.1\r\n" + h + "Transfer-Encoding: chunked, identity\r\n\r\n0\r\n\r\n", TENotFinalChunked, false, 0, "", "", "", 0, ""},
		{"POST / HTTP/1.1\r\n" + h + "Transfer-Encoding: identity\r\n\r\n", TENoChunked, false, 0, "", "", "", 0, ""},
		{"POST / HTTP/1.1\r\n" + h + "Transfer-Encoding: gzip\r\n\r\n", TENoChunked, false, 0, "", "", "", 0, ""},
		{"POST / HTTP/1.1\r\n" + h + "Transfer-Encoding: gzip, chunked\r\n\r\n0\r\n\r\n", TEUnsupportedCoding, false, 0, "", "", "", 0, ""},
		{"POST / HTTP/1.1\r\n" + h + "Transfer-Encoding: chunked, chunked\r\n\r\n0\r\n\r\n", TEChunkedRepeated, false, 0, "", "", "", 0, ""},
		{"POST / HTTP/1.1\r\n" + h + "Transfer-Encoding: chunked\r\nTransfer-Encoding: chunked\r\n\r\n0\r\n\r\n", TEMultipleLines, false, 0, "", "", "", 0, ""},
		{"POST / HTTP/1.1\r\n" + h + "Transfer-Encoding: chunked\r\nTransfer-Encoding: gzip\r\n\r\n0\r\n\r\n", TEMultipleLines, false, 0, "", "", "", 0, ""},
		{"POST / HTTP/1.1\r\n" + h + "Transfer-Encoding: \"chunked\"\r\n\r\n0\r\n\r\n", TEInvalidSyntax, false, 0, "", "", "", 0, ""},
		{"POST / HTTP/1.1\r\n" + h + "Transfer-Encoding: chunked;q=1\r\n\r\n0\r\n\r\n", TEInvalidSyntax, false, 0, "", "", "", 0, ""},
		{"POST / HTTP/1.1\r\n" + h + "Transfer-Encoding: \xc2\xa0chunked\r\n\r\n0\r\n\r\n", TEInvalidSyntax, false, 0, "", "", "", 0, ""},
		{"POST / HTTP/1.1\r\n" + h + "Transfer-Encoding:\r\n\r\n", TEInvalidSyntax, false, 0, "", "", "", 0, ""},
		{"POST / HTTP/1.1\r\n" + h + "Transfer-Encoding: chunked\r\nContent-Length: 3\r\n\r\n0\r\n\r\n", TEWithCL, false, 0, "", "", "", 0, ""},
		{"POST / HTTP/1.0\r\nTransfer-Encoding: chunked\r\n\r\n0\r\n\r\n", TEOnHTTP10, false, 0, "", "", "", 0, ""},
		// Host
		{"GET / HTTP/1.1\r\n\r\n", HostMissing, false, 0, "", "", "", 0, ""},
		{"GET / HTTP/1.1\r\n" + h + "host: b\r\n\r\n", HostMultiple, false, 0, "", "", "", 0, ""},
		// chunk grammar inside a request
		{"POST / HTTP/1.1\r\n" + h + "Transfer-Encoding: chunked\r\n\r\n\r\n0\r\n\r\n", BodyPrefix + "chunk-size:empty-line", false, 0, "", "", "", 0, ""},
	}
	for _, c := range reqs {
		req, n, err := ParseRequest([]byte(c.in))
		got, inc := "", false
		if err != nil {
			got, inc = err.Class, err.Incomplete
		}
		if got != c.class || inc != c.inc {
			return fmt.Errorf("http1 self-test: ParseRequest(%q): class %q incomplete=%v, want %q %v (%v)", c.in, got, inc, c.class, c.inc, err)
		}
		if err != nil {
			continue
		}
		want := c.consumed
		if want < 0 {
			want = len(c.in)
		}
		if n != want || req.Method != c.method || req.Target != c.target || strings.Join(Names(req.Fields), ",") != c.names || req.Framing != c.framing || string(req.Body) != c.body {
			return fmt.Errorf("http1 self-test: ParseRequest(%q) = n=%d %s %s %v %v %q", c.in, n, req.Method, req.Target, Names(req.Fields), req.Framing, req.Body)
		}
	}
	// tolerances give the documented readings
	{
		in := "POST /x HTTP/1.1\n" + "Host: a\n" + "X: a\n b\n" + "Content-Length: 2\nContent-Length: 2\n\nokNEXT"
		req, n, err := ParseRequestOpts([]byte(in), Options{Field: httpfield.Tolerate{BareLF: true, ObsFold: true}, CLDuplicateEqual: true})
		if err != nil || n != len(in)-4 || string(req.Body) != "ok" || Get(req.Fields, "x")[0] != "a b" {
			return fmt.Errorf("http1 self-test: tolerant parse: %v n=%d", err, n)
		}
		in = "POST /x HTTP/1.0\r\nTransfer-Encoding: chunked\r\nContent-Length: 99\r\n\r\n1\r\nZ\r\n0\r\n\r\n"
		req, n, err = ParseRequestOpts([]byte(in), Options{TEOverridesCL: true, TEOnHTTP10: true})
		if err != nil || n != len(in) || string(req.Body) != "Z" || req.Framing != FramingChunked {
			return fmt.Errorf("http1 self-test: TE tolerances: %v n=%d", err, n)
		}
		in = "GET / HTTP/1.1\r\n \r\n\tjunk\r\nHost: a\r\n\r\n"
		req, n, err = ParseRequestOpts([]byte(in), Options{Field: httpfield.Tolerate{LeadingWhitespace: true}})
		if err != nil || n != len(in) || strings.Join(Names(req.Fields), ",") != "Host" {
			return fmt.Errorf("http1 self-test: leading-whitespace tolerance: %v n=%d", err, n)
		}
	}
	{
		in := "GET / HTTP/1.1\r\n" + h + "nocolon\r\n x: y\r\n\r\n"
		_, _, err := ParseRequestOpts([]byte(in), Options{Field: httpfield.Tolerate{ObsFold: true}})
		if err == nil || err.Class != HeaderPrefix+httpfield.InvalidNameByte {
			return fmt.Errorf("http1 self-test: folded no-colon line: %v", err)
		}
	}
	type pc struct {
		in        string
		method    string
		minor     int
		class     string
		inc       bool
		consumed  int
		status    int
		framing   Framing
		body      string
		closeDlim bool
	}
	resps := []pc{
		// RFC 7230 section 2.1 example response
		{"HTTP/1.1 200 OK\r\nDate: Mon, 27 Jul 2009 12:28:53 GMT\r\nServer: Apache\r\nContent-Length: 51\r\nVary: Accept-Encoding\r\nContent-Type: text/plain\r\n\r\nHello World! My payload includes a trailing CRLF.\r\n",
			"GET", 1, "", false, -1, 200, FramingContentLength, "Hello World! My payload includes a trailing CRLF.\r\n", false},
		{"HTTP/1.1 200 OK\r\nTransfer-Encoding: chunked\r\n\r\n3\r\nabc\r\n0\r\n\r\nHTTP/1.1", "GET", 1, "", false, 60, 200, FramingChunked, "abc", false},
		{"HTTP/1.1 200 OK\r\n\r\nuntil close", "GET", 1, "", false, -1, 200, FramingClose, "until close", true},
		{"HTTP/1.0 200 OK\r\n\r\n", "GET", 0, "", false, -1, 200, FramingClose, "", true},
		{"HTTP/1.1 200 OK\r\nContent-Length: 5\r\n\r\nhello", "HEAD", 1, "", false, 38, 200, FramingNone, "", false},
		{"HTTP/1.1 204 No Content\r\n\r\nHTTP/1.1 200", "GET", 1, "", false, 27, 204, FramingNone, "", false},
		{"HTTP/1.1 304 Not Modified\r\nContent-Length: 10\r\n\r\n", "GET", 1, "", false, -1, 304, FramingNone, "", false},
		{"HTTP/1.1 100 Continue\r\n\r\nHTTP/1.1 200 OK\r\n", "POST", 1, "", false, 25, 100, FramingNone, "", false},
		{"HTTP/1.1 200 Connection established\r\n\r\nraw", "CONNECT", 1, "", false, 39, 200, FramingTunnel, "", false},
		{"HTTP/1.1 200 \r\nContent-Length: 0\r\n\r\n", "GET", 1, "", false, -1, 200, FramingContentLength, "", false},
		{"HTTP/1.1 200\r\nContent-Length: 0\r\n\r\n", "GET", 1, StatusLineMalformed, false, 0, 0, 0, "", false},
		{"HTTP/1.1 20 OK\r\n\r\n", "GET", 1, StatusLineMalformed, false, 0, 0, 0, "", false},
		{"HTTP/1.1 2x0 OK\r\n\r\n", "GET", 1, StatusLineCode, false, 0, 0, 0, "", false},
		{"HTTP/1.1 200 O\x01K\r\n\r\n", "GET", 1, StatusLineReason, false, 0, 0, 0, "", false},
		{"HTTP/1.1 200 OK\r\nContent-Length: 5\r\n\r\nhel", "GET", 1, BodyTruncated, true, 0, 0, 0, "", false},
		{"HTTP/1.1 200 OK\r\nContent-Length: 5\r\nTransfer-Encoding: chunked\r\n\r\n0\r\n\r\n", "GET", 1, TEWithCL, false, 0, 0, 0, "", false},
		{"HTTP/1.1 200 OK\r\nTransfer-Encoding: chunked\r\n\r\n0\r\n\r\n", "GET", 0, TEOnHTTP10, false, 0, 0, 0, "", false},
		{"HTTP/1.0 200 OK\r\nTransfer-Encoding: chunked\r\n\r\n0\r\n\r\n", "GET", 1, TEOnHTTP10, false, 0, 0, 0, "", false},
		{"HTTP/1.1 200 OK\r\nTransfer-Encoding: gzip\r\n\r\n", "GET", 1, TENoChunked, false, 0, 0, 0, "", false},
		{"HTTP/1.1 200 OK\r\nContent-Length: 1\r\nContent-Length: 2\r\n\r\nab", "GET", 1, CLConflicting, false, 0, 0, 0, "", false},
		{"HTTP/1.1 200 OK\r\nX : y\r\n\r\n", "GET", 1, HeaderPrefix + httpfield.WSBeforeColon, false, 0, 0, 0, "", false},
		{"HTTP/1.1 200 OK\r\nContent-Len", "GET", 1, Truncated, true, 0, 0, 0, "", false},
	}
	for _, c := range resps {
		resp, n, err := ParseResponse([]byte(c.in), c.method, c.minor)
		got, inc := "", false
		if err != nil {
			got, inc = err.Class, err.Incomplete
		}
		if got != c.class || inc != c.inc {
			return fmt.Errorf("http1 self-test: ParseResponse(%q,%s,%d): class %q incomplete=%v, want %q %v (%v)", c.in, c.method, c.minor, got, inc, c.class, c.inc, err)
		}
		if err != nil {
			continue
		}
		want := c.consumed
		if want < 0 {
			want = len(c.in)
		}
		if n != want || resp.Status != c.status || resp.Framing != c.framing || string(resp.Body) != c.body || resp.CloseDelimited != c.closeDlim {
			return fmt.Errorf("http1 self-test: ParseResponse(%q,%s,%d) = n=%d (want %d) status=%d %v %q close=%v", c.in, c.method, c.minor, n, want, resp.Status, resp.Framing, resp.Body, resp.CloseDelimited)
		}
	}
	return nil
}
