// Package fcgi is an independent reference codec for the FastCGI record
// protocol, written from the FastCGI Specification 1.0 (sections 3.3 record
// format, 3.4 name-value pairs, 5.1-5.5 record types, 6.2 Responder). It
// shares no code with bfe_fcgi.
package fcgi

import (
	"encoding/binary"
	"errors"
	"fmt"
)

// Record types (spec section 8).
const (
	TypeBeginRequest    = 1
	TypeAbortRequest    = 2
	TypeEndRequest      = 3
	TypeParams          = 4
	TypeStdin           = 5
	TypeStdout          = 6
	TypeStderr          = 7
	TypeData            = 8
	TypeGetValues       = 9
	TypeGetValuesResult = 10
	TypeUnknownType     = 11
)

const (
	RoleResponder = 1
	HeaderLen     = 8
)

// Record is one decoded FastCGI record.
type Record struct {
	Version uint8
	Type    uint8
	ID      uint16
	Content []byte
	Padding int
}

// ErrIncomplete is returned when the input ends inside a record.
var ErrIncomplete = errors.New("fcgi: input ends inside a record")

// ParseRecord decodes the first record of b and returns the number of bytes
// consumed. The 16-bit contentLength field bounds every payload by 65535.
func ParseRecord(b []byte) (Record, int, error) {
	if len(b) < HeaderLen {
		return Record{}, 0, ErrIncomplete
	}
	r := Record{Version: b[0], Type: b[1], ID: binary.BigEndian.Uint16(b[2:4])}
	cl := int(binary.BigEndian.Uint16(b[4:6]))
	r.Padding = int(b[6])
	if r.Version != 1 {
		return r, 0, fmt.Errorf("fcgi: record version %d", r.Version)
	}
	if r.Type < TypeBeginRequest || r.Type > TypeUnknownType {
		return r, 0, fmt.Errorf("fcgi: unknown record type %d", r.Type)
	}
	total := HeaderLen + cl + r.Padding
	if len(b) < total {
		return r, 0, ErrIncomplete
	}
	r.Content = append([]byte{}, b[HeaderLen:HeaderLen+cl]...)
	return r, total, nil
}

// ParseRecords decodes all complete records of b; rest is what follows the
// last complete record.
func ParseRecords(b []byte) (recs []Record, rest []byte, err error) {
	for len(b) > 0 {
		r, n, e := ParseRecord(b)
		if e == ErrIncomplete {
			return recs, b, nil
		}
		if e != nil {
			return recs, b, e
		}
		recs = append(recs, r)
		b = b[n:]
	}
	return recs, nil, nil
}

// Pair is one name-value pair.
type Pair struct{ Name, Value string }

func readLen(b []byte) (n uint32, used int, err error) {
	if len(b) == 0 {
		return 0, 0, errors.New("fcgi: pair length missing")
	}
	if b[0]>>7 == 0 {
		return uint32(b[0]), 1, nil
	}
	if len(b) < 4 {
		return 0, 0, errors.New("fcgi: truncated 4-byte pair length")
	}
	return binary.BigEndian.Uint32(b) & 0x7fffffff, 4, nil
}

// DecodePairs decodes a complete name-value pair stream (spec 3.4).
func DecodePairs(b []byte) ([]Pair, error) {
	var out []Pair
	for len(b) > 0 {
		nl, u, err := readLen(b)
		if err != nil {
			return out, err
		}
		b = b[u:]
		vl, u, err := readLen(b)
		if err != nil {
			return out, err
		}
		b = b[u:]
		if uint64(nl)+uint64(vl) > uint64(len(b)) {
			return out, fmt.Errorf("fcgi: pair of %d+%d bytes exceeds the %d bytes left in the stream", nl, vl, len(b))
		}
		out = append(out, Pair{string(b[:nl]), string(b[nl : nl+vl])})
		b = b[nl+vl:]
	}
	return out, nil
}

// Request is what a Responder application receives for one request.
type Request struct {
	ID        uint16
	Role      uint16
	Flags     uint8
	Params    []Pair
	Stdin     []byte
	NRecords  int
	MaxRecord int // largest contentLength seen
}

// RequestDecoder consumes web-server->application records incrementally.
type RequestDecoder struct {
	Req        Request
	begun      bool
	paramsBuf  []byte
	paramsDone bool
	stdinDone  bool
}

// Done reports whether both the PARAMS and the STDIN stream were terminated.
func (d *RequestDecoder) Done() bool { return d.paramsDone && d.stdinDone }

// ParamsDone and StdinDone report the state of each stream.
func (d *RequestDecoder) ParamsDone() bool { return d.paramsDone }
func (d *RequestDecoder) StdinDone() bool  { return d.stdinDone }

// Feed checks one record against the Responder protocol (spec 6.2: BEGIN_REQUEST
// first, then PARAMS and STDIN streams, each closed by an empty record).
func (d *RequestDecoder) Feed(r Record) error {
	d.Req.NRecords++
	if len(r.Content) > d.Req.MaxRecord {
		d.Req.MaxRecord = len(r.Content)
	}
	if !d.begun {
		if r.Type != TypeBeginRequest {
			return fmt.Errorf("fcgi: first record has type %d, want BEGIN_REQUEST", r.Type)
		}
		if len(r.Content) != 8 {
			return fmt.Errorf("fcgi: BEGIN_REQUEST body of %d bytes", len(r.Content))
		}
		if r.ID == 0 {
			return errors.New("fcgi: BEGIN_REQUEST with the null request id")
		}
		d.begun = true
		d.Req.ID = r.ID
		d.Req.Role = binary.BigEndian.Uint16(r.Content)
		d.Req.Flags = r.Content[2]
		return nil
	}
	if r.ID != d.Req.ID {
		return fmt.Errorf("fcgi: record type %d with request id %d inside request %d", r.Type, r.ID, d.Req.ID)
	}
	switch r.Type {
	case TypeParams:
		if d.paramsDone {
			return errors.New("fcgi: PARAMS record after the PARAMS stream was closed")
		}
		if len(r.Content) == 0 {
			d.paramsDone = true
			ps, err := DecodePairs(d.paramsBuf)
			d.Req.Params = ps
			return err
		}
		d.paramsBuf = append(d.paramsBuf, r.Content...)
	case TypeStdin:
		if d.stdinDone {
			return errors.New("fcgi: STDIN record after the STDIN stream was closed")
		}
		if len(r.Content) == 0 {
			d.stdinDone = true
			return nil
		}
		d.Req.Stdin = append(d.Req.Stdin, r.Content...)
	case TypeBeginRequest:
		return errors.New("fcgi: second BEGIN_REQUEST")
	default:
		return fmt.Errorf("fcgi: unexpected record type %d from the web server", r.Type)
	}
	return nil
}

// EncodeRecord builds one record with the given padding.
func EncodeRecord(typ uint8, id uint16, content []byte, pad int) []byte {
	if len(content) > 65535 || pad > 255 {
		panic("fcgi: record too large")
	}
	b := make([]byte, HeaderLen, HeaderLen+len(content)+pad)
	b[0] = 1
	b[1] = typ
	binary.BigEndian.PutUint16(b[2:], id)
	binary.BigEndian.PutUint16(b[4:], uint16(len(content)))
	b[6] = uint8(pad)
	b = append(b, content...)
	b = append(b, make([]byte, pad)...)
	return b
}

// EndRequestBody builds the body of an END_REQUEST record.
func EndRequestBody(appStatus uint32, protocolStatus uint8) []byte {
	b := make([]byte, 8)
	binary.BigEndian.PutUint32(b, appStatus)
	b[4] = protocolStatus
	return b
}
