// Package h2frame is a small reference model of the HTTP/2 frame layer written
// from RFC 7540 sections 4.1, 4.2 and 6.1-6.10: splitting a byte stream into
// frames, the frame-level rules a receiver MUST enforce, and the decoding of
// the type-specific fields. It shares no code with bfe or x/net.
package h2frame

import "encoding/binary"

// Frame types (RFC 7540 section 6 / 11.2).
const (
	Data         = 0x0
	Headers      = 0x1
	Priority     = 0x2
	RSTStream    = 0x3
	Settings     = 0x4
	PushPromise  = 0x5
	Ping         = 0x6
	GoAway       = 0x7
	WindowUpdate = 0x8
	Continuation = 0x9
)

// Flags.
const (
	FlagEndStream  = 0x1 // DATA, HEADERS
	FlagAck        = 0x1 // SETTINGS, PING
	FlagEndHeaders = 0x4 // HEADERS, PUSH_PROMISE, CONTINUATION
	FlagPadded     = 0x8 // DATA, HEADERS, PUSH_PROMISE
	FlagPriority   = 0x20
)

// Setting identifiers (6.5.2).
const (
	SettingHeaderTableSize   = 1
	SettingEnablePush        = 2
	SettingMaxConcurrent     = 3
	SettingInitialWindowSize = 4
	SettingMaxFrameSize      = 5
	SettingMaxHeaderListSize = 6
)

// Frame is one frame as laid out in section 4.1.
type Frame struct {
	Length   uint32 // 24 bits
	Type     uint8
	Flags    uint8
	StreamID uint32 // 31 bits, reserved bit ignored
	Payload  []byte
}

// Split cuts the first frame off b. ok is false when b does not hold a complete
// frame; hdr reports whether at least the 9-octet header was there (f's header
// fields are then valid).
func Split(b []byte) (f Frame, rest []byte, ok, hdr bool) {
	if len(b) < 9 {
		return f, nil, false, false
	}
	f.Length = uint32(b[0])<<16 | uint32(b[1])<<8 | uint32(b[2])
	f.Type = b[3]
	f.Flags = b[4]
	f.StreamID = binary.BigEndian.Uint32(b[5:9]) & 0x7fffffff
	if uint32(len(b)-9) < f.Length {
		return f, nil, false, true
	}
	f.Payload = b[9 : 9+f.Length]
	return f, b[9+f.Length:], true, true
}

// Append serialises a frame (no checks at all).
func Append(dst []byte, typ, flags uint8, stream uint32, payload []byte) []byte {
	return AppendLen(dst, uint32(len(payload)), typ, flags, stream, payload)
}

// AppendLen is Append with an explicit length field.
func AppendLen(dst []byte, length uint32, typ, flags uint8, stream uint32, payload []byte) []byte {
	dst = append(dst, byte(length>>16), byte(length>>8), byte(length), typ, flags,
		byte(stream>>24), byte(stream>>16), byte(stream>>8), byte(stream))
	return append(dst, payload...)
}

// State is what a receiver has to remember between frames for the
// frame-level rules: its SETTINGS_MAX_FRAME_SIZE and whether a header block is
// open (6.2, 6.6, 6.10).
type State struct {
	MaxFrameSize uint32
	open         bool
	openStream   uint32
	openedBy     uint8
}

// Open reports the stream of the unfinished header block, if any, and the type
// of the frame that started it.
func (s *State) Open() (stream uint32, by uint8, open bool) { return s.openStream, s.openedBy, s.open }

// Check returns "" if a receiver may accept f in this state, otherwise the name
// of the RFC 7540 rule that obliges it to treat f as an error.
func (s *State) Check(f Frame) string {
	// 4.2: "An endpoint MUST send an error code of FRAME_SIZE_ERROR if a frame
	// exceeds the size defined in SETTINGS_MAX_FRAME_SIZE, exceeds any limit
	// defined for the frame type, or is too small to contain mandatory frame data."
	if f.Length > s.MaxFrameSize {
		return "frame-size:exceeds-max-frame-size"
	}
	// 6.2/6.6/6.10: while a header block is open only CONTINUATION on the same stream
	if s.open {
		if f.Type != Continuation {
			if s.openedBy == PushPromise {
				return "sequencing:non-continuation-after-open-push-promise"
			}
			return "sequencing:non-continuation-inside-header-block"
		}
		if f.StreamID != s.openStream {
			return "sequencing:continuation-on-other-stream"
		}
	} else if f.Type == Continuation {
		return "sequencing:continuation-without-open-header-block"
	}
	n := len(f.Payload)
	switch f.Type {
	case Data:
		if f.StreamID == 0 {
			return "stream-0:data"
		}
		if f.Flags&FlagPadded != 0 {
			if n < 1 {
				return "frame-size:data-padded-without-pad-length"
			}
			// 6.1: "If the length of the padding is the length of the frame payload or greater"
			if int(f.Payload[0]) >= n {
				return "padding:data-pad-length-exceeds-payload"
			}
		}
	case Headers:
		if f.StreamID == 0 {
			return "stream-0:headers"
		}
		need := 0
		if f.Flags&FlagPadded != 0 {
			need++
		}
		if f.Flags&FlagPriority != 0 {
			need += 5
		}
		if n < need {
			return "frame-size:headers-too-small-for-mandatory-fields"
		}
		// 6.2: "Padding that exceeds the size remaining for the header block fragment"
		if f.Flags&FlagPadded != 0 && int(f.Payload[0]) > n-need {
			return "padding:headers-pad-length-exceeds-remaining"
		}
	case Priority:
		if f.StreamID == 0 {
			return "stream-0:priority"
		}
		if n != 5 {
			return "frame-size:priority-length-not-5"
		}
	case RSTStream:
		if f.StreamID == 0 {
			return "stream-0:rst-stream"
		}
		if n != 4 {
			return "frame-size:rst-stream-length-not-4"
		}
	case Settings:
		if f.StreamID != 0 {
			return "stream-0:settings-on-stream"
		}
		if f.Flags&FlagAck != 0 && n != 0 {
			return "settings:ack-with-payload"
		}
		if n%6 != 0 {
			return "settings:length-not-multiple-of-6"
		}
	case PushPromise:
		if f.StreamID == 0 {
			return "stream-0:push-promise"
		}
		need := 4
		if f.Flags&FlagPadded != 0 {
			need++
		}
		if n < need {
			return "frame-size:push-promise-too-small-for-mandatory-fields"
		}
		if f.Flags&FlagPadded != 0 && int(f.Payload[0]) > n-need {
			return "padding:push-promise-pad-length-exceeds-remaining"
		}
	case Ping:
		if f.StreamID != 0 {
			return "stream-0:ping-on-stream"
		}
		if n != 8 {
			return "frame-size:ping-length-not-8"
		}
	case GoAway:
		if f.StreamID != 0 {
			return "stream-0:goaway-on-stream"
		}
		if n < 8 {
			return "frame-size:goaway-too-small-for-mandatory-fields"
		}
	case WindowUpdate:
		if n != 4 {
			return "frame-size:window-update-length-not-4"
		}
		if binary.BigEndian.Uint32(f.Payload)&0x7fffffff == 0 {
			return "window-update:zero-increment"
		}
	case Continuation:
		if f.StreamID == 0 {
			return "stream-0:continuation"
		}
	}
	return ""
}

// Advance records an accepted frame.
func (s *State) Advance(f Frame) {
	switch f.Type {
	case Headers, PushPromise, Continuation:
		if f.Flags&FlagEndHeaders != 0 {
			s.open = false
		} else {
			if !s.open {
				s.openedBy = f.Type
			}
			s.open = true
			s.openStream = f.StreamID
		}
	}
}

// SettingsValueRule returns the 6.5.2 rule violated by a value carried in a
// (frame-level valid, non-ACK) SETTINGS frame, or "".
func SettingsValueRule(f Frame) string {
	for p := f.Payload; len(p) >= 6; p = p[6:] {
		id := binary.BigEndian.Uint16(p)
		v := binary.BigEndian.Uint32(p[2:])
		switch id {
		case SettingEnablePush:
			if v > 1 {
				return "settings-value:enable-push-not-0-or-1"
			}
		case SettingInitialWindowSize:
			if v > 1<<31-1 {
				return "settings-value:initial-window-size-above-2^31-1"
			}
		case SettingMaxFrameSize:
			if v < 1<<14 || v > 1<<24-1 {
				return "settings-value:max-frame-size-out-of-range"
			}
		}
	}
	return ""
}

// Fields are the decoded type-specific fields of a frame that passed Check.
type Fields struct {
	Data     []byte // DATA: without pad length and padding
	Fragment []byte // HEADERS, PUSH_PROMISE, CONTINUATION
	Padded   bool
	PadLen   uint8
	HasPrio  bool
	Dep      uint32
	Excl     bool
	Weight   uint8
	Code     uint32 // RST_STREAM, GOAWAY
	Settings [][2]uint32
	Promise  uint32
	Ping     []byte
	Last     uint32
	Debug    []byte
	Incr     uint32
}

// Decode decodes the fields of f; f must have passed Check.
func (f Frame) Decode() (d Fields) {
	p := f.Payload
	unpad := func() {
		if f.Flags&FlagPadded != 0 {
			d.Padded = true
			d.PadLen = p[0]
			p = p[1:]
		}
	}
	switch f.Type {
	case Data:
		unpad()
		d.Data = p[:len(p)-int(d.PadLen)]
	case Headers:
		unpad()
		if f.Flags&FlagPriority != 0 {
			d.HasPrio = true
			v := binary.BigEndian.Uint32(p)
			d.Dep, d.Excl, d.Weight = v&0x7fffffff, v>>31 == 1, p[4]
			p = p[5:]
		}
		d.Fragment = p[:len(p)-int(d.PadLen)]
	case Priority:
		v := binary.BigEndian.Uint32(p)
		d.HasPrio = true
		d.Dep, d.Excl, d.Weight = v&0x7fffffff, v>>31 == 1, p[4]
	case RSTStream:
		d.Code = binary.BigEndian.Uint32(p)
	case Settings:
		for ; len(p) >= 6; p = p[6:] {
			d.Settings = append(d.Settings, [2]uint32{uint32(binary.BigEndian.Uint16(p)), binary.BigEndian.Uint32(p[2:])})
		}
	case PushPromise:
		unpad()
		d.Promise = binary.BigEndian.Uint32(p) & 0x7fffffff
		p = p[4:]
		d.Fragment = p[:len(p)-int(d.PadLen)]
	case Ping:
		d.Ping = p
	case GoAway:
		d.Last = binary.BigEndian.Uint32(p) & 0x7fffffff
		d.Code = binary.BigEndian.Uint32(p[4:])
		d.Debug = p[8:]
	case WindowUpdate:
		d.Incr = binary.BigEndian.Uint32(p) & 0x7fffffff
	case Continuation:
		d.Fragment = p
	default:
		d.Data = p
	}
	return d
}
