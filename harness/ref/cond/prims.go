package cond

// prims.go: the request model and one reference function per condition
// primitive (C18), written from docs/en_us/condition/{request,response,
// session,system}/*.md, condition_naming_convention.md and the statement of
// C18 ("a missing attribute makes the primitive false").

import (
	"regexp"
	"strconv"
	"strings"
)

type KV struct {
	K string `json:"k"`
	V string `json:"v"`
}

// Req is the harness' own picture of a request; cmd/vcond turns it into a
// bfe_basic.Request. Every "attribute" is either present or absent.
type Req struct {
	Method   string `json:"method"`
	HostName string `json:"host_name"` // Host header without the port
	Port     string `json:"port"`      // "" = Host header carries no port
	Path     string `json:"path"`
	Query    []KV   `json:"query"`   // unique keys
	Cookies  []KV   `json:"cookies"` // unique keys
	Headers  []KV   `json:"headers"` // canonical unique names, without Cookie
	Proto    string `json:"proto"`   // protocol of the request as seen by BFE

	Secure     bool   `json:"secure"`  // connection is over TLS
	HasTLS     bool   `json:"has_tls"` // TLS state recorded
	SNI        string `json:"sni"`
	ClientAuth bool   `json:"client_auth"`
	ClientCA   string `json:"client_ca"`

	CIP    string `json:"cip"` // client address, "" = unknown
	SIP    string `json:"sip"` // socket peer address, "" = unknown
	VIP    string `json:"vip"` // virtual IP, "" = unknown
	Short4 bool   `json:"short4"`
	// Short4: IPv4 addresses are handed over in 4-byte form (else 16-byte)

	Trusted bool                `json:"trusted"`
	Tags    map[string][]string `json:"tags"`
	HostTag string              `json:"host_tag"`
	Context map[string]string   `json:"context"`

	HasResp     bool `json:"has_resp"`
	Status      int  `json:"status"`
	RespHeaders []KV `json:"resp_headers"`
}

func lookup(kvs []KV, k string) (string, bool) {
	for _, e := range kvs {
		if e.K == k {
			return e.V, true
		}
	}
	return "", false
}

// RawQuery renders the query with every byte outside the RFC 3986 unreserved
// set percent-encoded.
func (q *Req) RawQuery() string {
	var b strings.Builder
	for i, e := range q.Query {
		if i > 0 {
			b.WriteByte('&')
		}
		b.WriteString(pctEncode(e.K))
		b.WriteByte('=')
		b.WriteString(pctEncode(e.V))
	}
	return b.String()
}

func pctEncode(s string) string {
	const hex = "0123456789ABCDEF"
	var b strings.Builder
	for i := 0; i < len(s); i++ {
		c := s[i]
		if c >= 'a' && c <= 'z' || c >= 'A' && c <= 'Z' || c >= '0' && c <= '9' || c == '-' || c == '.' || c == '_' || c == '~' {
			b.WriteByte(c)
		} else {
			b.WriteByte('%')
			b.WriteByte(hex[c>>4])
			b.WriteByte(hex[c&15])
		}
	}
	return b.String()
}

// URI is the request target: path plus "?query" when there is a query.
func (q *Req) URI() string {
	if len(q.Query) == 0 {
		return q.Path
	}
	return q.Path + "?" + q.RawQuery()
}

// Arg is a literal argument of a primitive call.
type Arg struct {
	S      string `json:"s"`
	B      bool   `json:"b"`
	IsBool bool   `json:"is_bool"`
}

// ---- matching helpers -------------------------------------------------------

// asciiLower folds ASCII letters only (see DESIGN C18 decision (i)).
func asciiLower(s string) string {
	b := []byte(s)
	for i, c := range b {
		if c >= 'A' && c <= 'Z' {
			b[i] = c + 32
		}
	}
	return string(b)
}

func fold(s string, ci bool) string {
	if ci {
		return asciiLower(s)
	}
	return s
}

func list(s string) []string { return strings.Split(s, "|") }

func anyOf(patterns string, ci bool, v string, test func(v, p string) bool) bool {
	v = fold(v, ci)
	for _, p := range list(patterns) {
		if test(v, fold(p, ci)) {
			return true
		}
	}
	return false
}

func eq(v, p string) bool { return v == p }

func in(patterns string, ci bool, v string) bool { return anyOf(patterns, ci, v, eq) }
func prefixIn(patterns string, ci bool, v string) bool {
	return anyOf(patterns, ci, v, strings.HasPrefix)
}
func suffixIn(patterns string, ci bool, v string) bool {
	return anyOf(patterns, ci, v, strings.HasSuffix)
}
func contain(patterns string, ci bool, v string) bool {
	return anyOf(patterns, ci, v, strings.Contains)
}

// elementPrefix: the pattern, read as a sequence of path elements, is a prefix
// of the path's elements ("/api/report/" matches /api/report and
// /api/report/x but not /api/reportx). A missing trailing '/' of the pattern
// is added automatically.
func elementPrefix(v, p string) bool {
	p = strings.TrimSuffix(p, "/")
	return v == p || strings.HasPrefix(v, p+"/")
}

func regmatch(re string, v string) bool {
	return regexp.MustCompile(re).MatchString(v) // Go stdlib = trusted regexp engine
}

func ipInRange(addr, start, end string) bool {
	a, a4, va := ParseIP(addr)
	s, s4, vs := ParseIP(start)
	e, _, ve := ParseIP(end)
	if va != Valid || vs != Valid || ve != Valid {
		return false
	}
	_ = a4
	_ = s4
	return CompareIP(s, a) <= 0 && CompareIP(a, e) <= 0
}

// ---- primitive table --------------------------------------------------------

// Match classes, used by the generators to derive requests from patterns.
type MatchClass int

const (
	MConst MatchClass = iota // no pattern (flags, default_t)
	MIn
	MPrefix
	MSuffix
	MContain
	MElemPrefix
	MRegexp
	MHash
	MKeyIn
	MKeyPrefixIn
	MIPIn
	MIPRange
	MTag
	MTime
	MPeriodic
	MExact // "match": the whole argument is one pattern
)

// Attribute inspected by a primitive.
type Attr int

const (
	ANone Attr = iota
	AHost
	APort
	APath
	AURL
	AMethod
	AProto
	AUA
	AQueryKey
	AQueryValue
	AQueryAny
	ACookieKey
	ACookieValue
	AHeaderKey
	AHeaderValue
	ATag
	AHostTag
	AContext
	ACIP
	ASIP
	AVIP
	ATrusted
	ASecure
	ASNI
	AClientAuth
	AClientCA
	AResCode
	AResHeaderKey
	AResHeaderValue
	ATime
)

func (a Attr) String() string {
	return [...]string{"none", "host", "port", "path", "url", "method", "proto", "ua", "query-key", "query-value", "query-any",
		"cookie-key", "cookie-value", "header-key", "header-value", "tag", "host-tag", "context", "cip", "sip", "vip",
		"trusted", "secure", "sni", "client-auth", "client-ca", "res-code", "res-header-key", "res-header-value", "time"}[a]
}

// CaseDoc says what the docs say about letter case for primitives WITHOUT a
// case_insensitive parameter.
type CaseDoc int

const (
	CaseByFlag      CaseDoc = iota // has a case_insensitive parameter
	CaseInsensitive                // documented "case insensitive"
	CaseSilent                     // docs silent: case-only variants are never generated
)

type Spec struct {
	Name       string
	Kinds      []Kind
	Documented bool // has an entry in docs/en_us/condition (else: naming convention + property statement only)
	Attr       Attr
	Class      MatchClass
	Case       CaseDoc
	// Eval is the reference semantics. now is the current time (Unix seconds)
	// used by the time primitives.
	Eval func(a []Arg, q *Req, now int64) bool
	// EvalFold (value-style primitives whose docs are silent about letter
	// case) is Eval with ASCII case folding; a case where Eval != EvalFold
	// depends on undocumented behaviour and is skipped by the checker.
	EvalFold func(a []Arg, q *Req, now int64) bool
}

// value-style primitive: fetch one optional string, apply a matcher to the
// pattern argument at index pi with the case flag at index ci (-1: none).
func valueSpec(name string, doc bool, attr Attr, class MatchClass, kinds []Kind, cs CaseDoc,
	fetch func(a []Arg, q *Req) (string, bool)) Spec {
	pi := 0
	if len(kinds) >= 2 && kinds[1].IsString() {
		pi = 1 // (key, patterns, ...)
	}
	ci := -1
	for i, k := range kinds {
		if k == KBool {
			ci = i
		}
	}
	mk := func(forceFold bool) func(a []Arg, q *Req, now int64) bool {
		return func(a []Arg, q *Req, now int64) bool {
			v, ok := fetch(a, q)
			if !ok {
				return false // a missing attribute makes the primitive false
			}
			fc := cs == CaseInsensitive || forceFold
			if ci >= 0 {
				fc = a[ci].B
			}
			p := a[pi].S
			switch class {
			case MIn:
				return in(p, fc, v)
			case MPrefix:
				return prefixIn(p, fc, v)
			case MSuffix:
				return suffixIn(p, fc, v)
			case MContain:
				return contain(p, fc, v)
			case MElemPrefix:
				return anyOf(p, fc, v, elementPrefix)
			case MRegexp:
				return regmatch(p, v)
			case MExact:
				return fold(v, fc) == fold(p, fc)
			}
			panic("valueSpec: class")
		}
	}
	sp := Spec{Name: name, Kinds: kinds, Documented: doc, Attr: attr, Class: class, Case: cs, Eval: mk(false)}
	if cs == CaseSilent && class != MRegexp {
		sp.EvalFold = mk(true)
	}
	return sp
}

var (
	kS   = []Kind{KStr}
	kSB  = []Kind{KStr, KBool}
	kSSB = []Kind{KStr, KStr, KBool}
	kSHB = []Kind{KStr, KHashList, KBool}
	kR   = []Kind{KRegexp}
	kSR  = []Kind{KStr, KRegexp}
	kIP2 = []Kind{KIPStart, KIPEnd}
)

func fHost(a []Arg, q *Req) (string, bool)   { return q.HostName, true }
func fPort(a []Arg, q *Req) (string, bool)   { return q.Port, q.Port != "" }
func fPath(a []Arg, q *Req) (string, bool)   { return q.Path, true }
func fURL(a []Arg, q *Req) (string, bool)    { return q.URI(), true }
func fMethod(a []Arg, q *Req) (string, bool) { return q.Method, true }
func fProto(a []Arg, q *Req) (string, bool)  { return q.Proto, true }
func fUA(a []Arg, q *Req) (string, bool)     { return lookup(q.Headers, "User-Agent") }
func fQueryV(a []Arg, q *Req) (string, bool) { return lookup(q.Query, a[0].S) }
func fCookieV(a []Arg, q *Req) (string, bool) {
	return lookup(q.Cookies, a[0].S)
}
func fHeaderV(a []Arg, q *Req) (string, bool) { return lookup(q.Headers, a[0].S) }
func fResHeaderV(a []Arg, q *Req) (string, bool) {
	if !q.HasResp {
		return "", false
	}
	return lookup(q.RespHeaders, a[0].S)
}
func fHostTag(a []Arg, q *Req) (string, bool) { return q.HostTag, q.HostTag != "" }
func fContext(a []Arg, q *Req) (string, bool) {
	v, ok := q.Context[a[0].S]
	return v, ok
}
func fSNI(a []Arg, q *Req) (string, bool) {
	return q.SNI, q.Secure && q.HasTLS && q.SNI != ""
}
func fClientCA(a []Arg, q *Req) (string, bool) {
	// "tls mutual authentication is enabled and client ca matches ca_list"
	return q.ClientCA, q.Secure && q.HasTLS && q.ClientAuth && q.ClientCA != ""
}
func fResCode(a []Arg, q *Req) (string, bool) {
	if !q.HasResp {
		return "", false
	}
	return strconv.Itoa(q.Status), true
}

func keySpec(name string, doc bool, attr Attr, class MatchClass, keys func(q *Req) ([]KV, bool)) Spec {
	return Spec{Name: name, Kinds: kS, Documented: doc, Attr: attr, Class: class, Case: CaseSilent,
		Eval: func(a []Arg, q *Req, now int64) bool {
			kvs, ok := keys(q)
			if !ok {
				return false
			}
			for _, e := range kvs {
				for _, p := range list(a[0].S) {
					if class == MKeyIn && e.K == p || class == MKeyPrefixIn && strings.HasPrefix(e.K, p) {
						return true
					}
				}
			}
			return false
		}}
}

func rangeSpec(name string, attr Attr, addr func(q *Req) string) Spec {
	return Spec{Name: name, Kinds: kIP2, Documented: true, Attr: attr, Class: MIPRange, Case: CaseSilent,
		Eval: func(a []Arg, q *Req, now int64) bool {
			ip := addr(q)
			if ip == "" {
				return false
			}
			return ipInRange(ip, a[0].S, a[1].S)
		}}
}

func flagSpec(name string, doc bool, attr Attr, f func(q *Req) bool) Spec {
	return Spec{Name: name, Kinds: nil, Documented: doc, Attr: attr, Class: MConst, Case: CaseSilent,
		Eval: func(a []Arg, q *Req, now int64) bool { return f(q) }}
}

// hashSpec: the hash function is NOT documented, so there is no Eval; the
// checker locates the bucket by bisection (see cmd/vcond/c18.go).
func hashSpec(name string, attr Attr, kinds []Kind) Spec {
	return Spec{Name: name, Kinds: kinds, Documented: true, Attr: attr, Class: MHash, Case: CaseByFlag}
}

// Specs lists every primitive the reference knows.
var Specs = buildSpecs()

func buildSpecs() map[string]Spec {
	l := []Spec{
		// --- request/uri.md
		valueSpec("req_host_in", true, AHost, MIn, []Kind{KHostList}, CaseInsensitive, fHost),
		valueSpec("req_path_in", true, APath, MIn, kSB, CaseByFlag, fPath),
		valueSpec("req_path_contain", true, APath, MContain, kSB, CaseByFlag, fPath),
		valueSpec("req_path_prefix_in", true, APath, MPrefix, kSB, CaseByFlag, fPath),
		valueSpec("req_path_suffix_in", true, APath, MSuffix, kSB, CaseByFlag, fPath),
		valueSpec("req_path_element_prefix_in", true, APath, MElemPrefix, kSB, CaseByFlag, fPath),
		keySpec("req_query_key_in", true, AQueryKey, MKeyIn, func(q *Req) ([]KV, bool) { return q.Query, true }),
		keySpec("req_query_key_prefix_in", true, AQueryKey, MKeyPrefixIn, func(q *Req) ([]KV, bool) { return q.Query, true }),
		valueSpec("req_query_value_in", true, AQueryValue, MIn, kSSB, CaseByFlag, fQueryV),
		valueSpec("req_query_value_prefix_in", true, AQueryValue, MPrefix, kSSB, CaseByFlag, fQueryV),
		valueSpec("req_query_value_suffix_in", true, AQueryValue, MSuffix, kSSB, CaseByFlag, fQueryV),
		hashSpec("req_query_value_hash_in", AQueryValue, kSHB),
		valueSpec("req_port_in", true, APort, MIn, kS, CaseSilent, fPort),
		valueSpec("req_url_regmatch", true, AURL, MRegexp, kR, CaseSilent, fURL),
		// --- request/cookie.md
		keySpec("req_cookie_key_in", true, ACookieKey, MKeyIn, func(q *Req) ([]KV, bool) { return q.Cookies, true }),
		valueSpec("req_cookie_value_in", true, ACookieValue, MIn, kSSB, CaseByFlag, fCookieV),
		valueSpec("req_cookie_value_prefix_in", true, ACookieValue, MPrefix, kSSB, CaseByFlag, fCookieV),
		valueSpec("req_cookie_value_suffix_in", true, ACookieValue, MSuffix, kSSB, CaseByFlag, fCookieV),
		valueSpec("req_cookie_value_contain", true, ACookieValue, MContain, kSSB, CaseByFlag, fCookieV),
		hashSpec("req_cookie_value_hash_in", ACookieValue, kSHB),
		// --- request/header.md
		keySpec("req_header_key_in", true, AHeaderKey, MKeyIn, func(q *Req) ([]KV, bool) { return q.Headers, true }),
		valueSpec("req_header_value_in", true, AHeaderValue, MIn, kSSB, CaseByFlag, fHeaderV),
		valueSpec("req_header_value_prefix_in", true, AHeaderValue, MPrefix, kSSB, CaseByFlag, fHeaderV),
		valueSpec("req_header_value_suffix_in", true, AHeaderValue, MSuffix, kSSB, CaseByFlag, fHeaderV),
		valueSpec("req_header_value_contain", true, AHeaderValue, MContain, kSSB, CaseByFlag, fHeaderV),
		hashSpec("req_header_value_hash_in", AHeaderValue, kSHB),
		// --- request/ip.md
		rangeSpec("req_cip_range", ACIP, func(q *Req) string { return q.CIP }),
		flagSpec("req_cip_trusted", true, ATrusted, func(q *Req) bool { return q.Trusted }),
		hashSpec("req_cip_hash_in", ACIP, []Kind{KHashList}),
		{Name: "req_vip_in", Kinds: []Kind{KIPList}, Documented: true, Attr: AVIP, Class: MIPIn, Case: CaseSilent,
			Eval: func(a []Arg, q *Req, now int64) bool {
				if q.VIP == "" {
					return false
				}
				for _, p := range list(a[0].S) {
					if ipInRange(q.VIP, p, p) {
						return true
					}
				}
				return false
			}},
		rangeSpec("req_vip_range", AVIP, func(q *Req) string { return q.VIP }),
		// --- request/method.md, protocol.md, tag.md
		valueSpec("req_method_in", true, AMethod, MIn, kS, CaseSilent, fMethod),
		flagSpec("req_proto_secure", true, ASecure, func(q *Req) bool { return q.Secure }),
		{Name: "req_tag_match", Kinds: []Kind{KStr, KStr}, Documented: true, Attr: ATag, Class: MTag, Case: CaseSilent,
			Eval: func(a []Arg, q *Req, now int64) bool {
				for _, t := range q.Tags[a[0].S] {
					if t == a[1].S {
						return true
					}
				}
				return false
			}},
		// --- response/*.md
		valueSpec("res_code_in", true, AResCode, MIn, kS, CaseSilent, fResCode),
		keySpec("res_header_key_in", true, AResHeaderKey, MKeyIn, func(q *Req) ([]KV, bool) { return q.RespHeaders, q.HasResp }),
		valueSpec("res_header_value_in", true, AResHeaderValue, MIn, kSSB, CaseByFlag, fResHeaderV),
		// --- session/*.md
		rangeSpec("ses_sip_range", ASIP, func(q *Req) string { return q.SIP }),
		rangeSpec("ses_vip_range", AVIP, func(q *Req) string { return q.VIP }),
		valueSpec("ses_tls_sni_in", true, ASNI, MIn, kS, CaseSilent, fSNI),
		flagSpec("ses_tls_client_auth", true, AClientAuth, func(q *Req) bool { return q.Secure && q.HasTLS && q.ClientAuth }),
		valueSpec("ses_tls_client_ca_in", true, AClientCA, MIn, kS, CaseSilent, fClientCA),
		// --- system/time.md
		{Name: "bfe_time_range", Kinds: []Kind{KTime, KTimeEnd}, Documented: true, Attr: ATime, Class: MTime, Case: CaseSilent,
			Eval: func(a []Arg, q *Req, now int64) bool {
				s, _ := ParseTime(a[0].S)
				e, _ := ParseTime(a[1].S)
				return s <= now && now <= e
			}},
		{Name: "bfe_periodic_time_range", Kinds: []Kind{KTimeOfDay, KTimeOfDay, KPeriod}, Documented: true, Attr: ATime, Class: MPeriodic, Case: CaseSilent,
			Eval: func(a []Arg, q *Req, now int64) bool {
				s, z, _ := ParseTimeOfDay(a[0].S)
				e, _, _ := ParseTimeOfDay(a[1].S)
				local := now + int64(z)*3600
				tod := int(((local % 86400) + 86400) % 86400)
				return s <= tod && tod <= e
			}},
		// --- primitives without a doc page: semantics from the naming
		// convention (in / suffix_in / contain / regmatch / match) only
		flagSpec("default_t", false, ANone, func(q *Req) bool { return true }),
		valueSpec("req_proto_match", false, AProto, MExact, kS, CaseSilent, fProto),
		valueSpec("req_host_regmatch", false, AHost, MRegexp, kR, CaseSilent, fHost),
		valueSpec("req_host_tag_in", false, AHostTag, MIn, kS, CaseSilent, fHostTag),
		valueSpec("req_host_suffix_in", false, AHost, MSuffix, kS, CaseSilent, fHost),
		valueSpec("req_path_regmatch", false, APath, MRegexp, kR, CaseSilent, fPath),
		flagSpec("req_query_exist", false, AQueryAny, func(q *Req) bool { return len(q.Query) > 0 }),
		valueSpec("req_query_value_regmatch", false, AQueryValue, MRegexp, kSR, CaseSilent, fQueryV),
		valueSpec("req_query_value_contain", false, AQueryValue, MContain, kSSB, CaseByFlag, fQueryV),
		valueSpec("req_ua_regmatch", false, AUA, MRegexp, kR, CaseSilent, fUA),
		valueSpec("req_header_value_regmatch", false, AHeaderValue, MRegexp, kSR, CaseSilent, fHeaderV),
		valueSpec("req_context_value_in", false, AContext, MIn, kSSB, CaseByFlag, fContext),
	}
	m := map[string]Spec{}
	for _, s := range l {
		m[s.Name] = s
	}
	return m
}

// PatternIndex is the index of the pattern-list argument of a value-style
// primitive (after an optional key argument).
func (s Spec) PatternIndex() int {
	if len(s.Kinds) >= 2 && s.Kinds[1].IsString() && s.Class != MIPRange && s.Class != MTime && s.Class != MPeriodic && s.Class != MTag {
		return 1
	}
	return 0
}

// HasKey reports whether argument 0 names the key/header/cookie inspected.
func (s Spec) HasKey() bool {
	switch s.Attr {
	case AQueryValue, ACookieValue, AHeaderValue, AResHeaderValue, AContext, ATag:
		return true
	}
	return false
}

// CaseIndex is the index of the case_insensitive argument or -1.
func (s Spec) CaseIndex() int {
	for i, k := range s.Kinds {
		if k == KBool {
			return i
		}
	}
	return -1
}
