// Package cond is an independent reference model of BFE's condition DSL,
// written from docs/en_us/condition/** and the property statements C16-C18.
// It never calls the bfe code under test.
//
// expr.go: the documented expression grammar (condition_grammar.md):
//
//	CE = CE && CE | CE || CE | ( CE ) | ! CE | ConditionPrimitive
//
// with the documented precedence table: () > ! (right-to-left) > && > ||
// (both left-to-right).
package cond

import (
	"fmt"
	"strings"
)

// TokKind is a lexical class of the expression level (a whole primitive call
// is one ATOM token).
type TokKind int

const (
	TAtom TokKind = iota
	TNot
	TAnd
	TOr
	TLParen
	TRParen
)

type Tok struct {
	Kind TokKind
	Text string // for atoms: the call text with all insignificant whitespace removed
}

// Tokenize splits an expression into expression-level tokens. Whitespace
// between tokens is space, tab, CR, LF. A primitive call is
// name '(' args ')' where string arguments are "..." or `...` without escapes
// (the generators never produce escapes). It returns an error for anything
// that is not such a token.
func Tokenize(s string) ([]Tok, error) {
	var out []Tok
	i := 0
	isWS := func(c byte) bool { return c == ' ' || c == '\t' || c == '\r' || c == '\n' }
	isIdent := func(c byte) bool {
		return c == '_' || c == '-' || c >= 'a' && c <= 'z' || c >= 'A' && c <= 'Z' || c >= '0' && c <= '9'
	}
	for i < len(s) {
		c := s[i]
		switch {
		case isWS(c):
			i++
		case c == '!':
			out = append(out, Tok{Kind: TNot})
			i++
		case c == '(':
			out = append(out, Tok{Kind: TLParen})
			i++
		case c == ')':
			out = append(out, Tok{Kind: TRParen})
			i++
		case c == '&':
			if i+1 >= len(s) || s[i+1] != '&' {
				return nil, fmt.Errorf("single & at %d", i)
			}
			out = append(out, Tok{Kind: TAnd})
			i += 2
		case c == '|':
			if i+1 >= len(s) || s[i+1] != '|' {
				return nil, fmt.Errorf("single | at %d", i)
			}
			out = append(out, Tok{Kind: TOr})
			i += 2
		case isIdent(c) && !(c >= '0' && c <= '9'):
			j := i
			for j < len(s) && isIdent(s[j]) {
				j++
			}
			name := s[i:j]
			k := j
			for k < len(s) && isWS(s[k]) {
				k++
			}
			if k >= len(s) || s[k] != '(' {
				return nil, fmt.Errorf("identifier %q is not a primitive call (condition variable?)", name)
			}
			// scan the argument list up to the matching ')'
			var b strings.Builder
			b.WriteString(name)
			b.WriteByte('(')
			k++
			closed := false
			for k < len(s) && !closed {
				ch := s[k]
				switch {
				case ch == '"' || ch == '`':
					e := strings.IndexByte(s[k+1:], ch)
					if e < 0 {
						return nil, fmt.Errorf("unterminated string at %d", k)
					}
					b.WriteString(s[k : k+1+e+1])
					k += e + 2
				case ch == ')':
					b.WriteByte(')')
					k++
					closed = true
				case isWS(ch):
					k++
				case ch == '(':
					return nil, fmt.Errorf("nested ( in argument list at %d", k)
				default:
					b.WriteByte(ch)
					k++
				}
			}
			if !closed {
				return nil, fmt.Errorf("unterminated call %q", name)
			}
			out = append(out, Tok{Kind: TAtom, Text: b.String()})
			i = k
		default:
			return nil, fmt.Errorf("unexpected byte %q at %d", c, i)
		}
	}
	return out, nil
}

// Node is an expression tree.
type Node struct {
	Op   TokKind // TAtom, TNot, TAnd, TOr
	Atom string
	L, R *Node
}

// Eval evaluates the tree; truth gives the value of each atom.
func (n *Node) Eval(truth func(atom string) bool) bool {
	switch n.Op {
	case TAtom:
		return truth(n.Atom)
	case TNot:
		return !n.L.Eval(truth)
	case TAnd:
		l, r := n.L.Eval(truth), n.R.Eval(truth)
		return l && r
	case TOr:
		l, r := n.L.Eval(truth), n.R.Eval(truth)
		return l || r
	}
	panic("bad node")
}

// String prints the tree fully parenthesised.
func (n *Node) String() string {
	switch n.Op {
	case TAtom:
		return n.Atom
	case TNot:
		return "!" + n.L.String()
	case TAnd:
		return "(" + n.L.String() + " && " + n.R.String() + ")"
	case TOr:
		return "(" + n.L.String() + " || " + n.R.String() + ")"
	}
	return "?"
}

// ---------------------------------------------------------------------------
// The documented grammar as a plain recursive-descent parser:
//
//	or   := and { "||" and }          left-associative, lowest
//	and  := not { "&&" not }          left-associative
//	not  := "!" not | primary          right-associative, binds tighter than && and ||
//	primary := ATOM | "(" or ")"

type docParser struct {
	toks []Tok
	pos  int
}

func (p *docParser) peek() (Tok, bool) {
	if p.pos < len(p.toks) {
		return p.toks[p.pos], true
	}
	return Tok{}, false
}

func (p *docParser) parseOr() (*Node, error) {
	l, err := p.parseAnd()
	if err != nil {
		return nil, err
	}
	for {
		t, ok := p.peek()
		if !ok || t.Kind != TOr {
			return l, nil
		}
		p.pos++
		r, err := p.parseAnd()
		if err != nil {
			return nil, err
		}
		l = &Node{Op: TOr, L: l, R: r}
	}
}

func (p *docParser) parseAnd() (*Node, error) {
	l, err := p.parseNot()
	if err != nil {
		return nil, err
	}
	for {
		t, ok := p.peek()
		if !ok || t.Kind != TAnd {
			return l, nil
		}
		p.pos++
		r, err := p.parseNot()
		if err != nil {
			return nil, err
		}
		l = &Node{Op: TAnd, L: l, R: r}
	}
}

func (p *docParser) parseNot() (*Node, error) {
	t, ok := p.peek()
	if !ok {
		return nil, fmt.Errorf("operand expected at end")
	}
	if t.Kind == TNot {
		p.pos++
		x, err := p.parseNot()
		if err != nil {
			return nil, err
		}
		return &Node{Op: TNot, L: x}, nil
	}
	return p.parsePrimary()
}

func (p *docParser) parsePrimary() (*Node, error) {
	t, ok := p.peek()
	if !ok {
		return nil, fmt.Errorf("operand expected at end")
	}
	switch t.Kind {
	case TAtom:
		p.pos++
		return &Node{Op: TAtom, Atom: t.Text}, nil
	case TLParen:
		p.pos++
		x, err := p.parseOr()
		if err != nil {
			return nil, err
		}
		t2, ok := p.peek()
		if !ok || t2.Kind != TRParen {
			return nil, fmt.Errorf(") expected at token %d", p.pos)
		}
		p.pos++
		return x, nil
	}
	return nil, fmt.Errorf("operand expected at token %d", p.pos)
}

// ParseDocumented parses a token list with the documented grammar.
func ParseDocumented(toks []Tok) (*Node, error) {
	p := &docParser{toks: toks}
	n, err := p.parseOr()
	if err != nil {
		return nil, err
	}
	if p.pos != len(toks) {
		return nil, fmt.Errorf("trailing token %d", p.pos)
	}
	return n, nil
}

// ---------------------------------------------------------------------------
// Alternative (wrong) grammars, used ONLY to name the shape of a mismatch.

// Grammar gives binding strengths (higher binds tighter).
type Grammar struct {
	Name          string
	Not, And, Or  int
	BinRightAssoc bool
}

var Alternatives = []Grammar{
	{Name: "or-binds-tighter-than-and", Not: 9, And: 1, Or: 2},
	{Name: "and-or-equal-precedence-left-assoc", Not: 9, And: 1, Or: 1},
	{Name: "and-or-equal-precedence-right-assoc", Not: 9, And: 1, Or: 1, BinRightAssoc: true},
	{Name: "not-binds-looser-than-and", Not: 2, And: 3, Or: 1},
	{Name: "not-binds-loosest", Not: 0, And: 3, Or: 1},
	{Name: "or-tighter-than-and+not-looser-than-or", Not: 2, And: 1, Or: 3},
	{Name: "or-tighter-than-and+not-loosest", Not: 0, And: 1, Or: 2},
}

type altParser struct {
	g    Grammar
	toks []Tok
	pos  int
}

func (p *altParser) prec(k TokKind) int {
	if k == TAnd {
		return p.g.And
	}
	return p.g.Or
}

func (p *altParser) expr(min int) (*Node, error) {
	var l *Node
	if p.pos >= len(p.toks) {
		return nil, fmt.Errorf("operand expected")
	}
	t := p.toks[p.pos]
	switch t.Kind {
	case TNot:
		p.pos++
		x, err := p.expr(p.g.Not)
		if err != nil {
			return nil, err
		}
		l = &Node{Op: TNot, L: x}
	case TAtom:
		p.pos++
		l = &Node{Op: TAtom, Atom: t.Text}
	case TLParen:
		p.pos++
		x, err := p.expr(-1)
		if err != nil {
			return nil, err
		}
		if p.pos >= len(p.toks) || p.toks[p.pos].Kind != TRParen {
			return nil, fmt.Errorf(") expected")
		}
		p.pos++
		l = x
	default:
		return nil, fmt.Errorf("operand expected")
	}
	for p.pos < len(p.toks) {
		t := p.toks[p.pos]
		if t.Kind != TAnd && t.Kind != TOr {
			break
		}
		pr := p.prec(t.Kind)
		if pr < min {
			break
		}
		p.pos++
		next := pr + 1
		if p.g.BinRightAssoc {
			next = pr
		}
		r, err := p.expr(next)
		if err != nil {
			return nil, err
		}
		l = &Node{Op: t.Kind, L: l, R: r}
	}
	return l, nil
}

// ParseAlt parses with a (wrong) alternative grammar.
func ParseAlt(g Grammar, toks []Tok) (*Node, error) {
	p := &altParser{g: g, toks: toks}
	n, err := p.expr(-1)
	if err != nil {
		return nil, err
	}
	if p.pos != len(toks) {
		return nil, fmt.Errorf("trailing token")
	}
	return n, nil
}

// Skeleton renders a token list compactly (p for atoms).
func Skeleton(toks []Tok) string {
	var b strings.Builder
	for _, t := range toks {
		switch t.Kind {
		case TAtom:
			b.WriteByte('p')
		case TNot:
			b.WriteByte('!')
		case TAnd:
			b.WriteString("&&")
		case TOr:
			b.WriteString("||")
		case TLParen:
			b.WriteByte('(')
		case TRParen:
			b.WriteByte(')')
		}
	}
	return b.String()
}
