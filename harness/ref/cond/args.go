package cond

// args.go: reference validators for primitive arguments (C17), written from
// the parameter tables in docs/en_us/condition/**. They are three-valued:
// Valid (the docs clearly allow it), Invalid (no reading of the docs allows
// it) and Unspecified (the docs are silent: whitespace tolerance, letter case
// of zone letters, sign prefixes, mixed address families, ...). Only Invalid
// creates an obligation (Build must fail); only Valid is used where a build
// is expected to succeed.

import (
	"regexp/syntax"
	"strings"
)

type Validity int

const (
	Valid Validity = iota
	Invalid
	Unspecified
)

func (v Validity) String() string {
	switch v {
	case Valid:
		return "valid"
	case Invalid:
		return "invalid"
	}
	return "unspecified"
}

// Kind is the documented kind of a primitive argument.
type Kind int

const (
	KStr       Kind = iota // any string / list of strings joined by |
	KBool                  // Boolean
	KHostList              // list of hosts (req_host_in)
	KIPList                // list of IP addresses joined by |
	KIPStart               // start ip address (paired with the following KIPEnd)
	KIPEnd                 // end ip address
	KRegexp                // a regular expression
	KHashList              // list of hash values/ranges in 0..9999 joined by |
	KTime                  // yyyymmddhhmmssZ
	KTimeEnd               // yyyymmddhhmmssZ, paired with the preceding KTime
	KTimeOfDay             // hhmmssZ
	KPeriod                // period string of bfe_periodic_time_range
)

// IsString reports whether the kind is written as a String literal.
func (k Kind) IsString() bool { return k != KBool }

func (k Kind) String() string {
	return [...]string{"str", "bool", "hostlist", "iplist", "ipstart", "ipend", "regexp", "hashlist", "time", "timeend", "timeofday", "period"}[k]
}

func hasSpace(s string) bool {
	return strings.ContainsAny(s, " \t\r\n\v\f\u0085 ")
}

func allDigits(s string) bool {
	if s == "" {
		return false
	}
	for i := 0; i < len(s); i++ {
		if s[i] < '0' || s[i] > '9' {
			return false
		}
	}
	return true
}

// ---- IP addresses ---------------------------------------------------------

// parseV4 parses a strict dotted quad. ok=false means "not a clean dotted
// quad"; odd=true means the only objection is a leading zero.
func parseV4(s string) (ip [4]byte, ok bool, odd bool) {
	parts := strings.Split(s, ".")
	if len(parts) != 4 {
		return ip, false, false
	}
	for i, p := range parts {
		if !allDigits(p) || len(p) > 3 {
			return ip, false, false
		}
		n := 0
		for j := 0; j < len(p); j++ {
			n = n*10 + int(p[j]-'0')
		}
		if n > 255 {
			return ip, false, false
		}
		if len(p) > 1 && p[0] == '0' {
			odd = true
		}
		ip[i] = byte(n)
	}
	if odd {
		return ip, false, true
	}
	return ip, true, false
}

// ParseIP parses the textual forms of RFC 4291 section 2.2 (and dotted quads).
// It returns the 16-byte form (IPv4 as ::ffff:a.b.c.d), whether the text was an
// IPv4 dotted quad, and the validity of the text.
func ParseIP(s string) (ip [16]byte, isV4 bool, v Validity) {
	if s == "" {
		return ip, false, Invalid
	}
	if hasSpace(s) {
		return ip, false, Unspecified // whitespace tolerance is not documented
	}
	if !strings.Contains(s, ":") {
		q, ok, odd := parseV4(s)
		if odd {
			return ip, true, Unspecified
		}
		if !ok {
			return ip, false, Invalid
		}
		ip[10], ip[11] = 0xff, 0xff
		copy(ip[12:], q[:])
		return ip, true, Valid
	}
	// IPv6
	for i := 0; i < len(s); i++ {
		c := s[i]
		if !(c >= '0' && c <= '9' || c >= 'a' && c <= 'f' || c >= 'A' && c <= 'F' || c == ':' || c == '.') {
			return ip, false, Invalid // includes zone ids and brackets
		}
	}
	if strings.Count(s, "::") > 1 || strings.Contains(s, ":::") {
		return ip, false, Invalid
	}
	var head, tail []string
	hasEllipsis := strings.Contains(s, "::")
	if hasEllipsis {
		i := strings.Index(s, "::")
		if h := s[:i]; h != "" {
			head = strings.Split(h, ":")
		}
		if t := s[i+2:]; t != "" {
			tail = strings.Split(t, ":")
		}
	} else {
		head = strings.Split(s, ":")
	}
	groups := func(parts []string, last bool) ([]byte, Validity) {
		var out []byte
		for i, p := range parts {
			if strings.Contains(p, ".") {
				if !(last && i == len(parts)-1) {
					return nil, Invalid
				}
				q, ok, odd := parseV4(p)
				if odd {
					return nil, Unspecified
				}
				if !ok {
					return nil, Invalid
				}
				out = append(out, q[:]...)
				continue
			}
			if len(p) == 0 || len(p) > 4 {
				return nil, Invalid
			}
			n := 0
			for j := 0; j < len(p); j++ {
				c := p[j]
				switch {
				case c >= '0' && c <= '9':
					n = n*16 + int(c-'0')
				case c >= 'a' && c <= 'f':
					n = n*16 + int(c-'a') + 10
				default:
					n = n*16 + int(c-'A') + 10
				}
			}
			out = append(out, byte(n>>8), byte(n))
		}
		return out, Valid
	}
	hb, hv := groups(head, !hasEllipsis)
	if hv != Valid {
		return ip, false, hv
	}
	tb, tv := groups(tail, true)
	if tv != Valid {
		return ip, false, tv
	}
	n := len(hb) + len(tb)
	if hasEllipsis {
		if n > 16 {
			return ip, false, Invalid
		}
		if n == 16 {
			return ip, false, Unspecified // "::" standing for zero groups
		}
	} else if n != 16 {
		return ip, false, Invalid
	}
	copy(ip[:], hb)
	copy(ip[16-len(tb):], tb)
	return ip, false, Valid
}

// ValidateIPList: IP addresses joined by |.
func ValidateIPList(s string) Validity {
	res := Valid
	for _, e := range strings.Split(s, "|") {
		_, _, v := ParseIP(e)
		if v == Invalid {
			return Invalid
		}
		if v == Unspecified {
			res = Unspecified
		}
	}
	return res
}

// ValidateIPRange: [start_ip, end_ip]. A range whose end precedes its start is
// invalid; a range mixing IPv4 and IPv6 text is not covered by the docs.
func ValidateIPRange(start, end string) Validity {
	a, a4, va := ParseIP(start)
	b, b4, vb := ParseIP(end)
	if va == Invalid || vb == Invalid {
		return Invalid
	}
	if va == Unspecified || vb == Unspecified {
		return Unspecified
	}
	if a4 != b4 {
		return Unspecified
	}
	if CompareIP(a, b) > 0 {
		return Invalid
	}
	return Valid
}

func CompareIP(a, b [16]byte) int {
	for i := 0; i < 16; i++ {
		if a[i] != b[i] {
			if a[i] < b[i] {
				return -1
			}
			return 1
		}
	}
	return 0
}

// ---- regular expressions ---------------------------------------------------

// ValidateRegexp: the docs say "a regular expression"; the dialect is taken to
// be Go's RE2 syntax and the Go standard library parser is the trusted judge.
func ValidateRegexp(s string) Validity {
	if _, err := syntax.Parse(s, syntax.Perl); err != nil {
		return Invalid
	}
	return Valid
}

// ---- hash value lists -------------------------------------------------------

// HashSection parses "N" or "N-M" (decimal, 0..9999, N<=M).
func HashSection(sec string) (lo, hi int, v Validity) {
	if sec == "" {
		return 0, 0, Invalid
	}
	for i := 0; i < len(sec); i++ {
		c := sec[i]
		if !(c >= '0' && c <= '9' || c == '-' || c == '+' || c == ' ') {
			return 0, 0, Invalid
		}
	}
	if strings.ContainsAny(sec, " +") {
		return 0, 0, Unspecified // tolerance for blanks / explicit sign is not documented
	}
	parts := strings.Split(sec, "-")
	if len(parts) > 2 {
		return 0, 0, Invalid
	}
	var nums [2]int
	for i, p := range parts {
		if !allDigits(p) {
			return 0, 0, Invalid // empty number: "-5", "5-"
		}
		p = strings.TrimLeft(p, "0")
		if len(p) > 4 {
			return 0, 0, Invalid // > 9999
		}
		n := 0
		for j := 0; j < len(p); j++ {
			n = n*10 + int(p[j]-'0')
		}
		nums[i] = n
	}
	if len(parts) == 1 {
		nums[1] = nums[0]
	}
	if nums[0] > nums[1] {
		return 0, 0, Invalid
	}
	return nums[0], nums[1], Valid
}

func ValidateHashList(s string) Validity {
	res := Valid
	for _, sec := range strings.Split(s, "|") {
		_, _, v := HashSection(sec)
		if v == Invalid {
			return Invalid
		}
		if v == Unspecified {
			res = Unspecified
		}
	}
	return res
}

// HashListContains reports whether bucket k is in a Valid hash list.
func HashListContains(s string, k int) bool {
	for _, sec := range strings.Split(s, "|") {
		lo, hi, v := HashSection(sec)
		if v == Valid && lo <= k && k <= hi {
			return true
		}
	}
	return false
}

// ---- times ------------------------------------------------------------------

// ZoneOffset is Appendix B of system/time.md: military zone letter -> hours.
func ZoneOffset(letter byte) (hours int, ok bool) {
	switch {
	case letter >= 'A' && letter <= 'I':
		return int(letter-'A') + 1, true
	case letter >= 'K' && letter <= 'M':
		return int(letter-'K') + 10, true
	case letter >= 'N' && letter <= 'Y':
		return -(int(letter-'N') + 1), true
	case letter == 'Z':
		return 0, true
	}
	return 0, false
}

func zoneValidity(c byte) Validity {
	if _, ok := ZoneOffset(c); ok {
		return Valid
	}
	if c >= 'a' && c <= 'z' {
		if _, ok := ZoneOffset(c - 32); ok {
			return Unspecified // lower-case zone letter
		}
	}
	return Invalid
}

func num2(s string) int { return int(s[0]-'0')*10 + int(s[1]-'0') }

func isLeap(y int) bool { return y%4 == 0 && (y%100 != 0 || y%400 == 0) }

func daysIn(y, m int) int {
	switch m {
	case 2:
		if isLeap(y) {
			return 29
		}
		return 28
	case 4, 6, 9, 11:
		return 30
	}
	return 31
}

// daysFromCivil: days since 1970-01-01 of a proleptic Gregorian date
// (Howard Hinnant's algorithm).
func daysFromCivil(y, m, d int) int64 {
	if m <= 2 {
		y--
	}
	var era int64
	if y >= 0 {
		era = int64(y) / 400
	} else {
		era = (int64(y) - 399) / 400
	}
	yoe := int64(y) - era*400
	mp := int64((m + 9) % 12)
	doy := (153*mp+2)/5 + int64(d) - 1
	doe := yoe*365 + yoe/4 - yoe/100 + doy
	return era*146097 + doe - 719468
}

func todFields(s string) (sec int, v Validity) {
	h, m, x := num2(s[0:2]), num2(s[2:4]), num2(s[4:6])
	if h > 23 || m > 59 || x > 60 {
		return 0, Invalid
	}
	if x == 60 {
		return 0, Unspecified // leap second
	}
	return h*3600 + m*60 + x, Valid
}

// ParseTime parses yyyymmddhhmmssZ and returns the instant as Unix seconds.
func ParseTime(s string) (unix int64, v Validity) {
	if hasSpace(s) {
		return 0, Unspecified
	}
	if len(s) != 15 || !allDigits(s[:14]) {
		return 0, Invalid
	}
	zv := zoneValidity(s[14])
	if zv == Invalid {
		return 0, Invalid
	}
	y := num2(s[0:2])*100 + num2(s[2:4])
	mo, d := num2(s[4:6]), num2(s[6:8])
	if mo < 1 || mo > 12 || d < 1 || d > daysIn(y, mo) {
		return 0, Invalid
	}
	sec, tv := todFields(s[8:14])
	if tv == Invalid {
		return 0, Invalid
	}
	if tv == Unspecified || zv == Unspecified || y == 0 {
		return 0, Unspecified
	}
	off, _ := ZoneOffset(s[14])
	return daysFromCivil(y, mo, d)*86400 + int64(sec) - int64(off)*3600, Valid
}

// ParseTimeOfDay parses hhmmssZ: seconds since local midnight and zone hours.
func ParseTimeOfDay(s string) (sec int, zoneHours int, v Validity) {
	if hasSpace(s) {
		return 0, 0, Unspecified
	}
	if len(s) != 7 || !allDigits(s[:6]) {
		return 0, 0, Invalid
	}
	zv := zoneValidity(s[6])
	if zv == Invalid {
		return 0, 0, Invalid
	}
	sec, tv := todFields(s[:6])
	if tv == Invalid {
		return 0, 0, Invalid
	}
	if tv == Unspecified || zv == Unspecified {
		return 0, 0, Unspecified
	}
	zoneHours, _ = ZoneOffset(s[6])
	return sec, zoneHours, Valid
}

func ValidateTimeRange(start, end string) Validity {
	a, va := ParseTime(start)
	b, vb := ParseTime(end)
	if va == Invalid || vb == Invalid {
		return Invalid
	}
	if va == Unspecified || vb == Unspecified {
		return Unspecified
	}
	if a > b {
		return Invalid
	}
	return Valid
}

// ValidatePeriodic: both times of day valid; a window that wraps midnight or
// whose ends use different zone letters is not covered by the docs; the only
// documented period value is "".
func ValidatePeriodic(start, end, period string) Validity {
	a, za, va := ParseTimeOfDay(start)
	b, zb, vb := ParseTimeOfDay(end)
	if va == Invalid || vb == Invalid {
		return Invalid
	}
	if va == Unspecified || vb == Unspecified || period != "" {
		return Unspecified
	}
	if za != zb || a > b {
		return Unspecified
	}
	return Valid
}

// ---- hosts ------------------------------------------------------------------

func ValidateHostList(s string) Validity {
	for _, h := range strings.Split(s, "|") {
		if h == "" || hasSpace(h) || strings.Contains(h, ":") {
			return Unspecified
		}
	}
	return Valid
}

// ValidateArgs gives the validity of a complete, correctly typed argument
// list (strs[i] is the content of the i-th argument; ignored for booleans) and
// the index of the first argument that makes it Invalid (-1 otherwise).
func ValidateArgs(kinds []Kind, strs []string) (Validity, int) {
	res := Valid
	for i, k := range kinds {
		v := Valid
		switch k {
		case KHostList:
			v = ValidateHostList(strs[i])
		case KIPList:
			v = ValidateIPList(strs[i])
		case KIPStart:
			v = ValidateIPRange(strs[i], strs[i+1])
		case KRegexp:
			v = ValidateRegexp(strs[i])
		case KHashList:
			v = ValidateHashList(strs[i])
		case KTime:
			v = ValidateTimeRange(strs[i], strs[i+1])
		case KTimeOfDay:
			if i+2 < len(kinds) && kinds[i+1] == KTimeOfDay {
				v = ValidatePeriodic(strs[i], strs[i+1], strs[i+2])
			}
		}
		if v == Invalid {
			return Invalid, i
		}
		if v == Unspecified {
			res = Unspecified
		}
	}
	return res, -1
}

// ---- formatting helpers for the generators -----------------------------------

// civilFromDays is the inverse of daysFromCivil.
func civilFromDays(z int64) (y, m, d int) {
	z += 719468
	var era int64
	if z >= 0 {
		era = z / 146097
	} else {
		era = (z - 146096) / 146097
	}
	doe := z - era*146097
	yoe := (doe - doe/1460 + doe/36524 - doe/146096) / 365
	yy := yoe + era*400
	doy := doe - (365*yoe + yoe/4 - yoe/100)
	mp := (5*doy + 2) / 153
	d = int(doy - (153*mp+2)/5 + 1)
	if mp < 10 {
		m = int(mp + 3)
	} else {
		m = int(mp - 9)
	}
	if m <= 2 {
		yy++
	}
	return int(yy), m, d
}

func pad(n, w int) string {
	s := ""
	for i := 0; i < w; i++ {
		s = string(rune('0'+n%10)) + s
		n /= 10
	}
	return s
}

// FormatTime renders the instant as yyyymmddhhmmssZ in the given zone letter.
func FormatTime(unix int64, zone byte) string {
	off, _ := ZoneOffset(zone)
	local := unix + int64(off)*3600
	days := local / 86400
	sec := local % 86400
	if sec < 0 {
		sec += 86400
		days--
	}
	y, m, d := civilFromDays(days)
	return pad(y, 4) + pad(m, 2) + pad(d, 2) + pad(int(sec/3600), 2) + pad(int(sec%3600/60), 2) + pad(int(sec%60), 2) + string(zone)
}

// FormatTimeOfDay renders seconds since midnight as hhmmssZ.
func FormatTimeOfDay(sec int, zone byte) string {
	return pad(sec/3600, 2) + pad(sec%3600/60, 2) + pad(sec%60, 2) + string(zone)
}

// FormatIP renders a 16-byte address: dotted quad when v4 (bytes 12..15),
// else eight uncompressed hexadecimal groups.
func FormatIP(ip [16]byte, v4 bool) string {
	if v4 {
		return itoa(int(ip[12])) + "." + itoa(int(ip[13])) + "." + itoa(int(ip[14])) + "." + itoa(int(ip[15]))
	}
	const hex = "0123456789abcdef"
	s := ""
	for i := 0; i < 16; i += 2 {
		if i > 0 {
			s += ":"
		}
		n := int(ip[i])<<8 | int(ip[i+1])
		g := ""
		for n > 0 || g == "" {
			g = string(hex[n&15]) + g
			n >>= 4
		}
		s += g
	}
	return s
}

func itoa(n int) string {
	if n == 0 {
		return "0"
	}
	s := ""
	for n > 0 {
		s = string(rune('0'+n%10)) + s
		n /= 10
	}
	return s
}

// AddIP adds delta to the address (within the low `width` bytes: 4 for IPv4,
// 16 for IPv6); ok=false on overflow/underflow.
func AddIP(ip [16]byte, delta int, v4 bool) (out [16]byte, ok bool) {
	out = ip
	lo := 0
	if v4 {
		lo = 12
	}
	carry := delta
	for i := 15; i >= lo && carry != 0; i-- {
		v := int(out[i]) + carry
		out[i] = byte(v & 0xff)
		carry = v >> 8
	}
	return out, carry == 0
}
