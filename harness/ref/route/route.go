// Package route holds the independent reference models of the routing domain
// (properties C10, C11, C12). They are written from the property statements
// and from docs/zh_cn/introduction/route.md; they never call bfe code.
package route

import (
	"net"
	"strings"
)

// ---------------------------------------------------------------- host names

// lowerASCII lower-cases A-Z only (host names are ASCII).
func lowerASCII(s string) string {
	b := []byte(s)
	for i, c := range b {
		if c >= 'A' && c <= 'Z' {
			b[i] = c + 32
		}
	}
	return string(b)
}

// StripPort removes an optional ":port" from a Host header value
// (RFC 3986 authority: reg-name / IPv4 / "[" IPv6 "]", then optional ":port").
func StripPort(h string) string {
	if strings.HasPrefix(h, "[") {
		if i := strings.IndexByte(h, ']'); i >= 0 {
			return h[:i+1]
		}
		return h
	}
	if i := strings.IndexByte(h, ':'); i >= 0 {
		return h[:i]
	}
	return h
}

// NormHost is the comparison form of a request host for the host table:
// port removed, ONE trailing dot removed, lower-cased.
func NormHost(h string) string {
	h = StripPort(h)
	h = strings.TrimSuffix(h, ".") // exactly one
	return lowerASCII(h)
}

// ---------------------------------------------------------------- C10

// HostEntry is one configured host name (exact or "*.suffix") with its tag.
type HostEntry struct {
	Host string
	Tag  string
}

// HostTable is the reference view of host_rule.data + vip_rule.data.
type HostTable struct {
	Entries    []HostEntry
	TagProduct map[string]string // host-tag -> product
	Vips       map[string]string // textual IP -> product
	Default    string            // "" = none
}

// Links of the resolution chain.
const (
	LinkExact    = "exact"
	LinkWildcard = "wildcard"
	LinkVip      = "vip"
	LinkDefault  = "default"
	LinkNone     = "none"
)

// HostResult is the outcome of the chain.
type HostResult struct {
	Product string
	Tag     string // only meaningful for LinkExact / LinkWildcard
	Link    string
}

// Resolve implements the chain of C10: exact host (case-insensitive, port and
// one trailing dot ignored), else the wildcard entry with the longest matching
// suffix, else the VIP's product, else the default product, else none.
func (t *HostTable) Resolve(host string, vip net.IP) HostResult {
	h := NormHost(host)
	// 1. exact
	for _, e := range t.Entries {
		if strings.HasPrefix(e.Host, "*.") {
			continue
		}
		if lowerASCII(e.Host) == h {
			return HostResult{Product: t.TagProduct[e.Tag], Tag: e.Tag, Link: LinkExact}
		}
	}
	// 2. wildcard: "*.suffix" matches h when h = <non-empty> + "." + suffix
	best := -1
	bestLen := -1
	for i, e := range t.Entries {
		if !strings.HasPrefix(e.Host, "*.") {
			continue
		}
		suf := lowerASCII(e.Host[1:]) // ".suffix"
		if len(h) > len(suf) && strings.HasSuffix(h, suf) {
			if len(suf) > bestLen {
				best, bestLen = i, len(suf)
			}
		}
	}
	if best >= 0 {
		e := t.Entries[best]
		return HostResult{Product: t.TagProduct[e.Tag], Tag: e.Tag, Link: LinkWildcard}
	}
	// 3. vip
	if vip != nil {
		for s, p := range t.Vips {
			if ip := net.ParseIP(s); ip != nil && ip.Equal(vip) {
				return HostResult{Product: p, Link: LinkVip}
			}
		}
	}
	// 4. default
	if t.Default != "" {
		return HostResult{Product: t.Default, Link: LinkDefault}
	}
	return HostResult{Link: LinkNone}
}

// ---------------------------------------------------------------- C11

// BasicRule is one basic route rule: host patterns x path patterns -> cluster.
// An empty Hosts (Paths) list means "any host" ("any path"), like "*".
type BasicRule struct {
	Hosts   []string
	Paths   []string
	Cluster string
}

// Host classes, in precedence order.
const (
	HostExact    = "host-exact"
	HostWildcard = "host-wildcard"
	HostAny      = "host-any"
	HostMiss     = "host-miss"
)

// Path classes, in precedence order.
const (
	PathExact  = "path-exact"
	PathPrefix = "path-prefix"
	PathAny    = "path-any"
	PathMiss   = "path-miss"
)

// BasicResult says which rule decided and through which classes.
type BasicResult struct {
	Found     bool
	Cluster   string
	HostClass string
	PathClass string
}

func hostClassOf(pattern, h string) string {
	switch {
	case pattern == "*":
		return HostAny
	case strings.HasPrefix(pattern, "*."):
		suf := lowerASCII(pattern[1:]) // ".suffix"
		if len(h) > len(suf) && strings.HasSuffix(h, suf) {
			label := h[:len(h)-len(suf)]
			if !strings.Contains(label, ".") { // "*" stands for exactly one label
				return HostWildcard
			}
		}
		return HostMiss
	default:
		if lowerASCII(pattern) == h {
			return HostExact
		}
		return HostMiss
	}
}

// pathElems splits a path into its elements: leading "/" dropped, one trailing
// "/" ignored.
func pathElems(p string) []string {
	p = strings.TrimPrefix(p, "/")
	p = strings.TrimSuffix(p, "/")
	if p == "" {
		return nil
	}
	return strings.Split(p, "/")
}

// pathMatch returns the class through which pattern matches path and, for a
// prefix pattern, the number of elements of the prefix.
func pathMatch(pattern, path string) (string, int) {
	switch {
	case pattern == "*":
		return PathAny, 0
	case strings.HasSuffix(pattern, "/*"):
		if !strings.HasPrefix(path, "/") {
			return PathMiss, 0
		}
		pe := pathElems(pattern[:len(pattern)-1])
		re := pathElems(path)
		if len(re) < len(pe) {
			return PathMiss, 0
		}
		for i := range pe {
			if pe[i] != re[i] {
				return PathMiss, 0
			}
		}
		return PathPrefix, len(pe)
	default:
		if pattern == path {
			return PathExact, 0
		}
		return PathMiss, 0
	}
}

// BasicLookup is the documented basic-table lookup: exact host, else
// single-label wildcard host, else any host; inside the chosen host class:
// exact path, else prefix with most path elements, else any path; no fallback
// to another host class. host is the request Host (port ignored, case-insensitive).
func BasicLookup(rules []BasicRule, host, path string) BasicResult {
	h := lowerASCII(StripPort(host))
	type cand struct {
		hostClass string
		path      string
		cluster   string
	}
	var cands []cand
	for _, r := range rules {
		hosts := r.Hosts
		if len(hosts) == 0 {
			hosts = []string{"*"}
		}
		paths := r.Paths
		if len(paths) == 0 {
			paths = []string{"*"}
		}
		for _, hp := range hosts {
			hc := hostClassOf(hp, h)
			if hc == HostMiss {
				continue
			}
			for _, pp := range paths {
				cands = append(cands, cand{hc, pp, r.Cluster})
			}
		}
	}
	for _, hc := range []string{HostExact, HostWildcard, HostAny} {
		var in []cand
		for _, c := range cands {
			if c.hostClass == hc {
				in = append(in, c)
			}
		}
		if len(in) == 0 {
			continue
		}
		// the host class is chosen; no fallback from here
		res := BasicResult{HostClass: hc, PathClass: PathMiss}
		bestN := -1
		anyCluster, haveAny := "", false
		for _, c := range in {
			cls, n := pathMatch(c.path, path)
			switch cls {
			case PathExact:
				return BasicResult{Found: true, Cluster: c.cluster, HostClass: hc, PathClass: PathExact}
			case PathPrefix:
				if n > bestN {
					bestN = n
					res = BasicResult{Found: true, Cluster: c.cluster, HostClass: hc, PathClass: PathPrefix}
				}
			case PathAny:
				anyCluster, haveAny = c.cluster, true
			}
		}
		if res.Found {
			return res
		}
		if haveAny {
			return BasicResult{Found: true, Cluster: anyCluster, HostClass: hc, PathClass: PathAny}
		}
		return res
	}
	return BasicResult{HostClass: HostMiss, PathClass: PathMiss}
}

// ---------------------------------------------------------------- C12

// AdvancedMode is the basic-rule target that defers to the advanced table.
const AdvancedMode = "ADVANCED_MODE"

// Combine is the documented combination of both tables: the basic result when
// it names a real cluster; otherwise the first advanced rule, in configured
// order, whose condition holds (truth[i]); otherwise no cluster.
func Combine(basic BasicResult, advClusters []string, truth []bool) (cluster string, ok bool, via string) {
	if basic.Found && basic.Cluster != AdvancedMode {
		return basic.Cluster, true, "basic"
	}
	for i, c := range advClusters {
		if truth[i] {
			return c, true, "advanced"
		}
	}
	return "", false, "none"
}
